#!/bin/bash
# usage: tools/try_patch.sh <patch.diff> <property> [tier] [seed]
# Applies a patch to a scratch worktree of /repo (outside /repo and /verif), runs one
# check against it through VERIF_REPO, and removes the worktree again.
set -u
patch=$(readlink -f "$1"); prop=$2; tier=${3:-quick}; seed=${4:-1}
wt=$(mktemp -d /tmp/mut-XXXXXX)
git -C /repo worktree add -q --detach "$wt/repo" HEAD || exit 3
if ! git -C "$wt/repo" apply "$patch"; then echo "PATCH DOES NOT APPLY"; git -C /repo worktree remove --force "$wt/repo"; rm -rf "$wt"; exit 3; fi
cd /verif
VERIF_REPO="$wt/repo" VERIF_SEED=$seed bin/vcheck "$prop" --tier "$tier" > "$wt/out.txt" 2>&1
rc=$?
grep -E '^(VIOLATION|KNOWN-FINDING|BROKEN|  signature|C[0-9]+ tier)' "$wt/out.txt" | head -${LINES_MAX:-12}
echo "exit=$rc"
git -C /repo worktree remove --force "$wt/repo"; rm -rf "$wt"
exit $rc
