#!/bin/bash
# usage: tools/seed_matrix_par.sh [lanes]  - like seed_matrix.sh over all stored seeds, in parallel lanes;
# writes seeded/MATRIX.tsv (id, check, exit status of the check on the seeded tree | noapply, signatures)
cd /verif
lanes=${1:-4}
work=$(mktemp -d /tmp/seedmatrix.XXXXXX)
ls -d seeded/C*-r*/ | xargs -n1 basename > $work/all
split -n l/$lanes -d $work/all $work/lane.
one() {
  id=$1
  d=seeded/$id
  [ -f $d/patch.diff ] || return
  if python3 -c "import json,sys;sys.exit(0 if json.load(open('$d/meta.json')).get('retired') else 1)"; then printf "%s\t-\tretired\t\n" "$id"; return; fi
  chk=$(python3 -c "import json,sys;m=json.load(open('$d/meta.json'));print(m.get('detection',{}).get('caught_by') or m['property'])")
  res=$(LINES_MAX=40 tools/try_patch.sh $d/patch.diff $chk 2>&1)
  rc=$(echo "$res" | sed -n 's/^exit=//p' | tail -1)
  sigs=$(echo "$res" | sed -n 's/^  signature: //p' | sort -u | tr '\n' ',' | sed 's/,$//')
  echo "$res" | grep -q "DOES NOT APPLY" && rc=noapply
  printf "%s\t%s\t%s\t%s\n" "$id" "$chk" "$rc" "$sigs"
}
for f in $work/lane.*; do
  ( while read id; do one $id; done < $f > $f.out ) &
done
wait
cat $work/lane.*.out | sort > seeded/MATRIX.tsv
rm -rf $work
awk -F'\t' '{n[$3]++} END{for(k in n) print k, n[k]}' seeded/MATRIX.tsv
