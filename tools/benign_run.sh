#!/bin/bash
# usage: tools/benign_run.sh <dir with patch*.diff> [seed]
# Property-preserving changes (made by sub-agents that saw only the property texts): every quick check is run against a
# scratch worktree of /repo with the change applied; every check must stay silent (exit 0, no VIOLATION line).
set -u
dir=$1; seed=${2:-1}
cd /verif
for patch in "$dir"/patch*.diff; do
  wt=$(mktemp -d /tmp/ben-XXXXXX)
  git -C /repo worktree add -q --detach "$wt/repo" HEAD || exit 3
  if ! git -C "$wt/repo" apply "$patch"; then echo "$patch NOAPPLY"; git -C /repo worktree remove --force "$wt/repo"; rm -rf "$wt"; continue; fi
  for p in C01 C02 C03 C04 C05 C06 C07 C08 C09 C10 C11 C12 C13 C14 C15 C16 C17 C18 C19 C20; do
    VERIF_REPO="$wt/repo" VERIF_SEED=$seed bin/vcheck $p --tier quick > "$wt/out.txt" 2>&1; rc=$?
    line=$(grep -E "^$p tier" "$wt/out.txt")
    echo "$(basename $dir)/$(basename $patch) $p rc=$rc $line"
    if [ $rc -ne 0 ]; then grep -E '^(VIOLATION|BROKEN|  signature)' "$wt/out.txt" | head -6; cp "$wt/out.txt" "$dir/$(basename $patch .diff).$p.out"; fi
  done
  git -C /repo worktree remove --force "$wt/repo"; rm -rf "$wt"
done
