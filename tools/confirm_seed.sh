#!/bin/bash
# usage: tools/confirm_seed.sh <Cxx> <A|B>
# Confirms a seeded change in the sub-agent's own scratch worktree (/tmp/seed/Cxx/repo), moved to /repo's HEAD:
# patch applies, builds, unedited suite passes, demonstration fails with the change and passes without it.
prop=$1; v=$2
d=${SEEDBASE:-/tmp/seed}/$prop; wt=$d/repo; patch=$d/patch$v.diff; demo=$d/demo$v
out=${SEEDBASE:-/tmp/seed}/results/$prop$v.json; mkdir -p ${SEEDBASE:-/tmp/seed}/results
export GOFLAGS=-mod=mod GOPROXY=off GOSUMDB=off GOTOOLCHAIN=local
head=$(git -C /repo rev-parse HEAD)
git -C $wt checkout -q -- . ; git -C $wt clean -fdxq; git -C $wt checkout -q --detach $head || { echo "{\"seed\":\"$prop$v\",\"error\":\"checkout\"}" > $out; exit 1; }
applies=true
git -C $wt apply --check $patch 2>/dev/null || applies=false
if [ $applies = false ]; then echo "{\"seed\":\"$prop$v\",\"applies\":false}" > $out; exit 0; fi
# demo without the change
( cd $demo && timeout 900 bash run.sh > $d/demo$v.clean.log 2>&1 ); rc_clean=$?
git -C $wt apply $patch
( cd $wt && go build ./... ) > $d/build$v.log 2>&1; rc_build=$?
suite=skip
if [ $rc_build = 0 ]; then
  if /verif/tools/baseline.sh $wt > $d/suite$v.log 2>&1; then suite=pass; else suite=fail; fi
  git -C $wt clean -fdxq
fi
( cd $demo && timeout 900 bash run.sh > $d/demo$v.patched.log 2>&1 ); rc_patched=$?
git -C $wt checkout -q -- . ; git -C $wt clean -fdxq
echo "{\"seed\":\"$prop$v\",\"applies\":true,\"build\":$rc_build,\"suite\":\"$suite\",\"demo_clean_rc\":$rc_clean,\"demo_patched_rc\":$rc_patched,\"head\":\"$head\"}" > $out
cat $out
