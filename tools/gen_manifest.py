#!/usr/bin/env python3
"""Regenerates MANIFEST.json from tools/manifest_checks.json (per-property texts) and the hook commits of /repo."""
import json, subprocess, os
root = os.path.dirname(os.path.dirname(os.path.abspath(__file__)))
checks = json.load(open(os.path.join(root, 'tools', 'manifest_checks.json')))
props = [json.loads(l) for l in open(os.path.join(root, 'properties.jsonl'))]
hooks = subprocess.run(['git', '-C', '/repo', 'log', '--format=%H %s'], capture_output=True, text=True).stdout.strip().split('\n')
hook_commits = [l.split()[0] for l in hooks if 'verif' in l.lower() and not l.split(' ', 1)[1].startswith('fix:')]
m = {
 "version": 1,
 "setup_cmd": "./setup.sh",
 "hooks": {
  "guard": "verif",
  "enable": "go build -tags verif (the subject /verif/subject is rebuilt from /repo's working tree by every check invocation)",
  "baseline_off_cmd": "cd /repo && GOFLAGS=-mod=mod GOPROXY=off GOSUMDB=off GOTOOLCHAIN=local go test -vet=off -count=1 -json ./...",
  "source_commits": hook_commits,
  "add_only": True
 },
 "engines": [
  {"name": "vcheck", "path": "cmd/vcheck", "serves_properties": sorted(checks['checks'].keys()), "kind_free_text": "driver: seeded workload generators, child-process runner, monitors over command trace / hook event log / file-system snapshots / audit files, evidence writer"},
  {"name": "vcmd", "path": "cmd/vcmd", "serves_properties": sorted(checks['checks'].keys()), "kind_free_text": "the command that workflow tasks execute: probe, fault injector, rendezvous"},
  {"name": "wfrun", "path": "subject", "serves_properties": sorted(checks['checks'].keys()), "kind_free_text": "subject: links scipipe from /repo (built with -tags verif, optionally -race), builds a workflow from a JSON spec through the public API"},
  {"name": "ref", "path": "internal/ref", "serves_properties": sorted(checks['checks'].keys()), "kind_free_text": "independent reference evaluator (no scipipe import): flow semantics, placeholder / modifier / naming rules, lineage"}
 ],
 "checks": [],
 "not_applicable": [],
 "notes": checks.get('notes', '')
}
for p in props:
    pid = p['id']
    if pid in checks['checks']:
        c = checks['checks'][pid]
        m['checks'].append({
          "property_id": pid,
          "quick_cmd": "bin/vcheck %s --tier quick" % pid,
          "thorough_cmd": "bin/vcheck %s --tier thorough" % pid,
          "evidence_file": "/verif/evidence/%s.json" % pid,
          "replay_cmd_template": "bin/vcheck replay {path}",
          "engine": "vcheck",
          "level_claimed": {"category": c['level'], "text": c['text'], "design_ref": c.get('design_ref', 'DESIGN.md section 6, ' + pid)},
          "level_note": c['note'],
          "technique": c['technique'],
        })
    else:
        m['not_applicable'].append({"property_id": pid, "reason": checks.get('not_applicable', {}).get(pid, "check not built yet in this round; the runtime-monitoring design for it is in DESIGN.md section 6")})
json.dump(m, open(os.path.join(root, 'MANIFEST.json'), 'w'), indent=1)
print("checks:", len(m['checks']), "not_applicable:", len(m['not_applicable']))
