#!/usr/bin/env python3
"""Store the confirmed round-3 seeded changes of /tmp/seed3 under /verif/seeded/<Cxx>-r3-<A|B>/.
usage: tools/store_seed3.py [Cxx ...]   (default: every property with results)
For each change: patch.diff, demo/ (sources only), meta.json with the confirmation record
(/tmp/seed3/results/<Cxx><v>.json) and the detection record (tools/try_patch.sh run now)."""
import json, os, re, shutil, subprocess, sys

BASE = os.environ.get('SEEDBASE', '/tmp/seed3')
ROUND = int(os.environ.get('SEEDROUND', '3'))
DESC = {
 'C01A': ('out-IPs of ports declared only through SetOut (no placeholder in the command) no longer learn the task temp dir', 'Go-function task writing through OutIP().Write() to a port that only has a SetOut path'),
 'C01B': ('FileSplitter opens the next split file before the finished one is finalized', 'splitter killed between two split files'),
 'C03A': ('skip check stats the temp-relative path instead of the final path', 'restart after a crash, outputs with parent-relative / absolute paths'),
 'C03B': ('a task command killed by a signal is treated as successful', 'command killed by a signal in the middle of writing'),
 'C04A': ('InPort.CloseConnection: delete of the remote port and check/close in swapped order under a narrower lock', 'fan-in with upstreams closing at the same moment'),
 'C04B': ('FileGlobberDependent receives one dependency IP instead of draining the port until it is closed', 'dependency port fed by a process with several tasks'),
 'C05A': ('InPort.CloseConnection decides "last connection?" before taking the lock', 'several upstreams closing one in-port concurrently (1 in several hundred runs)'),
 'C05B': ('ParamCombinator sends the combinations port after port instead of concurrently', 'combinator ports consumed by ONE process with more tuples than buffer slots'),
 'C06A': ('"hand back partially taken slots" with a for/continue off-by-one', 'multi-core tasks interleaving their token deposits'),
 'C06B': ('Go-function tasks always occupy a single slot', 'Go-function process with CoresPerTask > 1'),
 'C07A': ('slot leak in a "re-check outputs after waiting for slots" step', 'an output of a waiting task appears while it waits'),
 'C07B': ('Go-function tasks release their slots via defer, after the blocking Done send', 'Go-function tasks: short task behind a long one, or diamond with more items than buffer'),
 'C08A': ('FIFOs of streaming out-ports are created and announced from the task goroutine', 'several streamed items whose tasks start in a different order'),
 'C08B': ('FileSplitter passes on the last split of each input file from a defer inside the loop', 'splitter with several input files'),
 'C09A': ('the workflow sink waits for only one of its two drain goroutines', 'sink receiving both file and parameter streams / failing task in one of them'),
 'C09B': ('"outputs exist -> skip" checked before "temp dir exists -> fail"', 'leftover temp dir beside an existing output'),
 'C10A': ('audit logs written after the outputs are finalized', 'kill between finalization and audit writing, then resume'),
 'C10B': ('MapToTags relies on the audit file for the tags of the incoming IP', 'tagged IPs whose audit file is absent / group-by tags'),
 'C11A': ('skip check looks at the temp path', 'RunTo / resume histories with parent-relative or absolute output paths'),
 'C11B': ('"fast path" in Process.Run for tasks whose outputs exist', 'resume with pre-existing outputs in the middle of a chain'),
 'C12A': ('audit info attached to the out-IPs before it is complete (OutFiles map still written)', 'streaming out-port beside another out-port, many items'),
 'C12B': ('FileIP.Read() lazily caches the file content in the IP without a lock', 'one out-port fanned out to two Go functions reading the same IP at the same time'),
 'C13A': ('nobody creates the output directories for Go-function tasks (two cooperating edits)', 'Go function writing through OutIP().Write() to a nested / parent / absolute path'),
 'C13B': ('the streamed out-IP is sent downstream before its FIFO exists', 'streaming consumer starting before mkfifo'),
 'C14A': ('result of a new sortedStrings helper dropped in one of three callers', 'two joined in-ports: identity depends on map order'),
 'C14B': ('temp dir name cached in NewTask before the sub-streams are collected', 'tasks differing only in sub-stream members'),
 'C15A': ('sub-stream member slice reused between ports in NewTask', 'two joined in-ports in one command'),
 'C15B': ('default path function appends tags in map order', 'two or more tags on the input IP'),
 'C16A': ('upstreamProcsForProc stops scanning a fan-in in-port at the first already collected process', 'RunTo target with a fan-in port whose feeders share an ancestor, in some wiring orders'),
 'C16B': ('Sink.Run waits for only one of its two drain goroutines', 'RunTo cutting both a file and a parameter edge'),
 'C17A': ('FIFO cleanup moved to a deferred function running after CloseOutPorts', 'many streamed items, producers exiting after their consumers'),
 'C17B': ('a task with a streaming output is never skipped', 're-run of a completed workflow whose producer has a streaming and a regular output'),
 'C18A': ('the member slice is declared once, outside the loop over the ports', 'two joined in-ports in one process'),
 'C18B': ('InPort.CloseConnection decides "last connection?" before taking the lock', 'fan-in of upstreams closing the sub-stream feeder at the same moment'),
 'C19A': ('Concatenator opens its output without O_TRUNC', 'concatenated output that pre-exists with longer content'),
 'C19B': ('FileGlobberDependent waits for the first dependency IP only', 'dependency process with several, slow items'),
 'C20A': ('audit logs written after the outputs are finalized', 'workflow killed between finalization and audit writing, then resumed'),
 'C20B': ('no command recorded for Go-function tasks + reports omit command-less records (two cooperating edits)', 'Go-function step in the lineage'),
 'C02A': ('slots are claimed before the skip check and the skip path gives back one slot instead of CoresPerTask', 'process with CoresPerTask > 1 and enough of its outputs already on disk'),
 'C02B': ('InPort.CloseConnection got a value receiver: the closeLock is copied on every call and excludes nobody', 're-run of a completed workflow: every task is skipped and all processes feeding one in-port (the sink) close at the same instant'),
}

if os.environ.get('SEEDDESC'):
    DESC = {k: tuple(v) for k, v in json.load(open(os.environ['SEEDDESC'])).items()}


def detect(patch, check):
    p = subprocess.run(['/verif/tools/try_patch.sh', patch, check], capture_output=True, text=True, env=dict(os.environ, LINES_MAX='40'))
    out = p.stdout + p.stderr
    sigs = sorted(set(re.findall(r'signature: (\S+)', out)))
    m = re.search(r'exit=(\d+)', out)
    return (int(m.group(1)) if m else -1), sigs

def main():
    of = '/verif/tools/seed%d_other_checks.json' % ROUND
    other = json.load(open(of)) if os.path.exists(of) else {}
    props = sys.argv[1:] or sorted({f[:3] for f in os.listdir(BASE + '/results')})
    for prop in props:
        for v in 'AB':
            rf = f'{BASE}/results/{prop}{v}.json'
            if not os.path.exists(rf):
                continue
            conf = json.load(open(rf))
            ok = conf.get('applies') and conf.get('build') == 0 and conf.get('suite') == 'pass' and conf.get('demo_clean_rc') == 0 and conf.get('demo_patched_rc') not in (0, None)
            dst = f'/verif/seeded/{prop}-r{ROUND}-{v}'
            if not ok:
                print('NOT CONFIRMED', prop, v, conf)
                continue
            os.makedirs(dst, exist_ok=True)
            shutil.copy(f'{BASE}/{prop}/patch{v}.diff', dst + '/patch.diff')
            if os.path.isdir(dst + '/demo'):
                shutil.rmtree(dst + '/demo')
            shutil.copytree(f'{BASE}/{prop}/demo{v}', dst + '/demo', ignore=lambda d, names: [n for n in names if n not in ('go.mod', 'go.sum', 'run.sh') and not n.endswith(('.go', '.sh', '.md', '.txt', '.py'))])
            rc, sigs = detect(dst + '/patch.diff', prop)
            det = {'command': f'tools/try_patch.sh seeded/{prop}-r{ROUND}-{v}/patch.diff {prop} quick 1', 'caught_by_own_property_check': rc == 1, 'signatures': sigs}
            if rc != 1:
                for oc in other.get(prop + v, []):
                    rc2, sigs2 = detect(dst + '/patch.diff', oc)
                    if rc2 == 1:
                        det['caught_by'] = oc
                        det['command_other'] = f'tools/try_patch.sh seeded/{prop}-r{ROUND}-{v}/patch.diff {oc} quick 1'
                        det['signatures'] = sigs2
                        break
            d = DESC.get(prop + v, ('', ''))
            meta = {
                'property': prop, 'round': ROUND, 'variant': v, 'change': d[0], 'needs_to_manifest': d[1],
                'author': 'fresh sub-agent given only the property text, the mechanisms of the earlier rounds to avoid, the round\'s angle (round 3: hard to observe; round 4: the corner a careful tester is least likely to exercise), and its own scratch worktree of /repo',
                'patch_base': conf.get('head'),
                'confirmed': {'how': 'SEEDBASE=' + BASE + ' tools/confirm_seed.sh: patch applies to /repo HEAD, go build, unedited suite vs BASELINE.json, demo/run.sh with and without the change',
                              'suite_with_change': conf['suite'], 'demo_without_change_rc': conf['demo_clean_rc'], 'demo_with_change_rc': conf['demo_patched_rc']},
                'detection': det,
                'checks_strengthened_because_of_it': 'see DESIGN.md section 15',
                'demo_note': f'demo/go.mod points its replace directive at the sub-agent\'s scratch worktree ({BASE}/{prop}/repo), removed after confirmation',
            }
            json.dump(meta, open(dst + '/meta.json', 'w'), indent=1)
            print(prop, v, 'own' if rc == 1 else det.get('caught_by', 'MISSED'), sigs or det.get('signatures'))

main()
