#!/usr/bin/env python3
"""Systematic single-line mutants of scipipe (self-validation, section 15 of DESIGN.md).

phase 1:  tools/mutgen.py gen <outdir> [seed] [max]
    enumerates line mutations of the library sources, applies each to a scratch worktree of /repo
    (outside /repo and /verif), keeps those that build and pass the unedited pinned suite
    (tools/baseline.sh) as <outdir>/cands/<id>.diff
phase 2:  tools/mutgen.py run <outdir>
    runs the quick checks (fast ones first, stops at the first one that reports a violation) against
    every candidate through VERIF_REPO and appends to <outdir>/results.tsv:
    id, file:line, operator, killed-by (or SURVIVED), signatures
Nothing is ever written to /repo.
"""
import os, re, random, subprocess, sys, json, shutil

FILES = ['task.go', 'process.go', 'port.go', 'workflow.go', 'ip.go', 'sink.go', 'baseprocess.go', 'common.go', 'audit.go', 'components/utils.go',
         'components/file_source.go', 'components/param_source.go', 'components/concatenator.go', 'components/file_combinator.go',
         'components/param_combinator.go', 'components/ip_selector_sync.go', 'components/file_splitter.go', 'components/file_globber.go',
         'components/maptotags.go', 'components/streamtosubstream.go', 'components/file_to_params_reader.go', 'components/cmd_to_param.go']
ORDER = ['C07', 'C09', 'C13', 'C19', 'C16', 'C14', 'C15', 'C04', 'C05', 'C18', 'C02', 'C08', 'C10', 'C17', 'C20', 'C06', 'C12', 'C11', 'C01', 'C03']
ENV = dict(os.environ, GOFLAGS='-mod=mod', GOPROXY='off', GOSUMDB='off', GOTOOLCHAIN='local', BASELINE_TIMEOUT='120s')


OPS = os.environ.get('MUT_OPS', 'all')  # all | swap | classic


def mutations(path, lines):
    out = []
    in_func = False
    for i, raw in enumerate(lines):
        line = raw.rstrip('\n')
        st = line.strip()
        if line.startswith('func '):
            in_func = True
        elif line.startswith('}'):
            in_func = False
        if not st or st.startswith('//') or 'verifPoint(' in st or 'verifTask(' in st:
            continue
        if st.startswith('package ') or st.startswith('import ') or st.startswith('"') or st.startswith('func ') or st.startswith('type '):
            continue
        ind = line[:len(line) - len(line.lstrip())]
        # statement deletion: a call statement on one line
        if re.match(r'^(defer\s+)?[A-Za-z_][\w\.\(\)\[\]"]*\(.*\)$', st) and not st.startswith(('if ', 'for ', 'switch ', 'return', 'go ', 'func')):
            out.append((i, 'delete-call', ind + '_ = 0 // deleted: ' + st.replace('/*', '').replace('*/', '')))
        if re.match(r'^go\s+\w', st):
            pass
        # condition negation
        m = re.match(r'^(\s*)(\}?\s*else\s+)?if\s+(.*)\s*\{$', line)
        if m and ';' not in m.group(3):
            out.append((i, 'negate-if', f"{m.group(1)}{m.group(2) or ''}if !({m.group(3)}) {{"))
        # operator swaps (first occurrence each)
        for a, b in [(' == ', ' != '), (' != ', ' == '), (' < ', ' <= '), (' <= ', ' < '), (' > ', ' >= '), (' >= ', ' > '), (' && ', ' || '), (' || ', ' && ')]:
            if a in line and '"' not in line.split(a)[0][-1:]:
                out.append((i, 'swap' + a.strip() + 'to' + b.strip(), line.replace(a, b, 1)))
        # swap two adjacent simple statements (ordering bugs)
        if in_func and i + 1 < len(lines) and OPS in ('all', 'swap'):
            nxt = lines[i + 1].rstrip('\n')
            nst = nxt.strip()
            nind = nxt[:len(nxt) - len(nxt.lstrip())]
            simple = lambda x: x and not x.startswith(('//', '}', 'case ', 'default', 'return', 'break', 'continue', 'else', 'func ', 'type ', 'var ', 'const ', 'import ', 'package ', 'go func', 'defer func', 'for ', 'if ', 'switch ', 'select')) and not x.endswith(('{', '(', ',')) and 'verifPoint(' not in x and 'verifTask(' not in x
            if simple(st) and simple(nst) and ind == nind and st != nst:
                out.append((i, 'swap-next', None))
        if st == 'continue':
            out.append((i, 'continue-to-break', ind + 'break'))
        if st == 'break':
            out.append((i, 'break-to-continue', ind + 'continue'))
        if st == 'return' :
            out.append((i, 'delete-return', ind + '_ = 0 // deleted: return'))
        # constants
        m = re.search(r'(?<![\w\."])([0-9]+)(?![\w\."])', line)
        if m and '"' not in line and 'case' not in st:
            v = int(m.group(1))
            if v < 1000:
                out.append((i, 'const+1', line[:m.start(1)] + str(v + 1) + line[m.end(1):]))
        # true/false
        if re.search(r'\btrue\b', line) and '"' not in line:
            out.append((i, 'true-to-false', re.sub(r'\btrue\b', 'false', line, 1)))
        elif re.search(r'\bfalse\b', line) and '"' not in line:
            out.append((i, 'false-to-true', re.sub(r'\bfalse\b', 'true', line, 1)))
    if OPS == 'swap':
        out = [m for m in out if m[1] == 'swap-next']
    elif OPS == 'classic':
        out = [m for m in out if m[1] != 'swap-next']
    return out


def sh(cmd, cwd=None, timeout=None, env=ENV):
    return subprocess.run(cmd, cwd=cwd, shell=isinstance(cmd, str), capture_output=True, text=True, timeout=timeout, env=env)


def gen(outdir, seed, maxn, shard=0, nshards=1):
    os.makedirs(outdir + '/cands', exist_ok=True)
    wt = outdir + '/repo%d' % shard
    if not os.path.isdir(wt):
        sh(['git', '-C', '/repo', 'worktree', 'add', '-q', '--detach', wt, 'HEAD'])
    allm = []
    for f in FILES:
        p = os.path.join(wt, f)
        if not os.path.exists(p):
            continue
        lines = open(p).read().split('\n')
        for (i, kind, new) in mutations(f, lines):
            allm.append((f, i, kind, new))
    random.Random(seed).shuffle(allm)
    allm = [m for k, m in enumerate(allm) if k % nshards == shard]
    log = open(outdir + '/gen.tsv', 'a')
    kept = 0
    done = set()
    if os.path.exists(outdir + '/gen.tsv'):
        for l in open(outdir + '/gen.tsv'):
            done.add(tuple(l.split('\t')[:3]))
    print('mutations enumerated:', len(allm), flush=True)
    for (f, i, kind, new) in allm:
        if kept >= maxn:
            break
        if (f, str(i + 1), kind) in done:
            continue
        p = os.path.join(wt, f)
        sh(['git', '-C', wt, 'checkout', '-q', '--', '.'])
        lines = open(p).read().split('\n')
        if kind == 'swap-next':
            lines[i], lines[i + 1] = lines[i + 1], lines[i]
        else:
            lines[i] = new
        open(p, 'w').write('\n'.join(lines))
        b = sh('go build ./... ', cwd=wt)
        status = 'nobuild'
        if b.returncode == 0:
            # the suite runs in its own session; whatever it leaves behind (hung commands, a test binary that
            # re-executes itself) is killed with the session's process group
            pr = subprocess.Popen(['/verif/tools/baseline.sh', wt], stdout=subprocess.DEVNULL, stderr=subprocess.DEVNULL, env=ENV, start_new_session=True)
            try:
                rc = pr.wait(timeout=600)
            except subprocess.TimeoutExpired:
                rc = -1
            try:
                os.killpg(pr.pid, 9)
            except ProcessLookupError:
                pass
            pr.wait()
            status = 'suite-pass' if rc == 0 else 'suite-fail'
            sh(['git', '-C', wt, 'clean', '-fdxq'])
        if status == 'suite-pass':
            kept += 1
            mid = f"{f.replace('/', '_').replace('.go', '')}_{i + 1}_{kind}"
            d = sh(['git', '-C', wt, 'diff'])
            open(f'{outdir}/cands/{mid}.diff', 'w').write(d.stdout)
        log.write(f"{f}\t{i + 1}\t{kind}\t{status}\n")
        log.flush()
        print(f, i + 1, kind, status, flush=True)
    sh(['git', '-C', wt, 'checkout', '-q', '--', '.'])
    sh(['git', '-C', '/repo', 'worktree', 'remove', '--force', wt])


def run(outdir):
    res = outdir + '/results.tsv'
    done = set()
    if os.path.exists(res):
        done = {l.split('\t')[0] for l in open(res)}
    only = sys.argv[3] if len(sys.argv) > 3 else ''
    for fn in sorted(os.listdir(outdir + '/cands')):
        mid = fn[:-5]
        if mid in done or (only and not re.search(only, mid)):
            continue
        removed = [l for l in open(f'{outdir}/cands/{fn}') if l.startswith('-') and not l.startswith('---')]
        hunk = ''.join(l for l in open(f'{outdir}/cands/{fn}') if l.startswith('@@'))
        if any(re.search(r'\bCheckWithMsg\(|\bCheck\(', l) for l in removed) or re.search(r'func CheckWithMsg|func Check\(', hunk):
            open(res, 'a').write(f"{mid}\tSKIPPED-IO-ERROR-PATH\t\n")
            continue
        if any(re.search(r'(Failf?|panic)\(.*(Could not|No such|already exists)', l) for l in removed):
            open(res, 'a').write(f"{mid}\tSKIPPED-DEFENSIVE-ERROR-PATH\t\n")
            continue
        if re.search(r'PlotGraph|DotGraph|PlotConf', hunk):
            open(res, 'a').write(f"{mid}\tSKIPPED-PLOTTING\t\n")
            continue
        if any(re.search(r'\b(Debug|Info|Audit|Warning|Error)\.Print|\bLogAuditf?\(|Auditf\(|Debugf\(|Infof\(|Warnf\(', l) for l in removed):
            open(res, 'a').write(f"{mid}\tSKIPPED-LOGGING\t\n")
            continue
        killed, sigs = 'SURVIVED', ''
        for chk in ORDER:
            p = sh(['/verif/tools/try_patch.sh', f'{outdir}/cands/{fn}', chk], env=dict(ENV, LINES_MAX='30'))
            out = p.stdout + p.stderr
            m = re.search(r'exit=(\d+)', out)
            rc = int(m.group(1)) if m else -1
            if rc == 1:
                killed = chk
                sigs = ','.join(sorted(set(re.findall(r'signature: (\S+)', out))))
                break
            if rc not in (0, 1):
                killed = f'{chk}:rc{rc}'
                sigs = (re.findall(r'BROKEN.*', out) or [''])[0][:200]
                break
        open(res, 'a').write(f"{mid}\t{killed}\t{sigs}\n")
        print(mid, killed, sigs, flush=True)


if __name__ == '__main__':
    if sys.argv[1] == 'gen':
        a = [int(x) for x in sys.argv[3:]] + [None] * 4
        gen(sys.argv[2], a[0] or 1, a[1] or 100, a[2] or 0, a[3] or 1)
    else:
        run(sys.argv[2])
