#!/bin/bash
# Runs the repository's test suite with the guard OFF in a scratch worktree of /repo's HEAD plus
# working-tree changes, and compares per-test results with BASELINE.json. usage: tools/baseline.sh [repo-dir]
repo=${1:-/repo}
export GOFLAGS=-mod=mod GOPROXY=off GOSUMDB=off GOTOOLCHAIN=local
cd "$repo" && go build ./... || exit 1
out=$(mktemp /tmp/bl-XXXXXX.json)
go test -vet=off -count=1 ${BASELINE_TIMEOUT:+-timeout=$BASELINE_TIMEOUT} -json ./... > "$out" 2>&1
python3 - "$out" <<'PY'
import json,sys
base=json.load(open('/root/.vp/BASELINE.json'))
st=set(base['stable_pass'])
res={}
for l in open(sys.argv[1]):
    try: e=json.loads(l)
    except: continue
    if e.get('Test') and e.get('Action') in('pass','fail','skip'):
        res[e['Package']+'::'+e['Test']]=e['Action']
bad=[(t,res.get(t)) for t in sorted(st) if res.get(t)!='pass']
print('stable tests passing: %d of %d' % (len(st)-len(bad), len(st)))
for b in bad: print('  NOT PASSING:', b)
print('other results:', {t:r for t,r in res.items() if t not in st})
sys.exit(1 if bad else 0)
PY
rc=$?
rm -f "$out"
exit $rc
