#!/bin/bash
# usage: tools/run_all.sh [tier] [seed]  - runs every registered check sequentially and prints one line each
cd "$(dirname "$0")/.."
tier=${1:-quick}; seed=${2:-1}
fail=0
for p in C01 C02 C03 C04 C05 C06 C07 C08 C09 C10 C11 C12 C13 C14 C15 C16 C17 C18 C19 C20; do
  out=$(VERIF_SEED=$seed bin/vcheck $p --tier $tier 2>&1); rc=$?
  echo "$out" | grep -E "^$p tier" | sed "s/^/rc=$rc /"
  if [ $rc -ne 0 ]; then fail=1; echo "$out" | grep -E "^(VIOLATION|BROKEN|  signature)" | head -8; fi
done
exit $fail
