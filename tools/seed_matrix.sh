#!/bin/bash
# usage: tools/seed_matrix.sh [glob]   e.g. tools/seed_matrix.sh 'C0*-r3-*'
# Runs every stored seeded change (seeded/<id>/patch.diff) against the check recorded in its meta.json
# (own property, or detection.caught_by) on a scratch worktree of /repo HEAD and writes seeded/MATRIX.tsv.
cd /verif
glob=${1:-*}
out=seeded/MATRIX.tsv
tmp=$(mktemp)
for d in seeded/$glob/; do
  id=$(basename $d)
  [ -f $d/patch.diff ] || continue
  if python3 -c "import json,sys;sys.exit(0 if json.load(open('$d/meta.json')).get('retired') else 1)"; then printf "%s\t-\tretired\t\n" "$id" | tee -a $tmp; continue; fi
  prop=${id%%-*}
  chk=$(python3 -c "import json,sys;m=json.load(open('$d/meta.json'));print(m.get('detection',{}).get('caught_by') or m['property'])")
  res=$(LINES_MAX=40 tools/try_patch.sh $d/patch.diff $chk 2>&1)
  rc=$(echo "$res" | sed -n 's/^exit=//p' | tail -1)
  sigs=$(echo "$res" | sed -n 's/^  signature: //p' | sort -u | tr '\n' ',' | sed 's/,$//')
  echo "$res" | grep -q "DOES NOT APPLY" && rc=noapply
  printf "%s\t%s\t%s\t%s\n" "$id" "$chk" "$rc" "$sigs" | tee -a $tmp
done
if [ "$glob" = "*" ]; then sort $tmp > $out; else grep -v -F -f <(cut -f1 $tmp) $out 2>/dev/null | cat - $tmp | sort > $out.new; mv $out.new $out; fi
rm -f $tmp
