#!/bin/bash
# usage: tools/coverage.sh [tier]   - diagnostic, not a check: runs every check with a subject built with -cover
# and lists the statements of the library (root package and components/) that no workload executed.
# Output: work/coverage/uncovered.txt (file:line ranges with 0 hits), work/coverage/func.txt (per function).
cd /verif
tier=${1:-quick}
export GOFLAGS=-mod=mod GOPROXY=off GOSUMDB=off GOTOOLCHAIN=local
d=/verif/work/coverage; rm -rf $d; mkdir -p $d/raw
for p in C01 C02 C03 C04 C05 C06 C07 C08 C09 C10 C11 C13 C14 C15 C16 C17 C18 C19 C20; do
  VERIF_COVER=$d/raw bin/vcheck $p --tier $tier > $d/$p.log 2>&1; echo "$p rc=$?"
done
go tool covdata textfmt -i=$d/raw -o $d/profile.txt
go tool covdata func -i=$d/raw > $d/func.txt 2>/dev/null
awk 'NR>1 && $NF==0 {print $1}' $d/profile.txt | grep -v "verif_hooks\|/cmd/scipipe\|_test.go" | sort -t: -k1,1 -k2,2n > $d/uncovered.txt
wc -l $d/uncovered.txt
