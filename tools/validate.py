#!/usr/bin/env python3-vt
import json, jsonschema, sys, glob, os
root = os.path.dirname(os.path.dirname(os.path.abspath(__file__)))
m = json.load(open(root + '/MANIFEST.json'))
jsonschema.validate(m, json.load(open('/root/.vp/MANIFEST.schema.json')))
es = json.load(open('/root/.vp/EVIDENCE.schema.json'))
bad = 0
for c in m['checks']:
    f = c['evidence_file']
    if not os.path.exists(f):
        print('missing evidence', f); bad += 1; continue
    try:
        jsonschema.validate(json.load(open(f)), es)
    except Exception as e:
        print('INVALID', f, str(e)[:300]); bad += 1
ids = {json.loads(l)['id'] for l in open(root + '/properties.jsonl')}
claimed = {c['property_id'] for c in m['checks']}
na = {n['property_id'] for n in m.get('not_applicable', [])}
assert claimed | na == ids and not (claimed & na), (ids - claimed - na, claimed & na)
print('manifest valid; evidence problems:', bad)
sys.exit(1 if bad else 0)
