#!/usr/bin/env python3
"""usage: tools/mkprompts.py <round> <basedir>
Writes <basedir>/Cxx/PROMPT.txt and property.txt for a round of independently seeded changes. A sub-agent gets only
the text of its property, the one-line descriptions of the changes earlier sub-agents made for that property (so that
it looks elsewhere) and the path of its own scratch worktree - nothing from /verif."""
import json, os, sys, glob
rnd, base = int(sys.argv[1]), sys.argv[2]
props = [json.loads(l) for l in open('/verif/properties.jsonl')]
for p in props:
    pid = p['id']
    d = f'{base}/{pid}'
    os.makedirs(d, exist_ok=True)
    ptxt = f"Title: {p['title']}\n\nStatement: {p['statement']}\n\nQuantified over: {p['quantifier']['text']}\n"
    open(d + '/property.txt', 'w').write(ptxt)
    earlier = []
    for m in sorted(glob.glob(f'/verif/seeded/{pid}-r*-[AB]/meta.json')):
        mj = json.load(open(m))
        if mj.get('round', 0) < rnd and mj.get('change'):
            earlier.append(f"- {mj['change']}" + (f" (corner: {mj['needs_to_manifest']})" if mj.get('round', 0) >= 6 and mj.get('needs_to_manifest') else ''))
    prompt = f"""You are helping to evaluate a test-adequacy study of the Go library scipipe (module github.com/scipipe/scipipe): a flow-based-programming library that wires shell-command processes into channel-connected workflows. You have your own private git worktree of the library at {d}/repo (no other copy may be touched; never read or write /repo or /verif). The sandbox has NO network. Before every go command run: export GOFLAGS=-mod=mod GOPROXY=off GOSUMDB=off GOTOOLCHAIN=local

The library is supposed to satisfy this property:

{ptxt}

YOUR TASK: produce TWO different, independent, realistic source changes ("seeded bugs") to the library in your worktree, each of which BREAKS this property, while the library still compiles and its existing test suite still passes. Existing-suite command (run inside the worktree): `go build ./... && go test -vet=off -count=1 ./...` — at baseline every test passes except TestExecCmd_EchoFooBar (which always fails in this sandbox; ignore it; a few tests — TestEnsureFailOnMissingOutputs, TestPlotGraph, TestSingleProcessWorkflow — are known flaky/not reported; ignore those too). Do not edit any *_test.go file. Files named verif_hooks_*.go and calls to verifPoint/verifTask are inert instrumentation: leave them alone (do not remove or change those calls, and do not make your bug depend on them).

Requirements for each change:
- It must look like a plausible maintenance mistake or refactoring slip (a dropped lock, a reordered pair of statements, an off-by-one, a wrong map key, a condition inverted in a corner case, an "optimisation", a cleanup that removes a needed step...), small (typically 1-15 changed lines), in non-test Go files of the library (root package, components/, or cmd/scipipe).
- It must NOT be exposed by ordinary simple use at once: it should need something specific to manifest — a particular interleaving or timing, a crash/kill or command failure at a particular point, a multi-step history (run, interrupt, re-run), an unusual but valid input (path shape, value, stream length vs. buffer size, core counts), or two cooperating sites that each look fine alone. Prefer subtle over blatant.
- The two changes should use different mechanisms / different code sites.
- For each change write a demonstration: a small standalone Go program or Go test (in its own directory under {d}/demoA and {d}/demoB, with its own go.mod that has `require github.com/scipipe/scipipe v0.0.0` and `replace github.com/scipipe/scipipe => {d}/repo`; scipipe has no dependencies) plus a `run.sh` that exits 0 when the property holds and non-zero when it is violated. The demonstration must FAIL with the change applied and PASS on the unchanged library (verify both yourself, several times if timing-dependent; say how often it fails). Workflows call os.Exit(1) on failure and write files relative to the current directory, so run them in a fresh temp directory; the env var SCIPIPE_BUFSIZE sets the channel buffer size.
- Save each change as a unified diff produced by `git -C {d}/repo diff` into {d}/patchA.diff and {d}/patchB.diff (each relative to the unchanged HEAD, each applicable on its own with `git apply`). When you are done leave the worktree clean (`git -C {d}/repo checkout -- .`), and remove build outputs/temp dirs you created outside {d}.
- Write {d}/REPORT.md: for each change — what it is, why it is realistic, which part of the property it breaks, what exactly is needed for it to manifest, the exact commands you ran (existing suite with the change: result; demo with and without the change: results).

IMPORTANT - earlier rounds already produced the following changes for this property; do NOT reuse these mechanisms, these corners or the same code lines, find genuinely different ones:
{chr(10).join(earlier)}

This round asks for BLIND-SPOT changes: assume a careful tester has already built thorough checks of this property (generated workflows, fault injection, crash/restart histories, race detector, many seeds). Pick the clause of the statement, the corner of the quantifier, or the documented API variant (OutPort.To vs InPort.From, FromStr/FromInt/FromFloat, NewProc vs workflow.NewProc, SetOut vs SetOutFunc, Prepend, CoresPerTask, RunTo/RunToRegex/RunToProcs, sub-streams and joins, streaming ports, tags and MapToTags, bundled components, Go-function tasks with CustomExecute and the FileIP read/write API, directory outputs, absolute / parent-relative paths, cmd/scipipe sub-commands) that you judge LEAST likely to be exercised by such a tester, and break ONLY that corner, so that every mainstream use keeps working. The violation may additionally depend on an interleaving, a crash instant or a multi-run history. A change that any single plain run of a simple chain would expose is not acceptable. The demonstration may loop (up to ~60 s) to make a timing-dependent violation show; say how often it fails. State explicitly in the report which corner you targeted and why you think it is rarely tested.
Also do not make your demonstration depend on the verif hooks (VERIF_* environment variables or the verif build tag).
Do not use `git stash` (the stash is shared between all worktrees of the repository; use `git diff > file` and `git apply` / `git apply -R` instead). Run `git clean -fdxq` in your worktree before each run of the existing suite (the suite leaves ignored files behind that disturb the next run). If a file-writing tool refuses to create REPORT.md, write it with a shell heredoc.

Read the library's source first (task.go, process.go, workflow.go, port.go, ip.go, baseprocess.go, sink.go, common.go, components/, cmd/scipipe/) to find the mechanisms that make the property hold, then break them subtly. Finish by replying with a short summary of the two changes and whether each was confirmed (suite passes, demo fails with / passes without).
"""
    open(d + '/PROMPT.txt', 'w').write(prompt)
print('prompts written to', base)
