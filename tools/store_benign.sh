#!/bin/bash
# usage: tools/store_benign.sh   - copies the benign-change round (/tmp/benign/Bn: patch*.diff, REPORT.md, PROMPT.txt) and
# the result lines of tools/benign_run.sh (/tmp/benign/Bn.results, rerun.results) to /verif/seeded/benign/
set -u
dst=/verif/seeded/benign; mkdir -p $dst
for b in B1 B2 B3 B4 B5 B6 B7 B8; do
  [ -d /tmp/benign/$b ] || continue
  mkdir -p $dst/$b
  cp /tmp/benign/$b/patch*.diff $dst/$b/ 2>/dev/null
  cp /tmp/benign/$b/REPORT.md /tmp/benign/$b/PROMPT.txt $dst/$b/ 2>/dev/null
  [ -f /tmp/benign/$b.results ] && grep -E ' rc=|^VIOLATION|^BROKEN|^  signature' /tmp/benign/$b.results > $dst/$b/results.txt
done
[ -f /tmp/benign/rerun.results ] && cp /tmp/benign/rerun.results $dst/rerun_after_corrections.txt
ls $dst
