#!/bin/bash
# usage: tools/try_seed3.sh "C03 A C03" "C03 B C01" ...   (seed property, variant, check)
base=${SEEDBASE:-/tmp/seed3}
for x in "$@"; do set -- $x; echo "== $(basename $base) $1$2 vs $3"; LINES_MAX=6 /verif/tools/try_patch.sh $base/$1/patch$2.diff $3 | cut -c1-170 | grep -v KNOWN; done 2>&1 | grep -E "^==|signature|exit=|APPLY"
