#!/bin/sh
# Builds the framework binaries offline from files on disk only.
set -e
cd "$(dirname "$0")"
export GOFLAGS=-mod=mod GOPROXY=off GOSUMDB=off GOTOOLCHAIN=local CGO_ENABLED=0
mkdir -p bin evidence
go build -o bin/vcmd ./cmd/vcmd
go build -o bin/vcheck ./cmd/vcheck
echo "setup ok"
