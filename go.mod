module verif

go 1.21

require (
	github.com/anishathalye/porcupine v1.3.0
	github.com/scipipe/scipipe v0.0.0
)

replace github.com/scipipe/scipipe => /repo
