// vcmd is the command that workflow tasks execute. See internal/vproto.
package main

import (
	"fmt"
	"os"

	"verif/internal/vproto"
)

func main() {
	if len(os.Args) < 2 {
		fmt.Fprintln(os.Stderr, "usage: vcmd run id=<proc> [o=port:path] [i=port:path] [p=k:v] [opts]")
		os.Exit(64)
	}
	switch os.Args[1] {
	case "run":
		os.Exit(vproto.Exec(os.Args[2:], &vproto.Env{Cwd: "", WfDir: ".."}))
	default:
		fmt.Fprintln(os.Stderr, "unknown subcommand", os.Args[1])
		os.Exit(64)
	}
}
