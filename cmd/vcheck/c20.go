package main

import (
	"encoding/json"
	"fmt"
	"math/rand"
	"os"
	"os/exec"
	"path/filepath"
	"regexp"
	"sort"
	"strings"
	"sync/atomic"
	"time"

	"verif/internal/chk"
	"verif/internal/mon"
	"verif/internal/run"
	"verif/internal/spec"
)

func init() { checks["C20"] = c20 }

// flattenByID collects the task records (non-empty ProcessName) of a lineage, one per ID.
func flattenByID(a *mon.AuditJSON, into map[string]*mon.AuditJSON) {
	if a == nil {
		return
	}
	if a.ProcessName != "" {
		into[a.ID] = a
	}
	for _, u := range a.Upstream {
		flattenByID(u, into)
	}
}

type listed struct {
	ID, Proc, Cmd, Params, Tags string
}

var (
	htmlTable = regexp.MustCompile(`(?s)<table>(.*?)</table>`)
	htmlTitle = regexp.MustCompile(`<strong>(.*?)</strong> / <a name="(.*?)"`)
	htmlCmd   = regexp.MustCompile(`(?s)<div class="cmdbox">(.*?)</div>`)
	htmlPar   = regexp.MustCompile(`<tr><th>Parameters:</th><td>(.*?)</td></tr>`)
	htmlTag   = regexp.MustCompile(`(?s)<tr><th>Tags:</th><td><pre>(.*?)</pre></td></tr>`)
	texBox    = regexp.MustCompile(`(?s)\\begin\{tcolorbox\}\[(.*?)\\end\{tcolorbox\}`)
	texID     = regexp.MustCompile(`ID: & (.*?) \\\\`)
	texProc   = regexp.MustCompile(`Process: & (.*?) \\\\`)
	texCmd    = regexp.MustCompile(`(?s)\\begin\{lstlisting\}\n(.*?)\n\\end\{lstlisting\}`)
	texPar    = regexp.MustCompile(`Parameters:& (.*?) \\\\`)
	texTag    = regexp.MustCompile(`Tags: & (.*?) \\\\`)
	// (structure only - the wording of the echo lines is not part of any property: the block of a task is its proc= line,
	// an if / else, and in the else branch an announcing echo, the command, a closing echo)
	bashBlock = regexp.MustCompile(`(?s)proc=\$\(printf '%-32s' "(.*?)"\)\n.*?\nelse\n  echo ".*?"\n  (.*?)\n  echo "\$\(date`)
)

func parseHTML(s string) []listed {
	var out []listed
	for _, m := range htmlTable.FindAllStringSubmatch(s, -1) {
		l := listed{}
		if t := htmlTitle.FindStringSubmatch(m[1]); t != nil {
			l.Proc, l.ID = t[1], t[2]
		}
		if t := htmlCmd.FindStringSubmatch(m[1]); t != nil {
			l.Cmd = t[1]
		}
		if t := htmlPar.FindStringSubmatch(m[1]); t != nil {
			l.Params = t[1]
		}
		if t := htmlTag.FindStringSubmatch(m[1]); t != nil {
			l.Tags = t[1]
		}
		out = append(out, l)
	}
	return out
}

func parseTeX(s string) []listed {
	var out []listed
	for _, m := range texBox.FindAllStringSubmatch(s, -1) {
		if head := m[1]; strings.Contains(head[:imin(len(head), 120)], "Summary information") {
			continue
		}
		l := listed{}
		if t := texID.FindStringSubmatch(m[1]); t != nil {
			l.ID = t[1]
		}
		if t := texProc.FindStringSubmatch(m[1]); t != nil {
			l.Proc = t[1]
		}
		if t := texCmd.FindStringSubmatch(m[1]); t != nil {
			l.Cmd = t[1]
		}
		if t := texPar.FindStringSubmatch(m[1]); t != nil {
			l.Params = t[1]
		}
		if t := texTag.FindStringSubmatch(m[1]); t != nil {
			l.Tags = t[1]
		}
		out = append(out, l)
	}
	return out
}

func parseBash(s string) []listed {
	var out []listed
	for _, m := range bashBlock.FindAllStringSubmatch(s, -1) {
		out = append(out, listed{Proc: m[1], Cmd: m[2]})
	}
	return out
}

var texUnescaper = strings.NewReplacer(`\textbackslash{}`, `\`, `\textasciitilde{}`, "~", `\textasciicircum{}`, "^", `\_`, "_", `\&`, "&", `\%`, "%", `\$`, "$", `\#`, "#", `\{`, "{", `\}`, "}")

func texUnescape(s string) string { return texUnescaper.Replace(s) }

// structureBlind counts reports whose layout the parsers above did not recognise and that were judged by the
// layout-free rules below instead (evidence: structure_free_judgements).
var structureBlind int64

// bashByLines finds the tasks a script runs without relying on the lines around them: a task's command (with "../"
// removed, as the converter documents) stands on lines of its own. Returns the commands in script order.
func bashByLines(script string, tasks map[string]*mon.AuditJSON) []listed {
	type hit struct {
		pos int
		cmd string
	}
	var hits []hit
	seen := map[string]bool{}
	for _, a := range tasks {
		cmd := strings.ReplaceAll(a.Command, "../", "")
		if seen[cmd] || strings.TrimSpace(cmd) == "" {
			continue
		}
		seen[cmd] = true
		re, err := regexp.Compile(`(?m)^[ \t]*` + regexp.QuoteMeta(cmd) + `[ \t]*$`)
		if err != nil {
			continue
		}
		for _, loc := range re.FindAllStringIndex(script, -1) {
			hits = append(hits, hit{loc[0], cmd})
		}
	}
	sort.Slice(hits, func(i, j int) bool { return hits[i].pos < hits[j].pos })
	var out []listed
	for _, h := range hits {
		out = append(out, listed{Proc: "\x00any", Cmd: h.cmd})
	}
	return out
}

// listedByID is the layout-free reading of an HTML / TeX report: where each task's id first occurs.
func listedByID(report string, tasks map[string]*mon.AuditJSON) (order []*mon.AuditJSON, missing []string) {
	type hit struct {
		pos int
		a   *mon.AuditJSON
	}
	var hits []hit
	for id, a := range tasks {
		k := strings.Index(report, id)
		if k < 0 {
			missing = append(missing, id)
			continue
		}
		hits = append(hits, hit{k, a})
	}
	sort.Slice(hits, func(i, j int) bool { return hits[i].pos < hits[j].pos })
	for _, h := range hits {
		order = append(order, h.a)
	}
	sort.Strings(missing)
	return
}

// reportProblemsRaw judges a report; when the layout-specific parser recognises no entry at all in a non-empty report
// (a converter that lays its report out differently), it falls back to what can be read without knowing the layout:
// every task is there (its id for HTML / TeX, its command on lines of its own for Bash) and the order of appearance
// follows the start times.
func reportProblemsRaw(format, raw string, ls []listed, tasks map[string]*mon.AuditJSON) []mon.Problem {
	n := 0
	for _, l := range ls {
		if l.Proc != "" {
			n++
		}
	}
	if n > 0 || len(tasks) == 0 || strings.TrimSpace(raw) == "" {
		return reportProblems(format, ls, tasks)
	}
	atomic.AddInt64(&structureBlind, 1)
	if format == "bash" {
		return reportProblems(format, bashByLines(raw, tasks), tasks)
	}
	var ps []mon.Problem
	order, missing := listedByID(raw, tasks)
	for _, id := range missing {
		ps = append(ps, mon.Problem{Sig: format + "-task-missing", Msg: fmt.Sprintf("%s does not mention task %s (%s) anywhere", format, id, tasks[id].ProcessName)})
	}
	for i := 1; i < len(order); i++ {
		if order[i].StartTime.Before(order[i-1].StartTime) {
			ps = append(ps, mon.Problem{Sig: format + "-not-ordered-by-start-time", Msg: fmt.Sprintf("%s mentions %s (start %s) after %s (start %s)", format, order[i].ProcessName, order[i].StartTime.Format(time.RFC3339Nano), order[i-1].ProcessName, order[i-1].StartTime.Format(time.RFC3339Nano))})
			break
		}
	}
	return ps
}

// reportProblems judges one converted report against the record it was made from.
func reportProblems(format string, ls []listed, tasks map[string]*mon.AuditJSON) []mon.Problem {
	var ps []mon.Problem
	var real []listed
	for _, l := range ls {
		if l.Proc != "" {
			real = append(real, l)
		}
	}
	tex := func(s string) string { return strings.ReplaceAll(s, "_", "\\_") }
	var order []*mon.AuditJSON
	switch format {
	case "html", "tex":
		seen := map[string]int{}
		for _, l := range real {
			seen[l.ID]++
			a := tasks[l.ID]
			if a == nil {
				ps = append(ps, mon.Problem{Sig: format + "-lists-unknown-task", Msg: fmt.Sprintf("%s lists id %s (%s) which is not a task of the lineage", format, l.ID, l.Proc)})
				continue
			}
			order = append(order, a)
			wantProc, wantCmd := a.ProcessName, a.Command
			if format == "tex" {
				wantProc, wantCmd = tex(wantProc), tex(wantCmd)
				// (how much of TeX's special characters the report escapes is its own business: a field that reads right
				// after un-escaping is right)
				if texUnescape(l.Proc) == a.ProcessName {
					wantProc = l.Proc
				}
				if texUnescape(l.Cmd) == a.Command {
					wantCmd = l.Cmd
				}
			}
			if l.Proc != wantProc || l.Cmd != wantCmd {
				ps = append(ps, mon.Problem{Sig: format + "-task-fields", Msg: fmt.Sprintf("%s entry %s shows process %q command %q, record has %q / %q", format, l.ID, l.Proc, l.Cmd, wantProc, wantCmd)})
			}
			for k, v := range a.Params {
				p := k + ": " + v
				if format == "tex" {
					p = k + "=" + v
				}
				if !strings.Contains(l.Params, p) && !(format == "tex" && strings.Contains(texUnescape(l.Params), p)) {
					ps = append(ps, mon.Problem{Sig: format + "-task-params", Msg: fmt.Sprintf("%s entry %s (%s): parameters %q lack %q", format, l.ID, l.Proc, l.Params, p)})
				}
			}
			for k, v := range a.Tags {
				p := k + ": " + v
				if format == "tex" {
					p = k + "=" + v
				}
				if !strings.Contains(l.Tags, p) && !(format == "tex" && strings.Contains(texUnescape(l.Tags), p)) {
					ps = append(ps, mon.Problem{Sig: format + "-task-tags", Msg: fmt.Sprintf("%s entry %s (%s): tags %q lack %q", format, l.ID, l.Proc, l.Tags, p)})
				}
			}
		}
		for id, a := range tasks {
			switch n := seen[id]; {
			case n == 0:
				ps = append(ps, mon.Problem{Sig: format + "-task-missing", Msg: fmt.Sprintf("%s does not list task %s (%s)", format, id, a.ProcessName)})
			case n > 1:
				ps = append(ps, mon.Problem{Sig: format + "-task-duplicated", Msg: fmt.Sprintf("%s lists task %s (%s) %d times", format, id, a.ProcessName, n)})
			}
		}
	case "bash":
		// no ids in the script: match by (process, command with ../ removed)
		pool := map[string][]*mon.AuditJSON{}
		for _, a := range tasks {
			k := a.ProcessName + "\x00" + strings.ReplaceAll(a.Command, "../", "")
			pool[k] = append(pool[k], a)
		}
		for k := range pool {
			sort.Slice(pool[k], func(i, j int) bool { return pool[k][i].StartTime.Before(pool[k][j].StartTime) })
		}
		for _, l := range real {
			k := l.Proc + "\x00" + l.Cmd
			if l.Proc == "\x00any" {
				// (layout-free reading: the process name is not known; the earliest remaining task with that command)
				var best string
				for pk, rest := range pool {
					if len(rest) > 0 && strings.HasSuffix(pk, "\x00"+l.Cmd) && (best == "" || rest[0].StartTime.Before(pool[best][0].StartTime)) {
						best = pk
					}
				}
				if best != "" {
					k = best
				}
			}
			if len(pool[k]) == 0 {
				ps = append(ps, mon.Problem{Sig: "bash-task-duplicated-or-unknown", Msg: fmt.Sprintf("script runs process %q command %q more often than the lineage has such tasks", l.Proc, l.Cmd)})
				continue
			}
			order = append(order, pool[k][0])
			pool[k] = pool[k][1:]
		}
		for _, rest := range pool {
			for _, a := range rest {
				ps = append(ps, mon.Problem{Sig: "bash-task-missing", Msg: fmt.Sprintf("script does not run task %s (%s: %s)", a.ID, a.ProcessName, a.Command)})
			}
		}
	}
	for i := 1; i < len(order); i++ {
		if order[i].StartTime.Before(order[i-1].StartTime) {
			ps = append(ps, mon.Problem{Sig: format + "-not-ordered-by-start-time", Msg: fmt.Sprintf("%s lists %s (start %s) after %s (start %s)", format, order[i].ProcessName, order[i].StartTime.Format(time.RFC3339Nano), order[i-1].ProcessName, order[i-1].StartTime.Format(time.RFC3339Nano))})
			break
		}
	}
	return ps
}

func convert(cli, dir, auditFile string, stale bool) (map[string]string, error) {
	out := map[string]string{}
	for _, f := range []struct{ cmd, ext string }{{"audit2html", "html"}, {"audit2tex", "tex"}, {"audit2bash", "sh"}} {
		if stale {
			// an older, longer report of the same name is already there (the workflow was simplified and converted again)
			old := strings.Repeat("<tr><td>stale_task</td><td>echo stale report line from an earlier conversion</td></tr>\n# stale_task\necho \"stale > stale.txt\n", 3000)
			os.WriteFile(filepath.Join(dir, strings.Replace(auditFile, ".audit.json", ".audit."+f.ext, 1)), []byte(old), 0644)
		}
		cmd := exec.Command(cli, f.cmd, auditFile)
		cmd.Dir = dir
		b, err := cmd.CombinedOutput()
		if err != nil {
			return nil, fmt.Errorf("%s failed: %v: %s", f.cmd, err, clip(string(b), 400))
		}
		outPath := filepath.Join(dir, strings.Replace(auditFile, ".audit.json", ".audit."+f.ext, 1))
		res, err := os.ReadFile(outPath)
		if err != nil {
			return nil, fmt.Errorf("%s wrote no output: %v", f.cmd, err)
		}
		if stale {
			// the same conversion into a fresh file must give a report of the same length (the order in which a record's
			// parameters and tags are printed is not fixed, so the bytes themselves may differ)
			os.Remove(outPath)
			cmd2 := exec.Command(cli, f.cmd, auditFile)
			cmd2.Dir = dir
			cmd2.CombinedOutput()
			fresh, _ := os.ReadFile(outPath)
			if len(fresh) != len(res) {
				return nil, fmt.Errorf("STALE: %s: the report written over an existing longer file of the same name (%d bytes) differs from the report written to a fresh file (%d bytes)", f.cmd, len(res), len(fresh))
			}
		}
		out[f.ext] = string(res)
	}
	return out, nil
}

// shellWorkflows are flat-path workflows of plain shell commands.
func shellWorkflows(rng *rand.Rand, n int) []*spec.Spec {
	var out []*spec.Spec
	for g := 0; g < n; g++ {
		s := &spec.Spec{Name: fmt.Sprintf("sh%d", g), MaxTasks: 4, Sources: map[string]string{}}
		nsrc := 1 + rng.Intn(2)
		for k := 0; k < nsrc; k++ {
			f := fmt.Sprintf("src_%d.txt", k)
			s.Sources[f] = fmt.Sprintf("alpha %d\nbeta_%d gamma\n", k, g)
		}
		files := []string{}
		for f := range s.Sources {
			files = append(files, f)
		}
		sort.Strings(files)
		s.Procs = append(s.Procs, &spec.Proc{Name: "src", Kind: spec.KFileSource, Files: files})
		prev := "src.out"
		depth := 1 + rng.Intn(5)
		for d := 0; d < depth; d++ {
			pn := fmt.Sprintf("step_%d", d)
			var cmd string
			switch rng.Intn(12) {
			case 11: // parameter values that are punctuation (a field separator): reports must show them whole
				cmd = "cut -d'{p:sep}' -f{p:field} {i:in} > {o:out}"
			case 9: // a command of several lines with runs of blanks that matter
				cmd = "printf 'id    value\\n' > {o:out}\ncat {i:in} >> {o:out}"
			case 10: // a parameter that appears in the output name only (port created through InParam)
				cmd = "rev {i:in} > {o:out}"
			case 7: // a percent sign in the command (printf / date formats)
				cmd = "printf '%s\\n' \"$(cat {i:in})\" > {o:out}"
			case 8:
				cmd = "awk '{printf \"%5d %s\\n\", NR, $0}' {i:in} > {o:out}"
			case 4:
				cmd = "tr a-z A-Z <{i:in} >{o:out}"
			case 5:
				cmd = "dd if={i:in} of={o:out} status=none"
			case 6:
				cmd = "sh -c 'echo $GREETING' > {o:out} && cat {i:in} >> {o:out}"
			case 0:
				cmd = "cat {i:in} | tr a-z A-Z > {o:out}"
			case 1:
				cmd = "sed s/a/_/g {i:in} > {o:out} && echo \"done {p:w}\" >> {o:out}"
			case 2:
				cmd = "cat {i:in} {i:in} > {o:out}"
			default:
				cmd = "wc -c < {i:in} > {o:out}"
			}
			p := &spec.Proc{Name: pn, Kind: spec.KCmd, Cmd: cmd}
			if strings.HasPrefix(cmd, "rev ") {
				vals := []string{}
				for k := range files {
					vals = append(vals, fmt.Sprintf("lab%d_%d", d, k))
				}
				p.Feeds = []*spec.Feed{{Port: "label", How: "str", Values: vals}}
				p.Outs = []*spec.Out{{Port: "out", Pattern: pn + "_{p:label}.txt"}}
			}
			if strings.Contains(cmd, "{p:sep}") {
				seps, fields := []string{}, []string{}
				for range files {
					seps = append(seps, []string{",", "e", "a", "_"}[rng.Intn(4)])
					fields = append(fields, fmt.Sprint(1+rng.Intn(2)))
				}
				p.Feeds = []*spec.Feed{{Port: "sep", How: "str", Values: seps}, {Port: "field", How: "str", Values: fields}}
				// the library refuses "," in file names, so the separator stays out of the output's name
				p.Outs = []*spec.Out{{Port: "out", Pattern: "{i:in}." + pn + ".txt"}}
			}
			if strings.Contains(cmd, "GREETING") {
				p.Prepend = "env GREETING=hello_" + pn
			}
			if strings.Contains(cmd, "{p:w}") {
				vals := []string{}
				for range files {
					vals = append(vals, fmt.Sprintf("w%d", rng.Intn(100)))
				}
				p.Feeds = []*spec.Feed{{Port: "w", How: "str", Values: vals}}
			}
			s.Procs = append(s.Procs, p)
			s.Conns = append(s.Conns, &spec.Conn{From: prev, To: pn + ".in"})
			prev = pn + ".out"
		}
		if rng.Intn(3) == 0 {
			// a Go-function step (its recorded command is the task protocol's command line, which the script can run as well)
			s.Procs = append(s.Procs, &spec.Proc{Name: "gostep", Kind: spec.KGoFunc, Cmd: spec.BuildCmd("gostep", []spec.PortDecl{{Name: "in"}}, []spec.PortDecl{{Name: "out"}}, nil, nil, nil)})
			s.Conns = append(s.Conns, &spec.Conn{From: prev, To: "gostep.in"})
			prev = "gostep.out"
		}
		switch rng.Intn(4) {
		case 3: // diamond whose two branches start at the two outputs of ONE task: that task is one ancestor, listed once
			s.Procs = append(s.Procs, &spec.Proc{Name: "fork", Kind: spec.KCmd, Cmd: "rev {i:in} > {o:flipped} && sort {i:in} > {o:sorted}"},
				&spec.Proc{Name: "left", Kind: spec.KCmd, Cmd: "tr a-z A-Z < {i:in} > {o:out}"}, &spec.Proc{Name: "right", Kind: spec.KCmd, Cmd: "wc -l < {i:in} > {o:out}"},
				&spec.Proc{Name: "merge", Kind: spec.KCmd, Cmd: "cat {i:a} {i:b} > {o:out}"})
			s.Conns = append(s.Conns, &spec.Conn{From: prev, To: "fork.in"}, &spec.Conn{From: "fork.flipped", To: "left.in"}, &spec.Conn{From: "fork.sorted", To: "right.in"},
				&spec.Conn{From: "left.out", To: "merge.a"}, &spec.Conn{From: "right.out", To: "merge.b"})
			prev = "merge.out"
		case 0: // diamond with a shared ancestor
			s.Procs = append(s.Procs, &spec.Proc{Name: "left", Kind: spec.KCmd, Cmd: "rev {i:in} > {o:out}"}, &spec.Proc{Name: "right", Kind: spec.KCmd, Cmd: "sort {i:in} > {o:out}"},
				&spec.Proc{Name: "merge", Kind: spec.KCmd, Cmd: "cat {i:a} {i:b} > {o:out}"})
			s.Conns = append(s.Conns, &spec.Conn{From: prev, To: "left.in"}, &spec.Conn{From: prev, To: "right.in"}, &spec.Conn{From: "left.out", To: "merge.a"}, &spec.Conn{From: "right.out", To: "merge.b"})
			prev = "merge.out"
		case 1: // everything joined into one file
			s.Procs = append(s.Procs, &spec.Proc{Name: "tosub", Kind: spec.KSubStream}, &spec.Proc{Name: "gather", Kind: spec.KCmd, Cmd: "cat {i:in|join: } > {o:out}", Outs: []*spec.Out{{Port: "out", Pattern: "gathered.txt"}}})
			s.Conns = append(s.Conns, &spec.Conn{From: prev, To: "tosub.in"}, &spec.Conn{From: "tosub.substream", To: "gather.in"})
			prev = "gather.out"
		}
		s.Procs = append(s.Procs, &spec.Proc{Name: "FINAL", Kind: spec.KRecorder})
		s.Conns = append(s.Conns, &spec.Conn{From: prev, To: "FINAL.in"})
		out = append(out, s)
	}
	return out
}

// genTree builds an audit tree directly.
func genTree(rng *rand.Rand, nrec int) *mon.AuditJSON {
	base := time.Date(2024, 3, 1, 10, 0, 0, 0, time.UTC)
	var pool []*mon.AuditJSON
	mk := func(i int) *mon.AuditJSON {
		a := &mon.AuditJSON{ID: fmt.Sprintf("id%04dxxxxxxxxxxxxxx", i), ProcessName: fmt.Sprintf("proc_%d", i%7), Command: fmt.Sprintf("tool_%d --in ../x_%d.txt > out_%d.txt", i%5, i, i),
			Params: map[string]string{}, Tags: map[string]string{}, OutFiles: map[string]string{"out": fmt.Sprintf("out_%d.txt", i)}, Upstream: map[string]*mon.AuditJSON{}}
		switch rng.Intn(6) {
		case 5:
			// a fraction of the very second other tasks start on exactly (whole seconds are written without a fraction)
			a.StartTime = base.Add(time.Duration(rng.Intn(3))*time.Second + time.Duration(50+rng.Intn(900))*time.Millisecond)
		case 0:
			a.StartTime = base // equal start times between unrelated tasks
		case 1:
			a.StartTime = base.Add(time.Duration(rng.Intn(3)) * time.Second) // whole seconds, few values
		case 2:
			a.StartTime = time.Time{} // zero
		default:
			a.StartTime = base.Add(time.Duration(rng.Int63n(int64(time.Hour))))
		}
		a.FinishTime = a.StartTime.Add(time.Duration(rng.Intn(5000)) * time.Millisecond)
		a.ExecTimeNS = int64(a.FinishTime.Sub(a.StartTime))
		if rng.Intn(2) == 0 {
			a.Params["p_a"] = fmt.Sprintf("v%d", i)
		}
		if rng.Intn(3) == 0 {
			a.Params["q"] = "x_y"
			a.Tags["in.grp"] = fmt.Sprintf("g%d", i%3)
		}
		if rng.Intn(4) == 0 {
			// values that end in, or consist of, punctuation and blanks (separators, formats): a report shows them whole.
			// No characters that HTML or TeX would need escaped - the converters do not escape, and the property does not ask.
			odd := []string{",", "a,", "x, y", "b ", ", ", "k: v", "1=2", ";", "v.", "-", " lead", "t:"}
			a.Params[[]string{"sep", "zfmt", "a0"}[rng.Intn(3)]] = odd[rng.Intn(len(odd))]
			if rng.Intn(2) == 0 {
				a.Tags[[]string{"in.sep", "zz.t", "a.t"}[rng.Intn(3)]] = odd[rng.Intn(len(odd))]
			}
		}
		return a
	}
	for i := 0; i < nrec; i++ {
		a := mk(i)
		if len(pool) > 2 && rng.Intn(4) == 0 {
			// a second execution of an earlier task (resumed runs: the ancestor was removed and recomputed while some of
			// its consumers were kept): another record - id, times - for the same file; different descendants embed the
			// one or the other under the same Upstream key
			a.OutFiles["out"] = pool[rng.Intn(len(pool))].OutFiles["out"]
		}
		// upstream: up to 3 earlier records (DAG sharing) and sometimes a source file
		nup := 0
		if len(pool) > 0 {
			nup = 1 + rng.Intn(3)
		}
		for k := 0; k < nup; k++ {
			u := pool[rng.Intn(len(pool))]
			a.Upstream[u.OutFiles["out"]] = u
		}
		if nup == 0 || rng.Intn(3) == 0 {
			a.Upstream[fmt.Sprintf("source_%d.txt", i)] = &mon.AuditJSON{ID: fmt.Sprintf("src%04dxxxxxxxxxxxxx", i), Params: map[string]string{}, Tags: map[string]string{}, OutFiles: map[string]string{}, Upstream: map[string]*mon.AuditJSON{}, ExecTimeNS: -1}
		}
		pool = append(pool, a)
	}
	if nrec%7 == 3 {
		// a long lineage on one path: 36-50 tasks, each the only input of the next
		depth := 36 + rng.Intn(15)
		prev := pool[len(pool)-1]
		for k := 0; k < depth; k++ {
			a := mk(nrec + 1 + k)
			a.StartTime = prev.StartTime.Add(time.Duration(1+rng.Intn(900)) * time.Millisecond)
			a.FinishTime = a.StartTime.Add(time.Millisecond)
			a.Upstream[prev.OutFiles["out"]] = prev
			pool = append(pool, a)
			prev = a
		}
	}
	// root: a record that reaches everything not yet reachable
	root := mk(nrec + 100)
	reach := map[string]bool{}
	var walk func(a *mon.AuditJSON)
	walk = func(a *mon.AuditJSON) {
		reach[a.ID] = true
		for _, u := range a.Upstream {
			walk(u)
		}
	}
	for i := len(pool) - 1; i >= 0; i-- {
		if !reach[pool[i].ID] {
			root.Upstream[pool[i].OutFiles["out"]] = pool[i]
			walk(pool[i])
		}
	}
	return root
}

func c20(args []string) {
	c := chk.New("C20", "exploration", args)
	c.Build(false)
	cli, err := run.BuildCLI(c.Scratch)
	if err != nil {
		c.Broken(err.Error())
	}
	c.Rule("(the parsers use the layout of each report; the TeX fields are compared after un-escaping as well; a non-empty report in which the layout parser recognises no entry at all is judged layout-free instead - every task id / every command on lines of its own present, order of appearance by start time - and counted as structure_free_judgements) (a) audit files of real runs of flat-path workflows built from plain shell commands (cat, tr, sed, rev, sort, wc, printf / awk with percent signs, multi-line commands with significant blanks, parameters used in the output name only; chains of depth 1-5, diamonds with a shared ancestor - also one whose branches start at the two outputs of one task -, sub-stream joins, parameters; also produced by resumed runs: RunTo a prefix, then Run; every third with the OutFiles fields removed, as an older library version wrote its records) and (b) audit trees generated directly (two records of different executions for one file path in a tree, as resumed runs leave them; 1-60 records, DAG-shaped sharing, equal / whole-second / zero start times, parameters and tags with underscores, source-file pseudo records) are converted with the CLI built from /repo/cmd/scipipe (audit2html, audit2tex, audit2bash; in every second case a longer stale report of the same name already exists); the outputs are parsed back and compared with the record flattened by id: every task (non-empty process name) listed exactly once, in non-decreasing start-time order, with its command, parameters and tags as the format prints them; for (a) the generated Bash script is executed in a directory holding only the source files and must re-create the file byte-identically. distinct_nontrivial = distinct audit trees with >= 2 tasks whose three conversions were all compared")
	c.Assume("source-file pseudo records (empty process name) are not tasks and are not judged", "TeX: '_' is printed as '\\_' and parameters as k=v; Bash: '../' is removed from commands by the template")
	rng := c.Rand("c20")
	type job struct {
		kind   string
		s      *spec.Spec
		resume bool
		killed bool // first run killed right after an intermediate output was renamed into place, then cleanup and resume
		tree   *mon.AuditJSON
		cfg    Cfg
	}
	var jobs []*job
	for i, s := range shellWorkflows(rng, c.Pick(24, 250)) {
		jobs = append(jobs, &job{kind: "real", s: s, resume: i%3 == 2, killed: i%3 == 1, cfg: Cfg{Buf: []int{1, 3, 128}[i%3], Procs: 4}})
	}
	for i := 0; i < c.Pick(200, 4000); i++ {
		n := 1 + rng.Intn(12)
		if i%10 == 0 {
			n = 20 + rng.Intn(41)
		}
		jobs = append(jobs, &job{kind: "generated", tree: genTree(rng, n)})
	}
	run.Parallel(len(jobs), func(i int) {
		j := jobs[i]
		root := c.CaseDir()
		defer c.Drop(root)
		var dir, auditFile string
		var finalPath string
		desc := map[string]interface{}{"kind": j.kind}
		if j.kind == "real" {
			desc["spec"] = j.s
			if j.resume {
				s1 := j.s.Clone()
				s1.Run = spec.Run{Mode: "runto", Targets: []string{"step_0"}}
				r1 := execSpec(c, root, s1, j.cfg, nil, false, 0)
				if r1.Exit != 0 {
					c.Inconclusive("RunTo prefix failed")
					return
				}
			}
			if j.killed {
				kc := j.cfg
				kc.Crash = "fin.renamed|step_0|1"
				execSpec(c, root, j.s, kc, nil, false, 0)
				cleanLeftovers(root)
			}
			res := execSpec(c, root, j.s, j.cfg, nil, j.resume || j.killed, 1)
			if res.Exit != 0 || !res.Returned {
				if res.Hang != "" && !strings.HasPrefix(res.Hang, "deadlock") {
					c.Inconclusive(res.Hang)
					return
				}
				c.Violation("shell-workflow-failed", fmt.Sprintf("exit %d: %s", res.Exit, tail(res.Output(), 400)), desc)
				return
			}
			ti := mon.Index(res.Trace)
			finals := recPaths(ti, "FINAL")
			if len(finals) == 0 {
				return
			}
			finalPath = finals[len(finals)-1]
			dir = res.Wd
			auditFile = finalPath + ".audit.json"
		} else {
			dir = filepath.Join(root, "wd")
			os.MkdirAll(dir, 0777)
			auditFile = "tree.txt.audit.json"
			b, _ := json.MarshalIndent(j.tree, "", "    ")
			os.WriteFile(filepath.Join(dir, auditFile), b, 0644)
			os.WriteFile(filepath.Join(dir, "tree.txt"), []byte("x"), 0644)
		}
		a, err := mon.LoadAudit(filepath.Join(dir, auditFile))
		if err != nil {
			c.Violation("audit-file-unreadable", err.Error(), desc)
			return
		}
		tasks := map[string]*mon.AuditJSON{}
		flattenByID(a, tasks)
		c.Eval(1)
		if j.kind == "real" {
			// in a real run a (process, command) pair identifies one task execution (every command names its own
			// output path): the same execution recorded under two ids would be listed twice by every format
			byExec := map[string][]string{}
			for id, t := range tasks {
				if t.ProcessName != "" {
					k := t.ProcessName + "\x00" + t.Command
					byExec[k] = append(byExec[k], id)
				}
			}
			for k, ids := range byExec {
				if len(ids) > 1 {
					sort.Strings(ids)
					c.Violation("task-listed-more-than-once:one-execution-under-several-ids", fmt.Sprintf("the lineage of %s records one task execution (%s) under %d different ids %v: every report lists it %d times", finalPath, strings.Replace(k, "\x00", ": ", 1), len(ids), ids, len(ids)), desc)
					return
				}
			}
		}
		if j.kind == "real" && i%3 == 1 {
			// records as an older version of the library wrote them: no OutFiles field at all
			if raw, err := os.ReadFile(filepath.Join(dir, auditFile)); err == nil {
				var v interface{}
				if json.Unmarshal(raw, &v) == nil {
					var strip func(x interface{})
					strip = func(x interface{}) {
						if m, ok := x.(map[string]interface{}); ok {
							delete(m, "OutFiles")
							if up, ok := m["Upstream"].(map[string]interface{}); ok {
								for _, u := range up {
									strip(u)
								}
							}
						}
					}
					strip(v)
					if nb, err := json.MarshalIndent(v, "", "    "); err == nil {
						os.WriteFile(filepath.Join(dir, auditFile), nb, 0644)
						desc["records_without_OutFiles"] = true
					}
				}
			}
		}
		outs, err := convert(cli, dir, auditFile, i%2 == 0)
		if err != nil {
			sig := "conversion-failed"
			if strings.HasPrefix(err.Error(), "STALE:") {
				sig = "report-keeps-content-of-an-older-file"
			}
			c.Violation(sig, err.Error(), desc)
			return
		}
		var ps []mon.Problem
		if j.kind == "real" {
			// every parameter port fed in the workflow shows up in the report entries of that process (whether or
			// not the command pattern mentions it)
			for _, l := range parseHTML(outs["html"]) {
				pr := j.s.Proc(l.Proc)
				if pr == nil {
					continue
				}
				for _, f := range pr.Feeds {
					if !strings.Contains(l.Params, f.Port+": ") {
						ps = append(ps, mon.Problem{Sig: "html-task-params", Msg: fmt.Sprintf("html entry of process %s lists parameters %q, the workflow fed its port %s", l.Proc, l.Params, f.Port)})
					}
				}
			}
		}
		ps = append(ps, reportProblemsRaw("html", outs["html"], parseHTML(outs["html"]), tasks)...)
		ps = append(ps, reportProblemsRaw("tex", outs["tex"], parseTeX(outs["tex"]), tasks)...)
		ps = append(ps, reportProblemsRaw("bash", outs["sh"], parseBash(outs["sh"]), tasks)...)
		equalStarts := false
		seenT := map[int64]bool{}
		for _, t := range tasks {
			if seenT[t.StartTime.UnixNano()] {
				equalStarts = true
			}
			seenT[t.StartTime.UnixNano()] = true
		}
		if j.kind == "real" && len(ps) == 0 {
			// run the script in a directory holding only the source files
			scr := filepath.Join(root, "regen")
			os.MkdirAll(scr, 0777)
			for f, content := range j.s.Sources {
				os.WriteFile(filepath.Join(scr, f), []byte(content), 0644)
			}
			os.WriteFile(filepath.Join(scr, "regen.sh"), []byte(outs["sh"]), 0755)
			cmd := exec.Command("bash", "regen.sh")
			cmd.Dir = scr
			ob, _ := cmd.CombinedOutput()
			orig, _ := os.ReadFile(filepath.Join(dir, finalPath))
			re, rerr := os.ReadFile(filepath.Join(scr, finalPath))
			if rerr != nil || string(orig) != string(re) {
				ps = append(ps, mon.Problem{Sig: "bash-script-does-not-recreate-file", Msg: fmt.Sprintf("running the generated script with only the source files did not re-create %s byte-identically (%v); script output: %s", finalPath, rerr, clip(string(ob), 500))})
			} else {
				c.Count("files_recreated_by_script", 1)
			}
		}
		if len(ps) > 0 {
			sfx := ""
			if equalStarts {
				sfx = ":records-with-equal-start-time"
			}
			for _, sig := range sigSet(ps) {
				desc["problems"] = mon.Summarize(ps, 10)
				desc["audit_json"] = clip(mustJSON(a), 4000)
				c.Violation(sig+sfx, fmt.Sprintf("%s tree with %d tasks:\n  %s", j.kind, len(tasks), strings.Join(mon.Summarize(ps, 3), "\n  ")), desc)
			}
			return
		}
		c.Count("trees_"+j.kind, 1)
		c.Count("task_records_checked", len(tasks))
		if equalStarts {
			c.Count("trees_with_equal_start_times", 1)
		}
		if len(tasks) >= 2 {
			c.Nontrivial(fmt.Sprintf("%s|%d|%s", j.kind, i, a.NormalizedJSON()[:minInt(200, len(a.NormalizedJSON()))]))
		}
		if i%70 == 0 {
			c.Sample(map[string]interface{}{"kind": j.kind, "tasks": len(tasks), "depth": a.Depth(), "equal_start_times": equalStarts, "html_entries": len(parseHTML(outs["html"])), "tex_entries": len(parseTeX(outs["tex"])), "bash_entries": len(parseBash(outs["sh"]))})
		}
	})
	c.Set("structure_free_judgements", atomic.LoadInt64(&structureBlind))
	c.Finish()
}

func mustJSON(v interface{}) string {
	b, _ := json.Marshal(v)
	return string(b)
}
