package main

import (
	"fmt"
	"os"
	"path/filepath"
	"strings"

	"verif/internal/chk"
	"verif/internal/gen"
	"verif/internal/mon"
	"verif/internal/ref"
	"verif/internal/run"
	"verif/internal/spec"
)

func init() { checks["C10"] = c10 }

// dotted returns a tag name, with a dot inside for every third repetition.
func dotted(base, side string, rep int) string {
	if rep%3 == 2 {
		return base + ".v" + side
	}
	return base + side
}

// auditProblems compares every expected audit file of a run with the reference lineage.
func auditProblems(wd string, exp *ref.Result, ti *mon.TraceIndex) (ps []mon.Problem, records, maxDepth int) {
	loaded := map[string]*mon.AuditJSON{}
	defer func() {
		// "contains the full audit record of every input file": the embedded record is that file's own record
		ps = append(ps, ancestorIdentity(wd, loaded)...)
	}()
	for path, want := range exp.AuditFor {
		if filepath.IsAbs(path) {
			continue
		}
		got, err := mon.LoadAudit(filepath.Join(wd, path+".audit.json"))
		if err != nil {
			ps = append(ps, mon.Problem{Sig: "audit-file-unreadable", Msg: err.Error()})
			continue
		}
		// tags: the record lists exactly the tags the reference derives for the task (those of all its inputs); a
		// tag from anywhere else (another record, another run) is a wrong record
		ps = append(ps, mon.CompareAudit(got, want, path, false)...)
		loaded[path] = got
		// the record accompanies the file for whoever may read the file: its permission bits are not narrower
		if fo, err1 := os.Stat(filepath.Join(wd, path)); err1 == nil {
			if fa, err2 := os.Stat(filepath.Join(wd, path+".audit.json")); err2 == nil && !fo.IsDir() && fo.Mode().Perm()&^fa.Mode().Perm()&0444 != 0 {
				ps = append(ps, mon.Problem{Sig: "audit-file-less-readable-than-output", Msg: fmt.Sprintf("%s has mode %v, its audit file %v", path, fo.Mode().Perm(), fa.Mode().Perm())})
			}
		}
		records += got.Count()
		if d := got.Depth(); d > maxDepth {
			maxDepth = d
		}
	}
	// the recorded command is the command that was executed
	for _, t := range exp.Tasks {
		if t.Skipped || t.InProc {
			continue
		}
		for _, st := range ti.Starts[t.Key] {
			f := strings.Fields(t.Audit.Command)
			for i, tk := range f {
				if tk == "run" {
					f = f[i+1:]
					break
				}
			}
			// (free-text "note=" arguments contain characters the shell rewrites - backslashes; they are compared as
			// recorded text with the reference, not with what the command saw)
			dropNotes := func(l []string) []string {
				var o []string
				for _, x := range l {
					if !strings.HasPrefix(x, "note=") {
						o = append(o, x)
					}
				}
				return o
			}
			if strings.Join(dropNotes(f), " ") != strings.Join(dropNotes(st.Argv), " ") {
				ps = append(ps, mon.Problem{Sig: "audit-command-not-executed-command", Msg: fmt.Sprintf("task %s: recorded command arguments %v, the command itself saw %v", t.Key, f, st.Argv)})
			}
		}
	}
	return
}

func c10(args []string) {
	c := chk.New("C10", "exploration", args)
	c.Build(false)
	c.Rule("[globbed] files written as ./made/x and picked up again by a dependent FileGlobber as made/x: the consumer's record holds the producer's record; [path shapes] chain / two-output / diamond topologies with outputs in nested, parent-relative and absolute directories (also spelled with ./ and // in them): every record field (OutFiles, Upstream keys, commands) names the declared paths; [stale audit files] history: run with one tagging rule, output files deleted while their .audit.json files stay, run with another tagging rule - the records the second run writes carry the second run's tags only; generated graphs (a quarter of the commands carry a free-text argument with JSON-escape look-alikes such as \\u0026, printf verbs or backslashes) with multi-input / multi-output tasks, parameters, MapToTags components (tags consumed downstream in commands and default output names), StreamToSubStream + joined in-ports, fan-in / fan-out, Prepend, depth <= 6; oracle: every finalized output has a parsable <path>.audit.json equal to the reference lineage tree in ProcessName, Command, Params, Tags, OutFiles and Upstream key set, recursively down to the source files (empty records), timing sane (start <= finish, duration >= 0, start non-zero); the audit file is readable by everybody who may read the output (permission bits); the recorded command equals the argv the command itself logged; a tag attached with an empty value and filled in by a later tagging step; parameter ports that exist only through InParam(name) (value used in the SetOut pattern, not in the command) belong to the record too. distinct_nontrivial = distinct (graph shape, config) with >= 3 audit records of depth >= 2")
	c.Assume("ids and absolute times are not compared", "MapToTags is only placed on streams it consumes alone (the component mutates the record it shares with the producer; with sibling consumers that is the C12 race)")
	rng := c.Rand("c10")
	type job struct {
		s   *spec.Spec
		exp *ref.Result
		cfg Cfg
	}
	var jobs []*job
	n := c.Pick(60, 700)
	for g := 0; g < n; g++ {
		b := []int{1, 2, 3, 128}[rng.Intn(4)]
		mt := []int{1, 2, 4, 8}[rng.Intn(4)]
		o := gen.GraphOpts{MaxProcs: 7, Lens: []int{1, 2, 3, b + 1}, Buf: b, FanIn: true, Params: true, GoFunc: true, WriteAPI: true, MultiOut: true, Portless: true, SubDirs: true,
			ParamComb: true, Prepend: true, Cores: mt, MaxTasks: mt, SleepMax: 10, MapTags: true, Join: true, NoUnequal: true}
		s := gen.Graph(rng, fmt.Sprintf("g%d", g), o)
		for k, p := range s.Procs {
			// text that looks like an escape sequence of the record's own encoding (a JSON document or a query string
			// passed on the command line), and printf verbs
			if p.Kind == spec.KCmd && (g+k)%4 == 0 && !strings.Contains(p.Cmd, " -- ") {
				p.Cmd += []string{" note=q\\u0026lang\\u003cen\\u003e", " note=%d%s-100%", " note=a\\\\b\\n\\t"}[(g+k)/4%3]
			}
		}
		exp := evalRef(s, nil)
		if exp.Err != "" {
			c.Count("generator_rejects", 1)
			continue
		}
		reps := c.Pick(1, 2)
		for k := 0; k < reps; k++ {
			jobs = append(jobs, &job{s, exp, Cfg{Buf: b, Procs: []int{1, 2, 4}[rng.Intn(3)], Sched: fmt.Sprintf("%d,300,600", rng.Intn(1<<30))}})
		}
	}
	// directed shape: two differently tagged streams zipped by one task, each also consumed alone downstream
	for rep := 0; rep < c.Pick(6, 30); rep++ {
		n := 2 + rep%3
		s := &spec.Spec{Name: fmt.Sprintf("tagzip%d", rep), MaxTasks: 4, Sources: map[string]string{}}
		in := []spec.PortDecl{{Name: "in"}}
		o1 := []spec.PortDecl{{Name: "out"}}
		for _, side := range []string{"l", "r"} {
			src := &spec.Proc{Name: "src" + side, Kind: spec.KFileSource}
			for i := 0; i < n; i++ {
				f := fmt.Sprintf("%s%d.txt", side, i)
				src.Files = append(src.Files, f)
				s.Sources[f] = f + "\n"
			}
			s.Procs = append(s.Procs, src,
				&spec.Proc{Name: "A" + side, Kind: spec.KCmd, Cmd: spec.BuildCmd("A"+side, in, o1, nil, nil, nil)},
				// tag names may contain dots ("sample.id"): every third repetition uses such names
				&spec.Proc{Name: "T" + side, Kind: spec.KMapToTags, Tags: []*spec.TagRule{{Key: dotted("tag", side, rep), Rule: []string{"stem", "idx"}[rep%2]}, {Key: dotted("const", side, rep), Rule: "const:c" + side}}},
				&spec.Proc{Name: "S" + side, Kind: spec.KCmd, Cmd: spec.BuildCmd("S"+side, in, o1, nil, map[string]string{"tg": "in." + dotted("tag", side, rep)}, nil)})
			s.Conns = append(s.Conns, &spec.Conn{From: "src" + side + ".out", To: "A" + side + ".in"}, &spec.Conn{From: "A" + side + ".out", To: "T" + side + ".in"},
				&spec.Conn{From: "T" + side + ".out", To: "S" + side + ".in"}, &spec.Conn{From: "T" + side + ".out", To: "J." + map[string]string{"l": "a", "r": "b"}[side]})
		}
		s.Procs = append(s.Procs, &spec.Proc{Name: "J", Kind: spec.KCmd, Cmd: spec.BuildCmd("J", []spec.PortDecl{{Name: "a"}, {Name: "b"}}, []spec.PortDecl{{Name: "out"}, {Name: "res"}}, nil, nil, nil)},
			&spec.Proc{Name: "K", Kind: spec.KCmd, Cmd: spec.BuildCmd("K", in, o1, nil, nil, nil)})
		s.Conns = append(s.Conns, &spec.Conn{From: "J.out", To: "K.in"})
		exp := evalRef(s, nil)
		if exp.Err != "" {
			c.Broken("reference cannot evaluate the tag-zip shape: " + exp.Err)
		}
		jobs = append(jobs, &job{s, exp, Cfg{Buf: []int{1, 3, 128}[rep%3], Procs: []int{1, 2, 4}[rep%3], Sched: fmt.Sprintf("%d,300,600", rng.Intn(1<<30))}})
	}
	// directed shape: a tag that is attached with an empty value first and filled in by a later tagging step (qc = "" ->
	// qc = pass): the later value is on every record downstream of the second step
	for rep := 0; rep < c.Pick(2, 6); rep++ {
		s := &spec.Spec{Name: fmt.Sprintf("tagfill%d", rep), MaxTasks: 4, Sources: map[string]string{"q1.txt": "q1\n", "q2.txt": "q2\n"}}
		in, o1 := []spec.PortDecl{{Name: "in"}}, []spec.PortDecl{{Name: "out"}}
		kind := []string{spec.KCmd, spec.KGoFunc}[rep%2]
		s.Procs = append(s.Procs, &spec.Proc{Name: "src", Kind: spec.KFileSource, Files: []string{"q1.txt", "q2.txt"}},
			&spec.Proc{Name: "A", Kind: spec.KCmd, Cmd: spec.BuildCmd("A", in, o1, nil, nil, nil), Outs: []*spec.Out{{Port: "out", Pattern: "{i:in|basename}.A.out"}}},
			&spec.Proc{Name: "T1", Kind: spec.KMapToTags, Tags: []*spec.TagRule{{Key: "qc", Rule: "blank"}, {Key: "sample", Rule: "stem"}}},
			&spec.Proc{Name: "B", Kind: kind, Cmd: spec.BuildCmd("B", in, o1, nil, nil, nil), Outs: []*spec.Out{{Port: "out", Pattern: "{i:in|basename}.B.out"}}},
			&spec.Proc{Name: "T2", Kind: spec.KMapToTags, Tags: []*spec.TagRule{{Key: "qc", Rule: "const:pass"}}},
			&spec.Proc{Name: "C", Kind: spec.KCmd, Cmd: spec.BuildCmd("C", in, o1, nil, map[string]string{"q": "in.qc"}, nil), Outs: []*spec.Out{{Port: "out", Pattern: "{i:in|basename}.C.out"}}})
		s.Conns = append(s.Conns, &spec.Conn{From: "src.out", To: "A.in"}, &spec.Conn{From: "A.out", To: "T1.in"}, &spec.Conn{From: "T1.out", To: "B.in"},
			&spec.Conn{From: "B.out", To: "T2.in"}, &spec.Conn{From: "T2.out", To: "C.in"})
		exp := evalRef(s, nil)
		if exp.Err != "" {
			c.Broken("reference cannot evaluate the tag-fill shape: " + exp.Err)
		}
		jobs = append(jobs, &job{s, exp, Cfg{Buf: []int{1, 128}[rep%2], Procs: []int{1, 2, 4}[rep%3], NoHooks: rep%2 == 1}})
	}
	// directed shape: parameter ports that do not appear in the command pattern (created by InParam(name) only; the
	// value is used in the SetOut pattern): their values belong to the task's record like any other parameter,
	// also in the nested Upstream copies downstream; command and Go-function variants
	for rep := 0; rep < c.Pick(3, 9); rep++ {
		n := 2 + rep%2
		s := &spec.Spec{Name: fmt.Sprintf("hiddenparam%d", rep), MaxTasks: 4, Sources: map[string]string{}}
		in := []spec.PortDecl{{Name: "in"}}
		o1 := []spec.PortDecl{{Name: "out"}}
		src := &spec.Proc{Name: "src", Kind: spec.KFileSource}
		var labs, runs []string
		for i := 0; i < n; i++ {
			f := fmt.Sprintf("h%d.txt", i)
			src.Files = append(src.Files, f)
			s.Sources[f] = f + "\n"
			labs = append(labs, fmt.Sprintf("lab%d", i))
			runs = append(runs, fmt.Sprintf("%d", 7+i))
		}
		kind := spec.KCmd
		if rep%3 == 2 {
			kind = spec.KGoFunc
		}
		h := &spec.Proc{Name: "H", Kind: kind, Cmd: spec.BuildCmd("H", in, o1, []string{"vis"}, nil, nil),
			Outs:  []*spec.Out{{Port: "out", Pattern: "hp/{i:in|basename}.{p:lab}.r{p:run}.out"}},
			Feeds: []*spec.Feed{{Port: "lab", How: "str", Values: labs}, {Port: "vis", How: "str", Values: labs}}}
		s.Procs = append(s.Procs, src, h, &spec.Proc{Name: "PS", Kind: spec.KParamSource, Values: runs},
			// D's command pattern has runs of blanks and a tab: the record must hold the command exactly as executed
			&spec.Proc{Name: "D", Kind: spec.KCmd, Cmd: spec.BuildCmd("D", in, o1, nil, nil, nil) + "   size=41 \t  sleep=1"})
		s.Conns = append(s.Conns, &spec.Conn{From: "src.out", To: "H.in"}, &spec.Conn{From: "PS.out", To: "H.run", Param: true}, &spec.Conn{From: "H.out", To: "D.in"})
		exp := evalRef(s, nil)
		if exp.Err != "" {
			c.Broken("reference cannot evaluate the hidden-parameter shape: " + exp.Err)
		}
		jobs = append(jobs, &job{s, exp, Cfg{Buf: []int{1, 3, 128}[rep%3], Procs: []int{1, 2, 4}[rep%3], NoHooks: rep%2 == 0}})
	}
	// directed shape: in-memory tags of a component output (Concatenator with GroupByTag) through a second MapToTags
	for rep := 0; rep < c.Pick(3, 12); rep++ {
		n := 2 + rep%3
		s := &spec.Spec{Name: fmt.Sprintf("grouptags%d", rep), MaxTasks: 4, Sources: map[string]string{}}
		src := &spec.Proc{Name: "src", Kind: spec.KFileSource}
		for i := 0; i < n; i++ {
			f := fmt.Sprintf("gt%d.txt", i)
			src.Files = append(src.Files, f)
			s.Sources[f] = f
		}
		s.Procs = append(s.Procs, src, &spec.Proc{Name: "T1", Kind: spec.KMapToTags, Tags: []*spec.TagRule{{Key: "grp", Rule: "idx"}}},
			&spec.Proc{Name: "CC", Kind: spec.KConcat, OutPath: "grouped.txt", GroupBy: "grp"},
			&spec.Proc{Name: "T2", Kind: spec.KMapToTags, Tags: []*spec.TagRule{{Key: "second", Rule: "const:s"}}},
			&spec.Proc{Name: "use", Kind: spec.KCmd, Cmd: spec.BuildCmd("use", []spec.PortDecl{{Name: "in"}}, []spec.PortDecl{{Name: "out"}}, nil, nil, nil)})
		s.Conns = append(s.Conns, &spec.Conn{From: "src.out", To: "T1.in"}, &spec.Conn{From: "T1.out", To: "CC.in"}, &spec.Conn{From: "CC.out", To: "T2.in"}, &spec.Conn{From: "T2.out", To: "use.in"})
		exp := evalRef(s, nil)
		if exp.Err != "" {
			c.Broken("reference cannot evaluate the group-tags shape: " + exp.Err)
		}
		jobs = append(jobs, &job{s, exp, Cfg{Buf: []int{1, 3, 128}[rep%3], Procs: []int{1, 2, 4}[rep%3], NoHooks: rep%2 == 0}})
	}
	// directed shape: a task with a joined in-port beside ordinary in-ports (header + parts + footer)
	for rep := 0; rep < c.Pick(6, 24); rep++ {
		n := 1 + rep%4
		s := &spec.Spec{Name: fmt.Sprintf("joinmix%d", rep), MaxTasks: 4, Sources: map[string]string{"header.txt": "h\n", "footer.txt": "f\n"}}
		parts := &spec.Proc{Name: "parts", Kind: spec.KFileSource}
		for i := 0; i < n; i++ {
			f := fmt.Sprintf("part%d.txt", i)
			parts.Files = append(parts.Files, f)
			s.Sources[f] = f + "\n"
		}
		in := []spec.PortDecl{{Name: "in"}}
		o1 := []spec.PortDecl{{Name: "out"}}
		s.Procs = append(s.Procs, parts, &spec.Proc{Name: "hdr", Kind: spec.KFileSource, Files: []string{"header.txt"}}, &spec.Proc{Name: "ftr", Kind: spec.KFileSource, Files: []string{"footer.txt"}},
			&spec.Proc{Name: "W", Kind: spec.KCmd, Cmd: spec.BuildCmd("W", in, o1, nil, nil, nil)},
			&spec.Proc{Name: "SS", Kind: spec.KSubStream},
			&spec.Proc{Name: "ASM", Kind: spec.KCmd, Cmd: spec.BuildCmd("ASM", []spec.PortDecl{{Name: "aa"}, {Name: "mid", Join: []string{"space", "comma"}[rep%2]}, {Name: "zz"}}, o1, nil, nil, nil),
				Outs: []*spec.Out{{Port: "out", Pattern: "assembled.{i:aa|basename}.out"}}},
			&spec.Proc{Name: "POST", Kind: spec.KCmd, Cmd: spec.BuildCmd("POST", in, o1, nil, nil, nil)})
		s.Conns = append(s.Conns, &spec.Conn{From: "parts.out", To: "W.in"}, &spec.Conn{From: "W.out", To: "SS.in"}, &spec.Conn{From: "SS.substream", To: "ASM.mid"},
			&spec.Conn{From: "hdr.out", To: "ASM.aa"}, &spec.Conn{From: "ftr.out", To: "ASM.zz"}, &spec.Conn{From: "ASM.out", To: "POST.in"})
		exp := evalRef(s, nil)
		if exp.Err != "" {
			c.Broken("reference cannot evaluate the join-mix shape: " + exp.Err)
		}
		jobs = append(jobs, &job{s, exp, Cfg{Buf: []int{1, 3, 128}[rep%3], Procs: []int{1, 2, 4}[rep%3], Sched: fmt.Sprintf("%d,300,600", rng.Intn(1<<30))}})
	}
	run.Parallel(len(jobs), func(i int) {
		j := jobs[i]
		root := c.CaseDir()
		defer c.Drop(root)
		// the reference mutates shared records (MapToTags), so evaluate per run
		exp := evalRef(j.s, nil)
		res := execSpec(c, root, j.s, j.cfg, nil, false, 0)
		ps, hang := judgeRun(res, j.s, exp)
		if hang != "" {
			c.Inconclusive(hang)
			return
		}
		if len(ps) > 0 {
			for _, sig := range sigSet(ps) {
				c.Violation("run:"+sig, strings.Join(mon.Summarize(ps, 5), "\n  "), map[string]interface{}{"spec": j.s, "cfg": j.cfg, "problems": mon.Summarize(ps, 20)})
			}
			return
		}
		ti := mon.Index(res.Trace)
		aps, records, depth := auditProblems(res.Wd, exp, ti)
		if len(aps) > 0 {
			for _, sig := range sigSet(aps) {
				c.Violation(sig, strings.Join(mon.Summarize(aps, 5), "\n  "), map[string]interface{}{"spec": j.s, "cfg": j.cfg, "graph": gen.Describe(j.s), "problems": mon.Summarize(aps, 20)})
			}
			return
		}
		c.Count("audit_files_compared", len(exp.AuditFor))
		c.Count("audit_records_compared", records)
		c.Max("max_lineage_depth", depth)
		ntag, njoin := 0, 0
		for _, p := range j.s.Procs {
			if p.Kind == spec.KMapToTags {
				ntag++
			}
			if p.Kind == spec.KSubStream {
				njoin++
			}
		}
		c.Count("graphs_with_tagging", minInt(ntag, 1))
		c.Count("graphs_with_substream_join", minInt(njoin, 1))
		if records >= 3 && depth >= 2 {
			c.Nontrivial(gen.ShapeHash(j.s) + fmt.Sprint(j.cfg.Buf, j.cfg.Procs))
		}
		if i%15 == 0 {
			c.Sample(map[string]interface{}{"graph": gen.Describe(j.s), "audit_files": len(exp.AuditFor), "records_compared": records, "max_depth": depth, "cfg": j.cfg})
		}
	})
	// "each output file finalized by a task is accompanied by <path>.audit.json" must also hold at the instant the
	// program dies: kills at the hook points of finalization
	{
		var tcs []topoCase
		for _, k := range []string{"chain", "twoout", "extra"} {
			for _, g := range []bool{false, true} {
				tcs = append(tcs, topoCase{k, gen.ShapeNested, g, 2})
			}
		}
		type kc struct {
			tc topoCase
			cp gen.CrashPoint
		}
		var kcs []kc
		for _, tc := range tcs {
			root := c.CaseDir()
			s := gen.Topo(tc.kind, tc.shape, tc.gof, root, tc.n)
			res := execSpec(c, root, s, Cfg{Buf: 128, Procs: 4}, gen.TopoBehav(tc.kind, evalRef(s, nil)), false, 0)
			for _, p := range gen.CrashPoints(res.Events) {
				if strings.HasPrefix(p.Point, "fin.") || p.Point == "task.finalized" || p.Point == "task.outputs_checked" || p.Point == "proc.outputs_sent" {
					if c.Thorough() || rng.Intn(3) == 0 {
						kcs = append(kcs, kc{tc, p})
					}
				}
			}
			c.Drop(root)
		}
		run.Parallel(len(kcs), func(i int) {
			k := kcs[i]
			root := c.CaseDir()
			defer c.Drop(root)
			s := gen.Topo(k.tc.kind, k.tc.shape, k.tc.gof, root, k.tc.n)
			exp := evalRef(s, nil)
			bh := gen.TopoBehav(k.tc.kind, exp)
			res := execSpec(c, root, s, Cfg{Buf: 128, Procs: 4, Crash: k.cp.Env()}, bh, false, 0)
			if res.Signal == "" {
				return
			}
			snap := mon.SnapRoot(root)
			n := 0
			for _, t := range exp.Tasks {
				for port, p := range t.Outs {
					if t.Streams[port] {
						continue
					}
					fp := mon.RootRel(root, p)
					if _, ok := snap[fp]; !ok {
						continue
					}
					n++
					if _, err := mon.LoadAudit(filepath.Join(root, fp+".audit.json")); err != nil {
						c.Violation("finalized-output-without-valid-audit-file", fmt.Sprintf("killed at %s: %s is at its final path but its audit file is missing or not valid JSON (%v)", k.cp.Point, p, err),
							map[string]interface{}{"spec": s, "crash": k.cp})
						return
					}
				}
			}
			c.Count("finalized_outputs_checked_after_kill", n)
			if n > 0 {
				c.Nontrivial(fmt.Sprintf("kill|%s|%v|%s#%d", k.tc.kind, k.tc.gof, k.cp.Point, k.cp.N))
			}
		})
	}
	c10staleAudit(c)
	c10pathShapes(c)
	c10globbed(c)
	c10setOutOnly(c)
	c10auditWriteFails(c)
	c.Finish()
}

func minInt(a, b int) int {
	if a < b {
		return a
	}
	return b
}

// c10staleAudit: history 'complete run with one tagging rule; the output files are deleted but their audit files stay
// (rm out/*.out does not match *.out.audit.json); the workflow is run again with another tagging rule': the records
// written by the second run describe the second run only. (The tagging component sits behind a first processing step:
// the tags it persists in the audit file of a source file would legitimately carry over to the next run.)
func c10staleAudit(c *chk.Ctx) {
	run.Parallel(c.Pick(4, 12), func(i int) {
		root := c.CaseDir()
		defer c.Drop(root)
		mk := func(key, rule string) *spec.Spec {
			s := &spec.Spec{Name: "staleaudit", MaxTasks: 2, Sources: map[string]string{"r1.txt": "r1\n", "r2.txt": "r2\n"}}
			in, out := []spec.PortDecl{{Name: "in"}}, []spec.PortDecl{{Name: "out"}}
			kind := spec.KCmd
			if i%2 == 1 {
				kind = spec.KGoFunc
			}
			s.Procs = append(s.Procs, &spec.Proc{Name: "src", Kind: spec.KFileSource, Files: []string{"r1.txt", "r2.txt"}},
				&spec.Proc{Name: "P", Kind: spec.KCmd, Cmd: spec.BuildCmd("P", in, out, nil, nil, nil), Outs: []*spec.Out{{Port: "out", Pattern: "{i:in|basename}.P.out"}}},
				&spec.Proc{Name: "TAG", Kind: spec.KMapToTags, Tags: []*spec.TagRule{{Key: key, Rule: rule}}},
				// (explicit names: the default name of an output contains the tags)
				&spec.Proc{Name: "A", Kind: kind, Cmd: spec.BuildCmd("A", in, out, nil, nil, nil), Outs: []*spec.Out{{Port: "out", Pattern: "{i:in|basename}.A.out"}}},
				&spec.Proc{Name: "B", Kind: spec.KCmd, Cmd: spec.BuildCmd("B", in, out, nil, nil, nil), Outs: []*spec.Out{{Port: "out", Pattern: "{i:in|basename}.B.out"}}})
			s.Conns = append(s.Conns, &spec.Conn{From: "src.out", To: "P.in"}, &spec.Conn{From: "P.out", To: "TAG.in"}, &spec.Conn{From: "TAG.out", To: "A.in"}, &spec.Conn{From: "A.out", To: "B.in"})
			return s
		}
		s1, s2 := mk("batch", "const:old"), mk("lot", "stem")
		cfg := Cfg{Buf: []int{1, 128}[i%2], Procs: 2}
		desc := map[string]interface{}{"first_run": s1, "second_run": s2, "cfg": cfg, "history": "run with tag batch=old; all output files deleted, their audit files kept; run with tag lot=<stem>"}
		res := execSpec(c, root, s1, cfg, nil, false, 0)
		if res.Hang != "" && !strings.HasPrefix(res.Hang, "deadlock") {
			c.Inconclusive(res.Hang)
			return
		}
		exp1 := evalRef(s1, nil)
		aps, _, _ := auditProblems(res.Wd, exp1, mon.Index(res.Trace))
		if res.Hang != "" || res.Exit != 0 || !res.Returned || len(aps) > 0 {
			c.Violation("audit-first-run", fmt.Sprintf("first run: exit %d %s %v", res.Exit, res.Hang, mon.Summarize(aps, 4)), desc)
			return
		}
		removed := 0
		for _, t := range exp1.Tasks {
			for _, o := range t.Outs {
				if os.Remove(filepath.Join(res.Wd, o)) == nil {
					removed++
				}
				if (i/2)%2 == 1 && t.Proc == "B" {
					os.Remove(filepath.Join(res.Wd, o+".audit.json")) // the last step's audit files went with their outputs
				}
			}
		}
		if removed != len(exp1.Tasks) {
			c.Broken(fmt.Sprintf("stale-audit history: %d of %d output files could be removed", removed, len(exp1.Tasks)))
		}
		r2 := execSpec(c, root, s2, cfg, nil, true, 1)
		if r2.Hang != "" && !strings.HasPrefix(r2.Hang, "deadlock") {
			c.Inconclusive(r2.Hang)
			return
		}
		if r2.Hang != "" || r2.Exit != 0 || !r2.Returned {
			c.Violation("audit-second-run-failed", fmt.Sprintf("second run: exit %d %s: %s", r2.Exit, r2.Hang, tail(r2.Output(), 400)), desc)
			return
		}
		exp2 := evalRef(s2, nil)
		ps, n, _ := auditProblems(r2.Wd, exp2, mon.Index(r2.Trace))
		for _, t := range exp2.Tasks {
			for _, o := range t.Outs {
				if got, err := mon.LoadAudit(filepath.Join(r2.Wd, o+".audit.json")); err == nil {
					if _, stale := got.Tags["batch"]; stale {
						ps = append(ps, mon.Problem{Sig: "audit-tags-from-an-earlier-run", Msg: fmt.Sprintf("%s was written by the second run (tag rule lot=<stem>) but its record has Tags %v: 'batch' was attached in the first run only and comes from an audit file that run left behind", o, got.Tags)})
					}
				}
			}
		}
		if len(ps) > 0 {
			for _, sig := range sigSet(ps) {
				desc["problems"] = mon.Summarize(ps, 10)
				c.Violation(sig, strings.Join(mon.Summarize(ps, 4), "\n  "), desc)
			}
			return
		}
		if n == 0 {
			c.Inconclusive("stale-audit history: the second run wrote no record")
			return
		}
		c.Count("records_after_stale_audit_files", n)
		c.Nontrivial(fmt.Sprintf("staleaudit|%d", i))
	})
}

// c10pathShapes: records of outputs that lie in nested, parent-relative and absolute directories: every field - in
// particular OutFiles and the Upstream keys - names the declared paths, not the encoded names used inside the
// task's temp directory.
func c10pathShapes(c *chk.Ctx) {
	type pj struct {
		kind string
		sh   gen.PathShape
		gof  bool
	}
	var jobs []pj
	for _, k := range []string{"chain", "twoout", "diamond"} {
		for _, sh := range []gen.PathShape{gen.ShapeParent, gen.ShapeAbs, gen.ShapeNested} {
			for _, g := range []bool{false, true} {
				if !c.Thorough() && (len(jobs)%3 == 1) {
					jobs = append(jobs, pj{})
					continue
				}
				jobs = append(jobs, pj{k, sh, g})
			}
		}
	}
	run.Parallel(len(jobs), func(i int) {
		j := jobs[i]
		if j.kind == "" {
			return
		}
		root := c.CaseDir()
		defer c.Drop(root)
		s := gen.Topo(j.kind, j.sh, j.gof, root, 2)
		if i%2 == 1 && j.sh == gen.ShapeNested {
			// paths that are valid but not in their shortest spelling: "./" in front of the source files, a doubled slash in
			// the output patterns - records and Upstream keys use the paths as the workflow spells them
			for _, p := range s.Procs {
				if p.Kind == spec.KFileSource {
					for k, f := range p.Files {
						s.Sources["./"+f] = s.Sources[f]
						delete(s.Sources, f)
						p.Files[k] = "./" + f
					}
				}
				for _, o := range p.Outs {
					o.Pattern = strings.Replace(o.Pattern, "n1/", "n1//", 1)
				}
			}
		}
		exp := evalRef(s, nil)
		if exp.Err != "" {
			c.Broken("reference cannot evaluate " + s.Name + ": " + exp.Err)
		}
		desc := map[string]interface{}{"topology": j.kind, "path_shape": j.sh, "gofunc": j.gof, "spec": s}
		res := execSpec(c, root, s, Cfg{Buf: 3, Procs: 2}, nil, false, 0)
		if res.Hang != "" && !strings.HasPrefix(res.Hang, "deadlock") {
			c.Inconclusive(res.Hang)
			return
		}
		if res.Hang != "" || res.Exit != 0 || !res.Returned {
			c.Violation("run:exit-nonzero", fmt.Sprintf("%s with %s paths: exit %d %s: %s", j.kind, j.sh, res.Exit, res.Hang, tail(res.Output(), 400)), desc)
			return
		}
		var ps []mon.Problem
		n := 0
		for path, want := range exp.AuditFor {
			got, err := mon.LoadAudit(filepath.Join(root, mon.RootRel(root, path)+".audit.json"))
			if err != nil {
				ps = append(ps, mon.Problem{Sig: "audit-file-unreadable", Msg: err.Error()})
				continue
			}
			ps = append(ps, mon.CompareAudit(got, want, path, false)...)
			n += got.Count()
		}
		if len(ps) > 0 {
			for _, sig := range sigSet(ps) {
				desc["problems"] = mon.Summarize(ps, 10)
				c.Violation(sig, fmt.Sprintf("%s with %s paths: %s", j.kind, j.sh, strings.Join(mon.Summarize(ps, 4), "\n  ")), desc)
			}
			return
		}
		c.Count("audit_records_compared", n)
		c.Nontrivial(fmt.Sprintf("pathshape|%s|%s|%v", j.kind, j.sh, j.gof))
	})
}

// c10globbed: files that re-enter the workflow through a dependent FileGlobber under another spelling of their path
// than their producer used ("./made/f_1.txt" written, "made/f_1.txt" matched): the record of the consuming task still
// contains the producer's full record for that input.
func c10globbed(c *chk.Ctx) {
	run.Parallel(c.Pick(3, 9), func(i int) {
		root := c.CaseDir()
		defer c.Drop(root)
		n := 2 + i%3
		var vals []string
		for k := 0; k < n; k++ {
			vals = append(vals, fmt.Sprint(k))
		}
		prefix := []string{"./made/", "made/./", "./made/sub/../"}[i%3]
		if i%3 == 2 {
			prefix = "./made/" // (paths with ".." segments are spelled by the task as they are)
		}
		s := &spec.Spec{Name: "globbed", MaxTasks: 3, Sources: map[string]string{}}
		s.Procs = append(s.Procs, &spec.Proc{Name: "maker", Kind: []string{spec.KCmd, spec.KGoFunc}[i%2], Cmd: spec.BuildCmd("maker", nil, []spec.PortDecl{{Name: "out"}}, []string{"i"}, nil, nil),
			Outs: []*spec.Out{{Port: "out", Pattern: prefix + "f_{p:i}.txt"}}, Feeds: []*spec.Feed{{Port: "i", How: "int", Values: vals}}},
			&spec.Proc{Name: "GL", Kind: spec.KGlobber, Files: []string{"made/f_*.txt"}, DepIn: true},
			&spec.Proc{Name: "use", Kind: spec.KCmd, Cmd: spec.BuildCmd("use", []spec.PortDecl{{Name: "in"}}, []spec.PortDecl{{Name: "out"}}, nil, nil, nil), Outs: []*spec.Out{{Port: "out", Pattern: "used/{i:in|basename}.use.out"}}})
		s.Conns = append(s.Conns, &spec.Conn{From: "maker.out", To: "GL.in_dep"}, &spec.Conn{From: "GL.out", To: "use.in"})
		cfg := Cfg{Buf: []int{1, 128}[i%2], Procs: 2}
		desc := map[string]interface{}{"spec": s, "cfg": cfg, "producer_path_prefix": prefix}
		res := execSpec(c, root, s, cfg, nil, false, 0)
		if res.Hang != "" && !strings.HasPrefix(res.Hang, "deadlock") {
			c.Inconclusive(res.Hang)
			return
		}
		if res.Hang != "" || res.Exit != 0 || !res.Returned {
			c.Violation("run:exit-nonzero", fmt.Sprintf("exit %d %s: %s", res.Exit, res.Hang, tail(res.Output(), 400)), desc)
			return
		}
		var ps []mon.Problem
		for k := 0; k < n; k++ {
			in := fmt.Sprintf("made/f_%d.txt", k)
			a, err := mon.LoadAudit(filepath.Join(res.Wd, fmt.Sprintf("used/f_%d.txt.use.out.audit.json", k)))
			if err != nil {
				ps = append(ps, mon.Problem{Sig: "audit-file-unreadable", Msg: err.Error()})
				continue
			}
			up := a.Upstream[in]
			if up == nil {
				ps = append(ps, mon.Problem{Sig: "audit-upstream-keys", Msg: fmt.Sprintf("record of used/f_%d.txt.use.out has Upstream keys %v, its input is %s", k, keysOfAudit(a), in)})
			} else if up.ProcessName != "maker" || up.Params["i"] != fmt.Sprint(k) || up.Command == "" && i%2 == 0 {
				ps = append(ps, mon.Problem{Sig: "audit-upstream-record", Msg: fmt.Sprintf("Upstream[%s] of used/f_%d.txt.use.out names process %q with parameters %v: the file was made by maker with i=%d", in, k, up.ProcessName, up.Params, k)})
			}
		}
		if len(ps) > 0 {
			for _, sig := range sigSet(ps) {
				desc["problems"] = mon.Summarize(ps, 10)
				c.Violation(sig, strings.Join(mon.Summarize(ps, 4), "\n  "), desc)
			}
			return
		}
		c.Count("audit_records_compared", 2*n)
		c.Nontrivial(fmt.Sprintf("globbed|%d|%s", n, prefix))
	})
}

// c10setOutOnly: out-ports that exist only through SetOut (the tool derives the name of a second file itself, the
// command pattern has no {o:...} for it): such an output is finalized like any other and carries its record; a run
// resumed behind it finds the lineage through it.
func c10setOutOnly(c *chk.Ctx) {
	run.Parallel(c.Pick(3, 9), func(i int) {
		root := c.CaseDir()
		defer c.Drop(root)
		s := &spec.Spec{Name: "auditsetoutonly", MaxTasks: 2, Sources: map[string]string{"u0.txt": "u0\n", "u1.txt": "u1\n"}}
		pat := []string{"sd/{i:in|basename}.w.res", "{i:in|basename}.w.res", "sd/deep/er/{i:in|basename}.w.res"}[i%3]
		w := &spec.Proc{Name: "W", Kind: spec.KCmd, Cmd: spec.VcmdPath + " run id=W i=in:{i:in} o=main:{o:main} o=res:" + pat, Outs: []*spec.Out{{Port: "res", Pattern: pat}}}
		if i%2 == 1 {
			w.Cmd = spec.VcmdPath + " run id=W i=in:{i:in} o=res:" + pat // the SetOut-only port is the only one
		}
		s.Procs = append(s.Procs, &spec.Proc{Name: "src", Kind: spec.KFileSource, Files: []string{"u0.txt", "u1.txt"}}, w,
			&spec.Proc{Name: "D", Kind: spec.KCmd, Cmd: spec.BuildCmd("D", []spec.PortDecl{{Name: "in"}}, []spec.PortDecl{{Name: "out"}}, nil, nil, nil)})
		s.Conns = append(s.Conns, &spec.Conn{From: "src.out", To: "W.in"}, &spec.Conn{From: "W.res", To: "D.in"})
		exp := evalRef(s, nil)
		if exp.Err != "" {
			c.Broken("reference cannot evaluate " + s.Name + ": " + exp.Err)
		}
		desc := map[string]interface{}{"spec": s, "port": "declared through SetOut only", "history": "RunTo(W), then Run"}
		s1 := s.Clone()
		s1.Run = spec.Run{Mode: "runto", Targets: []string{"W"}}
		r1 := execSpec(c, root, s1, Cfg{Buf: 3, Procs: 2}, nil, false, 0)
		if r1.Hang != "" && !strings.HasPrefix(r1.Hang, "deadlock") {
			c.Inconclusive(r1.Hang)
			return
		}
		res := execSpec(c, root, s, Cfg{Buf: 3, Procs: 2}, nil, true, 1)
		if res.Hang != "" && !strings.HasPrefix(res.Hang, "deadlock") {
			c.Inconclusive(res.Hang)
			return
		}
		if r1.Exit != 0 || res.Hang != "" || res.Exit != 0 || !res.Returned {
			c.Violation("run:exit-nonzero", fmt.Sprintf("out-port declared through SetOut only: exit %d then %d %s: %s", r1.Exit, res.Exit, res.Hang, tail(res.Output(), 400)), desc)
			return
		}
		var ps []mon.Problem
		n := 0
		for path, want := range exp.AuditFor {
			got, err := mon.LoadAudit(filepath.Join(res.Wd, path+".audit.json"))
			if err != nil {
				ps = append(ps, mon.Problem{Sig: "audit-file-unreadable", Msg: err.Error()})
				continue
			}
			ps = append(ps, mon.CompareAudit(got, want, path, false)...)
			n += got.Count()
		}
		if len(ps) > 0 {
			for _, sig := range sigSet(ps) {
				desc["problems"] = mon.Summarize(ps, 10)
				c.Violation(sig+"|setout-only-port", "out-port declared through SetOut only: "+strings.Join(mon.Summarize(ps, 4), "\n  "), desc)
			}
			return
		}
		if n == 0 {
			c.Broken("no audit record compared in the SetOut-only case")
		}
		c.Count("audit_records_compared", n)
		c.Nontrivial(fmt.Sprintf("setoutonly|%d", i))
	})
}

// c10auditWriteFails: the library's own write of an audit file fails (a file size limit stands in for a quota or a
// full disk; the records of a deep chain carry their whole lineage and outgrow it first). Whatever the library does
// then, no output may be finalized with a record that is not valid, complete JSON: "each output file finalized by a
// task is accompanied by <path>.audit.json: valid JSON ...". Plain shell tools, no harness trace.
func c10auditWriteFails(c *chk.Ctx) {
	run.Parallel(c.Pick(4, 12), func(i int) {
		root := c.CaseDir()
		defer c.Drop(root)
		depth := 9 + i%3
		limit := []int{4096, 7000, 2500, 9000}[i%4]
		s := &spec.Spec{Name: "auditquota", MaxTasks: 2, Sources: map[string]string{"q0.txt": "q0\n", "q1.txt": "q1\n"}}
		s.Procs = append(s.Procs, &spec.Proc{Name: "src", Kind: spec.KFileSource, Files: []string{"q0.txt", "q1.txt"}})
		prev := "src.out"
		var finals []string
		for d := 0; d < depth; d++ {
			pn := fmt.Sprintf("st%02d", d)
			pat := fmt.Sprintf("{i:in|basename|%%.txt}.%s.txt", pn)
			if d > 0 {
				pat = fmt.Sprintf("{i:in|basename|%%.st%02d.txt}.%s.txt", d-1, pn)
			}
			s.Procs = append(s.Procs, &spec.Proc{Name: pn, Kind: spec.KCmd, Cmd: "cat {i:in} > {o:out} && echo " + pn + "-" + strings.Repeat("x", 150) + " >> {o:out}", Outs: []*spec.Out{{Port: "out", Pattern: pat}}})
			s.Conns = append(s.Conns, &spec.Conn{From: prev, To: pn + ".in"})
			prev = pn + ".out"
			for _, q := range []string{"q0", "q1"} {
				finals = append(finals, fmt.Sprintf("%s.%s.txt", q, pn))
			}
		}
		s.Procs = append(s.Procs, &spec.Proc{Name: "FINAL", Kind: spec.KRecorder})
		s.Conns = append(s.Conns, &spec.Conn{From: prev, To: "FINAL.in"})
		cfg := Cfg{Buf: 3, Procs: 2, FSize: limit}
		desc := map[string]interface{}{"spec": s, "cfg": cfg, "file_size_limit": limit}
		res := execSpec(c, root, s, cfg, nil, false, 0)
		if res.Hang != "" {
			c.Inconclusive(res.Hang)
			return
		}
		var ps []mon.Problem
		nfinal, nvalid, big := 0, 0, 0
		for _, f := range finals {
			if _, err := os.Stat(filepath.Join(res.Wd, f)); err != nil {
				continue
			}
			nfinal++
			a, err := mon.LoadAudit(filepath.Join(res.Wd, f+".audit.json"))
			if err != nil {
				fi, _ := os.Stat(filepath.Join(res.Wd, f+".audit.json"))
				sz := int64(-1)
				if fi != nil {
					sz = fi.Size()
				}
				ps = append(ps, mon.Problem{Sig: "finalized-output-without-valid-audit-record", Msg: fmt.Sprintf("%s is at its final path, its audit file (size %d, limit %d) cannot be read as a record: %v", f, sz, limit, err)})
				continue
			}
			if a.ProcessName == "" || a.Command == "" {
				ps = append(ps, mon.Problem{Sig: "finalized-output-without-valid-audit-record", Msg: fmt.Sprintf("%s is at its final path, its audit file names no process / command", f)})
				continue
			}
			nvalid++
			if a.Depth() > big {
				big = a.Depth()
			}
		}
		if len(ps) > 0 {
			for _, sig := range sigSet(ps) {
				desc["problems"] = mon.Summarize(ps, 10)
				c.Violation(sig+"|audit-write-failed", fmt.Sprintf("file size limit %d, workflow exit %d: %s", limit, res.Exit, strings.Join(mon.Summarize(ps, 4), "\n  ")), desc)
			}
			return
		}
		if res.Exit == 0 && nfinal == len(finals) {
			c.Inconclusive(fmt.Sprintf("no audit file outgrew the limit of %d bytes", limit))
			return
		}
		c.Count("audit_records_compared", nvalid)
		c.Count("audit_write_fault_runs", 1)
		c.Nontrivial(fmt.Sprintf("auditquota|%d|%d|final%d", depth, limit, nfinal))
	})
}
