package main

import (
	"fmt"
	"os"
	"path/filepath"
	"strings"

	"verif/internal/chk"
	"verif/internal/gen"
	"verif/internal/mon"
	"verif/internal/ref"
	"verif/internal/run"
	"verif/internal/spec"
	"verif/internal/vproto"
)

func init() { checks["C05"] = c05 }

// returnProblems judges what was visible at the instant Run returned.
func returnProblems(res *run.Result, s *spec.Spec, exp *ref.Result) []mon.Problem {
	var ps []mon.Problem
	if !res.Returned || res.Ret == nil {
		return nil
	}
	ret := res.Ret
	inList := map[string]bool{}
	for _, l := range ret.Listing {
		inList[l.Path] = true
		base := filepath.Base(l.Path)
		if l.Mode == "d" && strings.HasPrefix(base, "_scipipe_tmp") {
			ps = append(ps, mon.Problem{Sig: "tempdir-at-return", Msg: "temp directory " + l.Path + " exists at the instant Run returned"})
		}
		if l.Mode == "p" {
			ps = append(ps, mon.Problem{Sig: "fifo-at-return", Msg: "FIFO " + l.Path + " exists at the instant Run returned"})
		}
	}
	for p := range exp.Files {
		if filepath.IsAbs(p) {
			continue
		}
		if !inList[filepath.Clean(p)] {
			ps = append(ps, mon.Problem{Sig: "output-missing-at-return", Msg: "expected output " + p + " not present in the listing taken right after Run returned"})
		}
	}
	if len(ret.Children) > 0 {
		ps = append(ps, mon.Problem{Sig: "live-child-at-return", Msg: fmt.Sprintf("%d command child process(es) of the workflow alive when Run returned", len(ret.Children))})
	}
	ti := mon.Index(res.Trace)
	for k, st := range ti.Starts {
		ends := ti.Ends[k]
		if len(ends) < len(st) {
			ps = append(ps, mon.Problem{Sig: "task-running-at-return", Msg: "task " + k + " started but has no end event although Run returned"})
		}
		for _, e := range ends {
			if e.T > ret.T {
				ps = append(ps, mon.Problem{Sig: "task-ended-after-return", Msg: fmt.Sprintf("task %s ended %.3f ms after Run returned", k, float64(e.T-ret.T)/1e6)})
			}
		}
	}
	return ps
}

// leafProcs returns processes without out-ports (they become the driver).
func leafProcs(s *spec.Spec) []string {
	var out []string
	for _, p := range s.Procs {
		if p.Kind != spec.KCmd && p.Kind != spec.KGoFunc {
			continue
		}
		has := len(p.Outs) > 0
		for _, pi := range ref.Ports(p.Cmd) {
			if pi.Type == "o" || pi.Type == "os" {
				has = true
			}
		}
		if !has {
			out = append(out, p.Name)
		}
	}
	return out
}

// directed shapes aimed at the driver logic
func c05Shapes(c *chk.Ctx, rng interface{ Intn(int) int }) []*spec.Spec {
	var out []*spec.Spec
	mk := func(name string, n int) *spec.Spec {
		s := &spec.Spec{Name: name, MaxTasks: 4, Sources: map[string]string{}}
		src := &spec.Proc{Name: "src", Kind: spec.KFileSource}
		for i := 0; i < n; i++ {
			f := fmt.Sprintf("s%02d.txt", i)
			src.Files = append(src.Files, f)
			s.Sources[f] = fmt.Sprintf("src %d\n", i)
		}
		s.Procs = append(s.Procs, src)
		return s
	}
	in := []spec.PortDecl{{Name: "in"}}
	o1 := []spec.PortDecl{{Name: "out"}}
	// several independent leaf branches, all with out-ports (sink drives)
	for _, n := range []int{1, 3, 6} {
		s := mk(fmt.Sprintf("leaves%d", n), n)
		for b := 0; b < 3; b++ {
			pn := fmt.Sprintf("b%d", b)
			s.Procs = append(s.Procs, &spec.Proc{Name: pn, Kind: spec.KCmd, Cmd: spec.BuildCmd(pn, in, o1, nil, nil, map[string]string{"sleep": fmt.Sprint(10 + 40*b)})})
			s.Conns = append(s.Conns, &spec.Conn{From: "src.out", To: pn + ".in"})
		}
		out = append(out, s)
	}
	// one out-port-less process next to branches that end in the sink
	for _, n := range []int{2, 5} {
		for _, slow := range []int{0, 1} {
			s := mk(fmt.Sprintf("leafdriver%d_%d", n, slow), n)
			sl := []string{"5", "120"}
			s.Procs = append(s.Procs, &spec.Proc{Name: "leaf", Kind: spec.KCmd, Cmd: spec.BuildCmd("leaf", in, nil, nil, nil, map[string]string{"sleep": sl[slow]})})
			s.Procs = append(s.Procs, &spec.Proc{Name: "other", Kind: spec.KCmd, Cmd: spec.BuildCmd("other", in, o1, nil, nil, map[string]string{"sleep": sl[1-slow]})})
			s.Conns = append(s.Conns, &spec.Conn{From: "src.out", To: "leaf.in"}, &spec.Conn{From: "src.out", To: "other.in"})
			out = append(out, s)
		}
	}
	// a process without any port (a helper that prepares a directory, fetches something) that takes longer than the
	// branches that end in the sink: Run returns when it is done, too
	for _, n := range []int{1, 3} {
		for _, ms := range []string{"350", "40"} {
			s := mk(fmt.Sprintf("portlessslow%d_%s", n, ms), n)
			s.Procs = append(s.Procs, &spec.Proc{Name: "helper", Kind: []string{spec.KCmd, spec.KGoFunc}[n%2], Cmd: spec.BuildCmd("helper", nil, nil, nil, nil, map[string]string{"sleep": ms, "extra": "helper.done"})})
			s.Procs = append(s.Procs, &spec.Proc{Name: "other", Kind: spec.KCmd, Cmd: spec.BuildCmd("other", in, o1, nil, nil, map[string]string{"sleep": "10"})})
			s.Conns = append(s.Conns, &spec.Conn{From: "src.out", To: "other.in"})
			out = append(out, s)
		}
	}
	// out-port-less process downstream of everything (the usual "last process" shape)
	{
		s := mk("leaflast", 4)
		s.Procs = append(s.Procs, &spec.Proc{Name: "mid", Kind: spec.KCmd, Cmd: spec.BuildCmd("mid", in, o1, nil, nil, map[string]string{"sleep": "20"})})
		s.Procs = append(s.Procs, &spec.Proc{Name: "last", Kind: spec.KCmd, Cmd: spec.BuildCmd("last", in, nil, nil, nil, nil)})
		s.Conns = append(s.Conns, &spec.Conn{From: "src.out", To: "mid.in"}, &spec.Conn{From: "mid.out", To: "last.in"})
		out = append(out, s)
	}
	// RunTo with an out-port-less target
	{
		s := mk("runtoleaf", 6)
		s.Procs = append(s.Procs, &spec.Proc{Name: "mid", Kind: spec.KCmd, Cmd: spec.BuildCmd("mid", in, o1, nil, nil, map[string]string{"sleep": "15"})})
		s.Procs = append(s.Procs, &spec.Proc{Name: "last", Kind: spec.KCmd, Cmd: spec.BuildCmd("last", in, nil, nil, nil, map[string]string{"sleep": "30"})})
		s.Procs = append(s.Procs, &spec.Proc{Name: "beyond", Kind: spec.KCmd, Cmd: spec.BuildCmd("beyond", in, o1, nil, nil, nil)})
		s.Conns = append(s.Conns, &spec.Conn{From: "src.out", To: "mid.in"}, &spec.Conn{From: "mid.out", To: "last.in"}, &spec.Conn{From: "mid.out", To: "beyond.in"})
		s.Run = spec.Run{Mode: "runto", Targets: []string{"last"}}
		out = append(out, s)
	}
	// a parameter source nobody consumes (drained by the sink's parameter port) beside a slow file branch
	for _, n := range []int{2, 5} {
		s := mk(fmt.Sprintf("danglingparam%d", n), n)
		s.Procs = append(s.Procs, &spec.Proc{Name: "ps", Kind: spec.KParamSource, Values: []string{"a", "b", "c"}})
		s.Procs = append(s.Procs, &spec.Proc{Name: "slow", Kind: spec.KCmd, Cmd: spec.BuildCmd("slow", in, o1, nil, nil, map[string]string{"sleep": "90"})})
		s.Conns = append(s.Conns, &spec.Conn{From: "src.out", To: "slow.in"})
		out = append(out, s)
	}
	// a FileSplitter whose input lies in a sub-directory (the component has a temp directory of its own)
	{
		s := &spec.Spec{Name: "splitsub", MaxTasks: 3, Sources: map[string]string{"data/raw/numbers.txt": "1\n2\n3\n4\n5\n", "plain.txt": "a\nb\nc\n"}}
		s.Procs = append(s.Procs, &spec.Proc{Name: "src", Kind: spec.KFileSource, Files: []string{"data/raw/numbers.txt", "plain.txt"}},
			&spec.Proc{Name: "SP", Kind: spec.KSplitter, Lines: 2},
			&spec.Proc{Name: "use", Kind: spec.KCmd, Cmd: spec.BuildCmd("use", in, o1, nil, nil, nil), Outs: []*spec.Out{{Port: "out", Pattern: "used/{i:in|basename}.use.out"}}})
		s.Conns = append(s.Conns, &spec.Conn{From: "src.out", To: "SP.file"}, &spec.Conn{From: "SP.split_file", To: "use.in"})
		out = append(out, s)
	}
	// RunToRegex with two patterns, and with one pattern that matches two processes
	for k, targets := range [][]string{{"^c1$", "^c2$"}, {"^c[0-9]$"}, {"^c2$", "^c1$", "^c"}} {
		s := mk(fmt.Sprintf("runtoregex%d", k), 3)
		s.Procs = append(s.Procs, &spec.Proc{Name: "c1", Kind: spec.KCmd, Cmd: spec.BuildCmd("c1", in, o1, nil, nil, map[string]string{"sleep": "40"})},
			&spec.Proc{Name: "c2", Kind: spec.KCmd, Cmd: spec.BuildCmd("c2", in, o1, nil, nil, map[string]string{"sleep": "70"})},
			&spec.Proc{Name: "dd", Kind: spec.KCmd, Cmd: spec.BuildCmd("dd", in, o1, nil, nil, nil)})
		s.Conns = append(s.Conns, &spec.Conn{From: "src.out", To: "c1.in"}, &spec.Conn{From: "src.out", To: "c2.in"}, &spec.Conn{From: "c1.out", To: "dd.in"})
		s.Run = spec.Run{Mode: "runtoregex", Targets: targets}
		out = append(out, s)
	}
	// RunTo whose cut goes through one file connection and one parameter connection
	{
		s := mk("runtocut", 4)
		s.Procs = append(s.Procs, &spec.Proc{Name: "ps", Kind: spec.KParamSource, Values: []string{"k1", "k2", "k3", "k4"}})
		s.Procs = append(s.Procs, &spec.Proc{Name: "mid", Kind: spec.KCmd, Cmd: spec.BuildCmd("mid", in, o1, nil, nil, map[string]string{"sleep": "80"})})
		s.Procs = append(s.Procs, &spec.Proc{Name: "beyond", Kind: spec.KCmd, Cmd: spec.BuildCmd("beyond", in, o1, []string{"k"}, nil, nil)})
		s.Conns = append(s.Conns, &spec.Conn{From: "src.out", To: "mid.in"}, &spec.Conn{From: "mid.out", To: "beyond.in"}, &spec.Conn{From: "ps.out", To: "beyond.k", Param: true})
		s.Run = spec.Run{Mode: "runto", Targets: []string{"mid", "ps"}}
		out = append(out, s)
	}
	// RunTo across a parameter chain of two hops (ParamSource -> ParamCombinator -> process)
	{
		s := mk("runtoparamchain", 2)
		s.Procs = append(s.Procs, &spec.Proc{Name: "ps1", Kind: spec.KParamSource, Values: []string{"a", "b"}}, &spec.Proc{Name: "ps2", Kind: spec.KParamSource, Values: []string{"x", "y", "z"}},
			&spec.Proc{Name: "pc", Kind: spec.KParamComb, Ports: []string{"u", "v"}},
			&spec.Proc{Name: "sweep", Kind: spec.KCmd, Cmd: spec.BuildCmd("sweep", nil, o1, []string{"u", "v"}, nil, nil), Outs: []*spec.Out{{Port: "out", Pattern: "sweep_{p:u}_{p:v}.out"}}},
			&spec.Proc{Name: "after", Kind: spec.KCmd, Cmd: spec.BuildCmd("after", in, o1, nil, nil, nil)})
		s.Conns = append(s.Conns, &spec.Conn{From: "ps1.out", To: "pc.u", Param: true}, &spec.Conn{From: "ps2.out", To: "pc.v", Param: true},
			&spec.Conn{From: "pc.u", To: "sweep.u", Param: true}, &spec.Conn{From: "pc.v", To: "sweep.v", Param: true}, &spec.Conn{From: "sweep.out", To: "after.in"})
		s.Run = spec.Run{Mode: "runto", Targets: []string{"sweep"}}
		out = append(out, s)
	}
	// RunTo where a parameter source / a file source feeds one process inside and one outside the run set, with
	// more items than buffer slots: the connection to the process that is not run must be cut, or the source blocks
	for _, param := range []bool{true, false} {
		name := "runtofilefan"
		if param {
			name = "runtoparamfan"
		}
		s := mk(name, 8)
		if param {
			s.Procs = append(s.Procs, &spec.Proc{Name: "ps", Kind: spec.KParamSource, Values: []string{"k1", "k2", "k3", "k4", "k5", "k6", "k7", "k8"}},
				&spec.Proc{Name: "inside", Kind: spec.KCmd, Cmd: spec.BuildCmd("inside", nil, o1, []string{"k"}, nil, nil), Outs: []*spec.Out{{Port: "out", Pattern: "inside_{p:k}.out"}}},
				&spec.Proc{Name: "outside", Kind: spec.KCmd, Cmd: spec.BuildCmd("outside", nil, o1, []string{"k"}, nil, nil), Outs: []*spec.Out{{Port: "out", Pattern: "outside_{p:k}.out"}}})
			s.Conns = append(s.Conns, &spec.Conn{From: "ps.out", To: "inside.k", Param: true}, &spec.Conn{From: "ps.out", To: "outside.k", Param: true, Via: "to"})
			s.Procs = s.Procs[1:] // no file source needed
			s.Sources = map[string]string{}
		} else {
			s.Procs = append(s.Procs, &spec.Proc{Name: "inside", Kind: spec.KCmd, Cmd: spec.BuildCmd("inside", in, o1, nil, nil, nil)},
				&spec.Proc{Name: "outside", Kind: spec.KCmd, Cmd: spec.BuildCmd("outside", in, o1, nil, nil, nil)})
			s.Conns = append(s.Conns, &spec.Conn{From: "src.out", To: "inside.in"}, &spec.Conn{From: "src.out", To: "outside.in", Via: "to"})
		}
		s.Run = spec.Run{Mode: []string{"runto", "runtoprocs"}[len(out)%2], Targets: []string{"inside"}}
		out = append(out, s)
	}
	// a dependent globber behind a process with several slow tasks: it may only glob - and Run may only return -
	// when the whole dependency stream has passed
	{
		s := mk("depglob", 5)
		s.Sources["g1.dat"] = "g1\n"
		s.Sources["g2.dat"] = "g2\n"
		s.Procs = append(s.Procs, &spec.Proc{Name: "maker", Kind: spec.KCmd, Cmd: spec.BuildCmd("maker", in, o1, nil, nil, map[string]string{"sleep": "60"})},
			&spec.Proc{Name: "GL", Kind: spec.KGlobber, Files: []string{"g*.dat"}, DepIn: true},
			&spec.Proc{Name: "use", Kind: spec.KCmd, Cmd: spec.BuildCmd("use", in, o1, nil, nil, nil)})
		s.Conns = append(s.Conns, &spec.Conn{From: "src.out", To: "maker.in"}, &spec.Conn{From: "maker.out", To: "GL.in_dep"}, &spec.Conn{From: "GL.out", To: "use.in"})
		s.MaxTasks = 2
		out = append(out, s)
	}
	// a sub-stream with more members than buffer slots, joined by one task
	{
		s := mk("substreamlong", 9)
		s.Procs = append(s.Procs, &spec.Proc{Name: "A", Kind: spec.KCmd, Cmd: spec.BuildCmd("A", in, o1, nil, nil, nil)}, &spec.Proc{Name: "SS", Kind: spec.KSubStream},
			&spec.Proc{Name: "JN", Kind: spec.KCmd, Cmd: spec.BuildCmd("JN", []spec.PortDecl{{Name: "in", Join: "space"}}, o1, nil, nil, nil), Outs: []*spec.Out{{Port: "out", Pattern: "joined.out"}}})
		s.Conns = append(s.Conns, &spec.Conn{From: "src.out", To: "A.in"}, &spec.Conn{From: "A.out", To: "SS.in"}, &spec.Conn{From: "SS.substream", To: "JN.in"})
		out = append(out, s)
	}
	// a component with its own temp directory (FileSplitter) between processes
	{
		s := mk("splitter", 2)
		for k, f := range s.Procs[0].Files {
			s.Sources[f] = strings.Repeat(fmt.Sprintf("line of %d\n", k), 5)
		}
		s.Procs = append(s.Procs, &spec.Proc{Name: "SP", Kind: spec.KSplitter, Lines: 2},
			&spec.Proc{Name: "use", Kind: spec.KCmd, Cmd: spec.BuildCmd("use", in, o1, nil, nil, map[string]string{"sleep": "20"})})
		s.Conns = append(s.Conns, &spec.Conn{From: "src.out", To: "SP.file"}, &spec.Conn{From: "SP.split_file", To: "use.in"})
		out = append(out, s)
	}
	// issue #81 diamond: more tasks per process than buffer slots
	for _, n := range []int{4, 9} {
		s := mk(fmt.Sprintf("diamond81_%d", n), n)
		s.Procs = append(s.Procs, &spec.Proc{Name: "left", Kind: spec.KCmd, Cmd: spec.BuildCmd("left", in, o1, nil, nil, nil)})
		s.Procs = append(s.Procs, &spec.Proc{Name: "right", Kind: spec.KCmd, Cmd: spec.BuildCmd("right", in, o1, nil, nil, map[string]string{"sleep": "10"})})
		s.Procs = append(s.Procs, &spec.Proc{Name: "join", Kind: spec.KCmd, Cmd: spec.BuildCmd("join", []spec.PortDecl{{Name: "a"}, {Name: "b"}}, o1, nil, nil, nil)})
		s.Conns = append(s.Conns, &spec.Conn{From: "src.out", To: "left.in"}, &spec.Conn{From: "src.out", To: "right.in"},
			&spec.Conn{From: "left.out", To: "join.a"}, &spec.Conn{From: "right.out", To: "join.b"})
		out = append(out, s)
	}
	return out
}

func c05(args []string) {
	c := chk.New("C05", "exploration", args)
	c.Build(false)
	c.Rule("generated non-streaming graphs (C04 generator incl. processes without out-ports, slow leaves; in every third run all commands print 300 kB to stdout/stderr) plus directed shapes for the driver logic (independent leaves, out-port-less process beside sink-terminated branches, a slow process without any port beside them, RunTo on an out-port-less target, RunToRegex with several patterns and with one pattern matching two processes, issue-#81 diamond with more tasks than buffer slots), plus close storms: command-free fan-ins of 2-8 one-file sources into one in-port, built and run 1500-3000 times inside one child process so that the upstreams close their connections at the same moment thousands of times (Run must return each time, every item must pass); oracle = the subject's own snapshot at the instant Run returns (listing, live children, monotonic stamp) vs. trace and reference, plus structural hang classification; history 'complete run, an intermediate output removed, run again' through a Concatenator (with and without GroupByTag): Run returns only after the recomputed, slow task is done; history 'run killed inside a task's finalization, run again without cleanup': if that Run returns, no temp directory exists and every file is final; further directed shapes: a dependent globber behind several slow tasks, RunTo / RunToProcs where a parameter source or a file source feeds one process inside and one outside the run set with more items than buffer slots. distinct_nontrivial = distinct (graph shape, configuration, interleaving signature) of returned runs with >= 2 tasks")
	c.Assume("SCIPIPE_BUFSIZE >= 1", "two processes without out-ports are refused by the library up front; that refusal (exit != 0, no command executed) is accepted", "hang verdicts only from the structural classifier (Go runtime deadlock report or all goroutines blocked), never from elapsed time")
	rng := c.Rand("c05")
	type job struct {
		s   *spec.Spec
		exp *ref.Result
		cfg Cfg
		tag string
	}
	var jobs []*job
	ngraphs := c.Pick(50, 700)
	for g := 0; g < ngraphs; g++ {
		b := []int{1, 2, 3, 5}[rng.Intn(4)]
		mt := []int{1, 2, 3, 4, 8}[rng.Intn(5)]
		o := gen.GraphOpts{MaxProcs: 7, Lens: lensFor(b), Buf: b, FanIn: true, Params: true, GoFunc: true, WriteAPI: true, MultiOut: true, Portless: true, SubDirs: true,
			ParamComb: true, Cores: mt, MaxTasks: mt, SleepMax: 25, Leaf: true}
		s := gen.Graph(rng, fmt.Sprintf("g%d", g), o)
		exp := evalRef(s, nil)
		if exp.Err != "" {
			c.Count("generator_rejects", 1)
			continue
		}
		nseeds := c.Pick(2, 3)
		for k := 0; k < nseeds; k++ {
			cfg := Cfg{Buf: b, Procs: []int{1, 2, 4}[rng.Intn(3)], Sched: fmt.Sprintf("%d,300,800", rng.Intn(1<<30))}
			if k == 1 {
				cfg.Buf = b + 1 + rng.Intn(3)
				cfg.NoHooks = true // the plain library: hooks passive
			}
			jobs = append(jobs, &job{s, exp, cfg, "gen"})
		}
	}
	for _, s := range c05Shapes(c, rng) {
		exp := evalRef(s, nil)
		if exp.Err != "" {
			c.Broken("reference cannot evaluate directed shape " + s.Name + ": " + exp.Err)
		}
		reps := c.Pick(3, 12)
		for k := 0; k < reps; k++ {
			b := []int{1, 2, 3, 128}[k%4]
			jobs = append(jobs, &job{s, exp, Cfg{Buf: b, Procs: []int{4, 1, 2}[k%3], Sched: fmt.Sprintf("%d,300,600", rng.Intn(1<<30))}, "shape"})
		}
	}
	run.Parallel(len(jobs), func(i int) {
		j := jobs[i]
		root := c.CaseDir()
		defer c.Drop(root)
		var bh vproto.Behaviours
		if i%3 == 2 {
			// verbose tools: every command prints 300 kB of progress lines (more than a pipe holds) before it works
			bh = vproto.Behaviours{}
			for _, p := range j.s.Procs {
				if p.Kind == spec.KCmd {
					bh[p.Name] = map[string]string{"chatter": "300000"}
				}
			}
		}
		res := execSpec(c, root, j.s, j.cfg, bh, false, 0)
		leaves := leafProcs(j.s)
		nLeafInRun := 0
		for _, l := range leaves {
			if j.exp.InRun[l] {
				nLeafInRun++
			}
		}
		if nLeafInRun >= 2 {
			// must be refused up front
			ti := mon.Index(res.Trace)
			if res.Exit != 0 && !res.Returned && len(ti.Starts) == 0 && res.Hang == "" {
				c.Count("refused_two_drivers", 1)
				return
			}
			c.Violation("two-drivers-not-refused", fmt.Sprintf("workflow with %d out-port-less processes: exit=%d returned=%v starts=%d hang=%s", nLeafInRun, res.Exit, res.Returned, len(ti.Starts), res.Hang),
				map[string]interface{}{"spec": j.s, "cfg": j.cfg})
			return
		}
		ps, hang := judgeRun(res, j.s, j.exp)
		if hang != "" {
			c.Inconclusive(fmt.Sprintf("%s: %s", j.s.Name, hang))
			return
		}
		rp := returnProblems(res, j.s, j.exp)
		if len(rp) > 0 {
			// early return; classify by driver shape for the known-findings file
			ctxSig := ""
			if nLeafInRun == 1 {
				others := false
				for _, p := range j.s.Procs {
					if j.exp.InRun[p.Name] && (p.Kind == spec.KCmd || p.Kind == spec.KGoFunc) && p.Name != leaves[0] {
						// a process whose outputs nobody in the run set consumes drains into the sink
						for port := range ref.Ports(p.Cmd) {
							if t := ref.Ports(p.Cmd)[port].Type; t == "o" {
								consumed := false
								for _, cn := range j.s.Conns {
									tp, _ := spec.SplitPort(cn.To)
									if cn.From == p.Name+"."+port && j.exp.InRun[tp] {
										consumed = true
									}
								}
								if !consumed {
									others = true
								}
							}
						}
					}
				}
				if j.s.Run.Mode == "runto" || j.s.Run.Mode == "runtoprocs" || j.s.Run.Mode == "runtoregex" {
					ctxSig = "early-return:outportless-runto-target"
				} else if others {
					ctxSig = "early-return:outportless-driver-beside-sink-branches"
				}
			}
			if ctxSig == "" {
				ctxSig = "early-return"
			}
			c.Violation(ctxSig, strings.Join(mon.Summarize(rp, 6), "\n  "), map[string]interface{}{"spec": j.s, "cfg": j.cfg, "problems": mon.Summarize(rp, 30), "ret": res.Ret})
			return
		}
		if len(ps) > 0 {
			for _, sig := range sigSet(ps) {
				c.Violation(sig, strings.Join(mon.Summarize(ps, 6), "\n  "), map[string]interface{}{"spec": j.s, "cfg": j.cfg, "problems": mon.Summarize(ps, 30)})
			}
			return
		}
		nt := 0
		for _, e := range res.Trace {
			if e.Ev == "start" {
				nt++
			}
		}
		if nt >= 2 {
			c.Nontrivial(gen.ShapeHash(j.s) + "|" + fmt.Sprint(j.cfg.Buf, j.cfg.Procs) + "|" + mon.InterleavingSig(res.Events))
		}
		c.Count("tasks_executed", nt)
		c.Count("runs_returned_clean", 1)
		if j.tag == "shape" {
			c.Count("directed_shape_runs", 1)
		}
		c.Sample(map[string]interface{}{"graph": gen.Describe(j.s), "cfg": j.cfg, "tasks": nt, "listing_entries_at_return": len(res.Ret.Listing), "run_mode": j.s.Run.Mode})
	})
	closeStorm(c, "files")
	closeStorm(c, "params")
	c05interruptedRerun(c)
	c05componentRerun(c)
	c.Finish()
}

// closeStorm: command-free fan-ins (k sources of one file each -> one recording in-port -> sink) built and run
// many times inside one child process; the k upstreams close their connection to the in-port at (nearly)
// the same moment in every iteration. Run must return every time and every item must have passed.
func closeStorm(c *chk.Ctx, mode string) {
	substream := mode == "substream"
	rng := c.Rand("closestorm")
	type job struct {
		k, iters int
		cfg      Cfg
	}
	var jobs []*job
	for r := 0; r < c.Pick(16, 64); r++ {
		j := &job{k: []int{2, 2, 3, 4, 6, 8}[r%6], iters: c.Pick(1500, 3000), cfg: Cfg{Buf: []int{1, 128}[r%2], Procs: []int{2, 4, 8, 16}[r%4]}}
		if r%4 == 3 {
			j.cfg.Sched = fmt.Sprintf("%d,300,50", rng.Intn(1<<30))
			j.iters /= 3
		} else if r%4 != 0 {
			j.cfg.NoHooks = true // the hooks' own mutex must not space the closings out
		}
		jobs = append(jobs, j)
	}
	run.Parallel(len(jobs), func(i int) {
		j := jobs[i]
		root := c.CaseDir()
		defer c.Drop(root)
		s := &spec.Spec{Name: fmt.Sprintf("storm%d", j.k), MaxTasks: 4, Sources: map[string]string{}, LogFile: "/dev/null"}
		if mode == "params" {
			// k one-value parameter sources close their connection to one parameter in-port of a ParamCombinator
			for u := 0; u < j.k; u++ {
				n := fmt.Sprintf("ps%d", u)
				s.Procs = append(s.Procs, &spec.Proc{Name: n, Kind: spec.KParamSource, Values: []string{fmt.Sprintf("v%d", u)}})
				s.Conns = append(s.Conns, &spec.Conn{From: n + ".out", To: "PC.a", Param: true})
			}
			s.Procs = append(s.Procs, &spec.Proc{Name: "psb", Kind: spec.KParamSource, Values: []string{"x", "y"}}, &spec.Proc{Name: "PC", Kind: spec.KParamComb, Ports: []string{"a", "b"}})
			s.Conns = append(s.Conns, &spec.Conn{From: "psb.out", To: "PC.b", Param: true})
		}
		for u := 0; u < j.k && mode != "params"; u++ {
			f := fmt.Sprintf("f%d.txt", u)
			s.Sources[f] = f
			s.Procs = append(s.Procs, &spec.Proc{Name: fmt.Sprintf("src%d", u), Kind: spec.KFileSource, Files: []string{f}})
			to := "REC.in"
			if substream {
				to = "SS.in"
			}
			s.Conns = append(s.Conns, &spec.Conn{From: fmt.Sprintf("src%d.out", u), To: to})
		}
		per := j.k // recorded items per iteration
		if substream {
			// the fan-in feeds a StreamToSubStream; the recorder behind it sees one sub-stream per iteration
			s.Procs = append(s.Procs, &spec.Proc{Name: "SS", Kind: spec.KSubStream})
			s.Conns = append(s.Conns, &spec.Conn{From: "SS.substream", To: "REC.in"})
			per = 1
		}
		if mode != "params" {
			s.Procs = append(s.Procs, &spec.Proc{Name: "REC", Kind: spec.KRecorder})
		} else {
			per = 0
		}
		s.Run.Repeat = j.iters
		res := execSpec(c, root, s, j.cfg, nil, false, 0)
		desc := map[string]interface{}{"spec": s, "cfg": j.cfg, "upstreams": j.k, "iterations": j.iters}
		if res.Hang != "" {
			if strings.HasPrefix(res.Hang, "deadlock") {
				done := 0
				for _, e := range res.Trace {
					if e.Ev == "rec" {
						done++
					}
				}
				c.Violation("hang-"+res.Hang, fmt.Sprintf("fan-in of %d sources closing one in-port at the same moment: Run did not return in iteration %d of %d: %s\n%s", j.k, done/imax(per, 1)+1, j.iters, res.Hang, clip(res.HangInfo, 800)), desc)
			} else {
				c.Inconclusive("close storm: " + res.Hang)
			}
			return
		}
		if res.Exit != 0 || !res.Returned {
			c.Violation("exit-nonzero", fmt.Sprintf("fan-in of %d sources, %d iterations: exit %d: %s", j.k, j.iters, res.Exit, tail(res.Output(), 500)), desc)
			return
		}
		got := 0
		for _, e := range res.Trace {
			if e.Ev == "rec" {
				got++
			}
		}
		if got != per*j.iters {
			c.Violation("item-lost", fmt.Sprintf("fan-in of %d sources, %d iterations: %d items passed, expected %d", j.k, j.iters, got, per*j.iters), desc)
			return
		}
		c.Count("close_storm_iterations", j.iters)
		c.Count("close_storm_closings", j.iters*j.k)
		c.Nontrivial(fmt.Sprintf("storm|%s|%d|%v", mode, j.k, j.cfg))
	})
}

func imax(a, b int) int {
	if a > b {
		return a
	}
	return b
}

// c05interruptedRerun: "when it returns, no temp directory of the run is left behind" also for a run that starts on
// top of what an interrupted run left: the first run is killed inside a task's finalization (declared output renamed,
// temp directory with unmoved additional files still there), the workflow is run again without cleanup. The library
// refuses such a re-run; if Run does return, everything must be finalized and no temp directory may exist.
func c05interruptedRerun(c *chk.Ctx) {
	type ij struct {
		kind string
		gof  bool
		cp   gen.CrashPoint
	}
	var jobs []ij
	for _, k := range []string{"extra", "twoout"} {
		for _, g := range []bool{false, true} {
			root := c.CaseDir()
			s := gen.Topo(k, gen.ShapePlain, g, root, 2)
			res := execSpec(c, root, s, Cfg{Buf: 128, Procs: 4}, gen.TopoBehav(k, evalRef(s, nil)), false, 0)
			n := 0
			for _, p := range gen.CrashPoints(res.Events) {
				if p.Point == "fin.renamed" || p.Point == "fin.extra_moved" || p.Point == "fin.before_rmtemp" {
					if c.Thorough() || n%3 == 1 {
						jobs = append(jobs, ij{k, g, p})
					}
					n++
				}
			}
			c.Drop(root)
		}
	}
	run.Parallel(len(jobs), func(i int) {
		j := jobs[i]
		root := c.CaseDir()
		defer c.Drop(root)
		s := gen.Topo(j.kind, gen.ShapePlain, j.gof, root, 2)
		exp := evalRef(s, nil)
		bh := gen.TopoBehav(j.kind, exp)
		exp = ref.Eval(&ref.Input{Spec: s, Files: sourcesOf(s), Behav: bh})
		res := execSpec(c, root, s, Cfg{Buf: 128, Procs: 4, Crash: j.cp.Env()}, bh, false, 0)
		if res.Signal == "" {
			return
		}
		r2 := execSpec(c, root, s, Cfg{Buf: 128, Procs: 4}, bh, true, 1)
		desc := map[string]interface{}{"topology": j.kind, "gofunc": j.gof, "crash": j.cp, "history": "run killed inside a task's finalization, run again without cleanup", "spec": s, "rerun_exit": r2.Exit}
		if r2.Hang != "" {
			if strings.HasPrefix(r2.Hang, "deadlock") {
				c.Violation("hang-"+r2.Hang, "re-run on top of an interrupted run did not terminate: "+r2.Hang, desc)
			} else {
				c.Inconclusive("re-run: " + r2.Hang)
			}
			return
		}
		if !r2.Returned || r2.Exit != 0 {
			c.Count("reruns_refused_on_leftovers", 1)
			c.Nontrivial(fmt.Sprintf("interrupted-refused|%s|%v|%s#%d", j.kind, j.gof, j.cp.Point, j.cp.N))
			return
		}
		var ps []mon.Problem
		for _, l := range run.Snap(r2.Wd).Leftovers() {
			ps = append(ps, mon.Problem{Sig: "returned-with-tempdir-left", Msg: "Run returned (exit 0) and " + l + " exists"})
		}
		ps = append(ps, mon.FilesMatch(run.Snap(r2.Wd), exp, preSet(s))...)
		if len(ps) > 0 {
			for _, sig := range sigSet(ps) {
				desc["problems"] = mon.Summarize(ps, 10)
				c.Violation(sig, fmt.Sprintf("killed at %s, re-run without cleanup returned with exit 0: %s", j.cp.Point, strings.Join(mon.Summarize(ps, 4), "\n  ")), desc)
			}
			return
		}
		c.Count("reruns_completed_cleanly", 1)
	})
}

// c05componentRerun: history 'complete run, one intermediate output removed, run again' for workflows that gather
// through a Concatenator: the second Run returns only after the recomputed task is done and everything is final.
func c05componentRerun(c *chk.Ctx) {
	run.Parallel(c.Pick(4, 12), func(i int) {
		root := c.CaseDir()
		defer c.Drop(root)
		kind := []string{"concat", "concatgroup"}[i%2]
		s := gen.Topo(kind, gen.ShapePlain, i%4 >= 2, root, 3)
		exp := evalRef(s, nil)
		if exp.Err != "" {
			c.Broken("reference cannot evaluate " + s.Name + ": " + exp.Err)
		}
		cfg := Cfg{Buf: []int{128, 1}[i%2], Procs: 4}
		desc := map[string]interface{}{"topology": kind, "history": "complete run, one output of the first step removed, run again", "spec": s, "cfg": cfg}
		r1 := execSpec(c, root, s, cfg, nil, false, 0)
		if r1.Hang != "" || r1.Exit != 0 || !r1.Returned {
			if r1.Hang != "" && !strings.HasPrefix(r1.Hang, "deadlock") {
				c.Inconclusive(r1.Hang)
				return
			}
			c.Violation("exit-nonzero", fmt.Sprintf("first run: exit %d %s: %s", r1.Exit, r1.Hang, tail(r1.Output(), 400)), desc)
			return
		}
		victim := exp.ByProc["A"][i%len(exp.ByProc["A"])]
		for _, o := range victim.Outs {
			os.Remove(filepath.Join(r1.Wd, o))
			os.Remove(filepath.Join(r1.Wd, o+".audit.json"))
		}
		// the recomputed task is slow: whoever stops waiting for it returns early
		bh := vproto.Behaviours{victim.Key: {"sleep": "400"}}
		r2 := execSpec(c, root, s, cfg, bh, true, 1)
		if r2.Hang != "" {
			if strings.HasPrefix(r2.Hang, "deadlock") {
				c.Violation("hang-"+r2.Hang, "re-run did not terminate: "+r2.Hang, desc)
			} else {
				c.Inconclusive(r2.Hang)
			}
			return
		}
		var ps []mon.Problem
		if r2.Exit != 0 || !r2.Returned {
			ps = append(ps, mon.Problem{Sig: "exit-nonzero", Msg: fmt.Sprintf("re-run: exit %d: %s", r2.Exit, tail(r2.Output(), 400))})
		} else {
			ti := mon.Index(r2.Trace)
			for _, l := range r2.Ret.Listing {
				if strings.Contains(l.Path, "_scipipe_tmp") {
					ps = append(ps, mon.Problem{Sig: "early-return", Msg: "when Run returned " + l.Path + " existed"})
					break
				}
			}
			if len(r2.Ret.Children) > 0 {
				ps = append(ps, mon.Problem{Sig: "early-return", Msg: fmt.Sprintf("when Run returned %d child processes were alive", len(r2.Ret.Children))})
			}
			if len(ti.Starts[victim.Key]) != 1 || len(ti.Ends[victim.Key]) != 1 {
				ps = append(ps, mon.Problem{Sig: "early-return", Msg: "the task whose output was removed has not run to its end when the trace was read"})
			}
			for _, o := range victim.Outs {
				found := false
				for _, l := range r2.Ret.Listing {
					if l.Path == filepath.Clean(o) {
						found = true
					}
				}
				if !found {
					ps = append(ps, mon.Problem{Sig: "early-return", Msg: "when Run returned " + o + " was not at its final path"})
				}
			}
		}
		if len(ps) > 0 {
			for _, sig := range sigSet(ps) {
				desc["problems"] = mon.Summarize(ps, 10)
				c.Violation(sig, fmt.Sprintf("%s, re-run after removing an output of A: %s", kind, strings.Join(mon.Summarize(ps, 4), "\n  ")), desc)
			}
			return
		}
		c.Count("component_rerun_histories", 1)
		c.Nontrivial(fmt.Sprintf("comprerun|%s|%d", kind, i))
	})
}
