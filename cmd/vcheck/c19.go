package main

import (
	"fmt"
	"os"
	"path/filepath"
	"sort"
	"strings"

	"verif/internal/chk"
	"verif/internal/mon"
	"verif/internal/ref"
	"verif/internal/run"
	"verif/internal/spec"
)

func init() { checks["C19"] = c19 }

type c19Job struct {
	name   string
	s      *spec.Spec
	cfg    Cfg
	oracle func(res *run.Result, ti *mon.TraceIndex, exp *ref.Result) []mon.Problem
	label  string
}

func tuplesOf(ti *mon.TraceIndex, recs []string) ([]string, bool) {
	n := -1
	for _, r := range recs {
		l := len(ti.Recs[r])
		if n >= 0 && l != n {
			return nil, false
		}
		n = l
	}
	var out []string
	for i := 0; i < n; i++ {
		var t []string
		for _, r := range recs {
			t = append(t, ti.Recs[r][i].Path)
		}
		out = append(out, strings.Join(t, "|"))
	}
	return out, true
}

func product(lists [][]string) []string {
	out := []string{""}
	for i, l := range lists {
		var nxt []string
		for _, p := range out {
			for _, x := range l {
				if i == 0 {
					nxt = append(nxt, x)
				} else {
					nxt = append(nxt, p+"|"+x)
				}
			}
		}
		out = nxt
	}
	if len(lists) == 0 {
		return nil
	}
	return out
}

// eqList compares two lists element by element (an empty list differs from a list holding one empty string).
func eqList(a, b []string) bool {
	if len(a) != len(b) {
		return false
	}
	for i := range a {
		if a[i] != b[i] {
			return false
		}
	}
	return true
}

func sameMultiset(a, b []string) bool {
	if len(a) != len(b) {
		return false
	}
	x, y := append([]string{}, a...), append([]string{}, b...)
	sort.Strings(x)
	sort.Strings(y)
	return strings.Join(x, "\x00") == strings.Join(y, "\x00")
}

// partsExistWhenEmitted: the recorder behind the splitter stats every item at the moment it receives it.
func partsExistWhenEmitted(ti *mon.TraceIndex, rec string) []mon.Problem {
	var ps []mon.Problem
	for _, e := range ti.Recs[rec] {
		if !e.Exists {
			ps = append(ps, mon.Problem{Sig: "splitter-part-emitted-before-it-exists", Msg: e.Path + " was handed downstream before a file existed at that path"})
		}
	}
	return ps
}

func c19(args []string) {
	c := chk.New("C19", "exploration", args)
	c.Build(false)
	c.Rule("every bundled component is placed between sources and recorders / consuming tasks and compared with a reference function: FileCombinator and ParamCombinator with 1-4 ports and stream lengths 0..B+1 from independent upstreams (B in {1,3}) and 0..B from a shared upstream (parameter values include the empty string, a blank and values that occur twice in one stream) - the multiset of aligned tuples (i-th item of every out-port) must equal the Cartesian product, each once; IPSelectorSync with every predicate outcome pattern over up to 6 aligned tuples; FileSplitter over files of 0..12 lines (some lines 5 000 and 20 000 bytes long, percent signs and tabs in the text) (with and without trailing newline) x 1..5 lines per split - parts concatenate back to the input, no part longer than the limit; Concatenator (single upstream: exact arrival order; fan-in: arrival order as recorded; GroupByTag) - output == every input's content plus newline once in arrival order; FileSource / ParamSource / FileToParamsReader (incl. last line without newline, empty lines, lines that begin or end with blanks / tabs) / CommandToParams - emitted == given / read, in order; FileGlobber - emitted == an independent matcher over a generated directory tree, per pattern in lexical order (also several patterns of which some match nothing); the recorders stat every item on reception: what a file-emitting component hands downstream must exist at that moment (FileSplitter parts included); Concatenator over 150-210 inputs under a limit of 96 open files; Concatenator with GroupByTag over a stream mixing tagged and untagged files, and over tag values that differ in punctuation only (files identified through the emitted IPs); two or three FileSplitter processes at work at the same time on equally named files in different directories; FileSplitter history: one file split in a first run, then that file plus unsplit ones in a second run. distinct_nontrivial = distinct (component, shape) cases whose comparison was made on >= 1 emitted item or an empty expectation")
	c.Assume("unequal closing of IPSelectorSync inputs is a documented failure and is not generated", "a trailing empty part after an exact multiple of the line limit is legal")
	rng := c.Rand("c19")
	var jobs []*c19Job
	cfgOf := func(b int) Cfg {
		return Cfg{Buf: b, Procs: []int{1, 2, 4}[rng.Intn(3)], Sched: fmt.Sprintf("%d,300,400", rng.Intn(1<<30))}
	}
	ports4 := []string{"a", "b", "c", "d"}
	// ---- combinators
	for _, b := range []int{1, 3} {
		for k := 1; k <= 4; k++ {
			nshapes := c.Pick(4, 60)
			for sh := 0; sh < nshapes; sh++ {
				lens := make([]int, k)
				prod := 1
				for i := range lens {
					lens[i] = rng.Intn(b + 2)
					if sh == 0 {
						lens[i] = 1 + rng.Intn(b+1)
					}
					prod *= lens[i]
				}
				if prod > 3000 {
					continue
				}
				shared := sh%4 == 3
				for _, param := range []bool{false, true} {
					s := &spec.Spec{Name: "comb", MaxTasks: 4, Sources: map[string]string{}}
					comb := &spec.Proc{Name: "CB", Kind: spec.KFileComb, Ports: ports4[:k]}
					if param {
						comb.Kind = spec.KParamComb
					}
					var lists [][]string
					var recs []string
					if shared {
						n := lens[0]
						if n > b {
							n = b
						}
						var items []string
						if param {
							for i := 0; i < n; i++ {
								items = append(items, fmt.Sprintf("sv%d", i))
							}
							s.Procs = append(s.Procs, &spec.Proc{Name: "S", Kind: spec.KParamSource, Values: items})
						} else {
							src := &spec.Proc{Name: "S", Kind: spec.KFileSource}
							for i := 0; i < n; i++ {
								f := fmt.Sprintf("sh_%d.txt", i)
								src.Files = append(src.Files, f)
								s.Sources[f] = f
								items = append(items, f)
							}
							s.Procs = append(s.Procs, src)
						}
						for _, pt := range ports4[:k] {
							s.Conns = append(s.Conns, &spec.Conn{From: "S.out", To: "CB." + pt, Param: param})
							lists = append(lists, items)
						}
					} else {
						for i, pt := range ports4[:k] {
							var items []string
							sn := "S" + pt
							if param {
								for x := 0; x < lens[i]; x++ {
									items = append(items, fmt.Sprintf("%s%d", pt, x))
								}
								if sh%3 == 1 && len(items) > 0 {
									// a parameter value may be the empty string (an optional flag) or blank: it is a value like any other
									items[(sh+i)%len(items)] = []string{"", " ", ""}[(sh/3+i)%3]
								}
								if sh%3 == 2 && len(items) >= 3 {
									// a value that occurs twice in a stream is two values
									items[2] = items[0]
								}
								s.Procs = append(s.Procs, &spec.Proc{Name: sn, Kind: spec.KParamSource, Values: items})
							} else {
								src := &spec.Proc{Name: sn, Kind: spec.KFileSource}
								for x := 0; x < lens[i]; x++ {
									f := fmt.Sprintf("%s_%d.txt", pt, x)
									src.Files = append(src.Files, f)
									s.Sources[f] = f
									items = append(items, f)
								}
								s.Procs = append(s.Procs, src)
							}
							s.Conns = append(s.Conns, &spec.Conn{From: sn + ".out", To: "CB." + pt, Param: param})
							lists = append(lists, items)
						}
					}
					s.Procs = append(s.Procs, comb)
					for _, pt := range ports4[:k] {
						rn := "R" + pt
						kind := spec.KRecorder
						if param {
							kind = spec.KParamRec
						}
						s.Procs = append(s.Procs, &spec.Proc{Name: rn, Kind: kind})
						s.Conns = append(s.Conns, &spec.Conn{From: "CB." + pt, To: rn + ".in", Param: param})
						recs = append(recs, rn)
					}
					want := product(lists)
					name := "FileCombinator"
					if param {
						name = "ParamCombinator"
					}
					ll := lists
					jobs = append(jobs, &c19Job{name: name, s: s, cfg: cfgOf(b), label: fmt.Sprintf("%d ports, lengths %v, shared upstream %v, buffer %d", k, lens, shared, b),
						oracle: func(res *run.Result, ti *mon.TraceIndex, exp *ref.Result) []mon.Problem {
							got, ok := tuplesOf(ti, recs)
							if !ok {
								var ls []int
								for _, r := range recs {
									ls = append(ls, len(ti.Recs[r]))
								}
								return []mon.Problem{{Sig: "combinator-outports-unaligned", Msg: fmt.Sprintf("out-ports emitted %v items for input lengths %d; expected %d aligned tuples each", ls, len(ll), len(want))}}
							}
							if !sameMultiset(got, want) {
								return []mon.Problem{{Sig: "combinator-not-cartesian-product", Msg: fmt.Sprintf("aligned tuples %v, Cartesian product %v", clipList(got, 12), clipList(want, 12))}}
							}
							return nil
						}})
				}
			}
		}
	}
	// ---- selector: every outcome pattern
	for k := 1; k <= 3; k++ {
		for n := 0; n <= c.Pick(4, 7); n++ {
			for mask := 0; mask < 1<<uint(n); mask++ {
				if !c.Thorough() && (mask+k+n)%3 != 0 {
					continue
				}
				s := &spec.Spec{Name: "sel", MaxTasks: 4, Sources: map[string]string{}}
				var recs, inrecs []string
				var want []string
				rows := make([][]string, n)
				for pi, pt := range ports4[:k] {
					src := &spec.Proc{Name: "S" + pt, Kind: spec.KFileSource}
					for i := 0; i < n; i++ {
						f := fmt.Sprintf("%s_%d.txt", pt, i)
						if mask&(1<<uint(i)) == 0 && pi == i%k {
							f = fmt.Sprintf("%s_%d_bad.txt", pt, i)
						}
						src.Files = append(src.Files, f)
						s.Sources[f] = f
						rows[i] = append(rows[i], f)
					}
					s.Procs = append(s.Procs, src, &spec.Proc{Name: "R" + pt, Kind: spec.KRecorder})
					s.Conns = append(s.Conns, &spec.Conn{From: "S" + pt + ".out", To: "SEL." + pt}, &spec.Conn{From: "SEL." + pt, To: "R" + pt + ".in"})
					recs = append(recs, "R"+pt)
				}
				_ = inrecs
				for i := 0; i < n; i++ {
					if mask&(1<<uint(i)) != 0 {
						want = append(want, strings.Join(rows[i], "|"))
					}
				}
				s.Procs = append(s.Procs, &spec.Proc{Name: "SEL", Kind: spec.KSelector, Ports: ports4[:k], Pred: "notcontains:bad"})
				w := want
				jobs = append(jobs, &c19Job{name: "IPSelectorSync", s: s, cfg: cfgOf([]int{1, 3}[mask%2]), label: fmt.Sprintf("%d ports, %d tuples, keep mask %b", k, n, mask),
					oracle: func(res *run.Result, ti *mon.TraceIndex, exp *ref.Result) []mon.Problem {
						got, ok := tuplesOf(ti, recs)
						if !ok || !eqList(got, w) {
							return []mon.Problem{{Sig: "selector-wrong-tuples", Msg: fmt.Sprintf("forwarded tuples %v (aligned %v), expected %v", got, ok, w)}}
						}
						return nil
					}})
			}
		}
	}
	// ---- splitter
	for nl := 0; nl <= 12; nl++ {
		for per := 1; per <= 5; per++ {
			for _, trailing := range []bool{true, false} {
				if !c.Thorough() && (nl+per)%2 == 1 && nl%per != 0 {
					continue
				}
				var sb strings.Builder
				for i := 0; i < nl; i++ {
					fmt.Fprintf(&sb, "line %d of %d", i, nl)
					switch {
					case i == 1 && (nl+per)%3 == 0:
						sb.WriteString(" " + strings.Repeat("L", 5000)) // a line longer than a 4 KiB read buffer
					case i == 2 && nl%4 == 0:
						sb.WriteString(" " + strings.Repeat("M", 20000))
					case i%5 == 3:
						sb.WriteString(" 100% of %s\t%d tabs\tand percent signs")
					}
					if i < nl-1 || trailing {
						sb.WriteString("\n")
					}
				}
				content := sb.String()
				// the file to split lies in the working directory, in a sub-directory, or beside the working directory
				big := []string{"big.txt", "sub/dir/big.txt", "../up/big.txt"}[(nl+per)%3]
				s := &spec.Spec{Name: "split", MaxTasks: 2, Sources: map[string]string{big: content}}
				s.Procs = append(s.Procs, &spec.Proc{Name: "S", Kind: spec.KFileSource, Files: []string{big}}, &spec.Proc{Name: "SP", Kind: spec.KSplitter, Lines: per}, &spec.Proc{Name: "R", Kind: spec.KRecorder})
				s.Conns = append(s.Conns, &spec.Conn{From: "S.out", To: "SP.file"}, &spec.Conn{From: "SP.split_file", To: "R.in"})
				per := per
				jobs = append(jobs, &c19Job{name: "FileSplitter", s: s, cfg: cfgOf(3), label: fmt.Sprintf("%d lines, %d per split, trailing newline %v", nl, per, trailing),
					oracle: func(res *run.Result, ti *mon.TraceIndex, exp *ref.Result) []mon.Problem {
						var ps []mon.Problem
						var cat strings.Builder
						for _, p := range recPaths(ti, "R") {
							b, err := os.ReadFile(filepath.Join(res.Wd, p))
							if err != nil {
								ps = append(ps, mon.Problem{Sig: "splitter-part-missing", Msg: p + " was emitted but does not exist"})
								continue
							}
							if n := strings.Count(string(b), "\n"); n > per {
								ps = append(ps, mon.Problem{Sig: "splitter-part-too-long", Msg: fmt.Sprintf("%s has %d lines, limit %d", p, n, per)})
							}
							cat.Write(b)
						}
						want := content
						if want != "" && !strings.HasSuffix(want, "\n") {
							want += "\n"
						}
						if cat.String() != want {
							ps = append(ps, mon.Problem{Sig: "splitter-parts-do-not-concatenate-to-input", Msg: fmt.Sprintf("parts %v concatenate to %q, input is %q", recPaths(ti, "R"), clip(cat.String(), 200), clip(want, 200))})
						}
						return ps
					}})
			}
		}
	}
	// ---- concatenator
	// ---- concatenator grouping by a tag on a stream that mixes tagged and untagged files: tagged files go to
	// <out>.<tag>_<value>, untagged ones to <out> itself, each in arrival order
	for n := 1; n <= c.Pick(4, 8); n++ {
		for rep := 0; rep < c.Pick(2, 4); rep++ {
			s := &spec.Spec{Name: "concatmixed", MaxTasks: 4, Sources: map[string]string{}}
			for u := 0; u < 2; u++ {
				src := &spec.Proc{Name: fmt.Sprintf("S%d", u), Kind: spec.KFileSource}
				for i := 0; i < n; i++ {
					f := fmt.Sprintf("x%d_%d.txt", u, i)
					src.Files = append(src.Files, f)
					s.Sources[f] = fmt.Sprintf("content of %s\nsecond line", f)
				}
				s.Procs = append(s.Procs, src)
			}
			s.Procs = append(s.Procs, &spec.Proc{Name: "RT", Kind: spec.KRecorder}, &spec.Proc{Name: "RU", Kind: spec.KRecorder, DelayMS: rep % 2},
				&spec.Proc{Name: "T", Kind: spec.KMapToTags, Tags: []*spec.TagRule{{Key: "grp", Rule: "idx"}}},
				&spec.Proc{Name: "CC", Kind: spec.KConcat, OutPath: "all/mixed.txt", GroupBy: "grp"}, &spec.Proc{Name: "ROUT", Kind: spec.KRecorder})
			s.Conns = append(s.Conns, &spec.Conn{From: "S0.out", To: "RT.in"}, &spec.Conn{From: "RT.out", To: "T.in"}, &spec.Conn{From: "T.out", To: "CC.in"},
				&spec.Conn{From: "S1.out", To: "RU.in"}, &spec.Conn{From: "RU.out", To: "CC.in"}, &spec.Conn{From: "CC.out", To: "ROUT.in"})
			src := s.Sources
			jobs = append(jobs, &c19Job{name: "Concatenator", s: s, cfg: cfgOf([]int{1, 3}[n%2]), label: fmt.Sprintf("%d tagged + %d untagged items on one port, group by tag (%d)", n, n, rep),
				oracle: func(res *run.Result, ti *mon.TraceIndex, exp *ref.Result) []mon.Problem {
					want := map[string]string{"all/mixed.txt": ""}
					for _, p := range recPaths(ti, "RU") {
						want["all/mixed.txt"] += src[p] + "\n"
					}
					for _, p := range recPaths(ti, "RT") {
						want[fmt.Sprintf("all/mixed.txt.grp_%s", ref.TagValue("idx", p))] += src[p] + "\n"
					}
					var ps []mon.Problem
					var wk []string
					for p, w := range want {
						wk = append(wk, p)
						b, err := os.ReadFile(filepath.Join(res.Wd, p))
						if err != nil {
							ps = append(ps, mon.Problem{Sig: "concatenator-output-missing", Msg: p})
						} else if string(b) != w {
							ps = append(ps, mon.Problem{Sig: "concatenator-content", Msg: fmt.Sprintf("%s = %q, its inputs in arrival order give %q", p, clip(string(b), 300), clip(w, 300))})
						}
					}
					if !sameMultiset(recPaths(ti, "ROUT"), wk) {
						ps = append(ps, mon.Problem{Sig: "concatenator-emitted", Msg: fmt.Sprintf("emitted %v, expected %v", recPaths(ti, "ROUT"), wk)})
					}
					return ps
				}})
		}
	}
	// many inputs under a low limit of open files (the component reads file after file; it needs no more descriptors
	// for 150 inputs than for 2)
	for rep := 0; rep < c.Pick(2, 4); rep++ {
		s := &spec.Spec{Name: "concatmany", MaxTasks: 2, Sources: map[string]string{}}
		src := &spec.Proc{Name: "S", Kind: spec.KFileSource}
		n := 150 + 30*rep
		want := ""
		for k := 0; k < n; k++ {
			f := fmt.Sprintf("many/m%03d.txt", k)
			src.Files = append(src.Files, f)
			s.Sources[f] = fmt.Sprintf("content %d", k)
			want += s.Sources[f] + "\n"
		}
		cc := &spec.Proc{Name: "CC", Kind: spec.KConcat, OutPath: "all/many.txt"}
		s.Procs = append(s.Procs, src, cc, &spec.Proc{Name: "ROUT", Kind: spec.KRecorder})
		if rep%2 == 1 {
			cc.GroupBy = "grp"
			s.Procs = append(s.Procs, &spec.Proc{Name: "T", Kind: spec.KMapToTags, Tags: []*spec.TagRule{{Key: "grp", Rule: "const:one"}}})
			s.Conns = append(s.Conns, &spec.Conn{From: "S.out", To: "T.in"}, &spec.Conn{From: "T.out", To: "CC.in"}, &spec.Conn{From: "CC.out", To: "ROUT.in"})
		} else {
			s.Conns = append(s.Conns, &spec.Conn{From: "S.out", To: "CC.in"}, &spec.Conn{From: "CC.out", To: "ROUT.in"})
		}
		w, grouped := want, rep%2 == 1
		jobs = append(jobs, &c19Job{name: "Concatenator", s: s, cfg: Cfg{Buf: 3, Procs: 2, NoFile: 96, NoHooks: true}, label: fmt.Sprintf("%d inputs with at most 96 open files, group by tag %v", n, grouped),
			oracle: func(res *run.Result, ti *mon.TraceIndex, exp *ref.Result) []mon.Problem {
				p := "all/many.txt"
				if grouped {
					p = "all/many.txt.grp_one"
				}
				b, err := os.ReadFile(filepath.Join(res.Wd, p))
				if err != nil || string(b) != w {
					return []mon.Problem{{Sig: "concatenator-content", Msg: fmt.Sprintf("%s holds %d bytes, the inputs in order give %d (%v)", p, len(b), len(w), err)}}
				}
				return nil
			}})
	}
	// GroupByTag with tag values that differ in punctuation only (1.5 / 1_5 / 1-5): one output per value. The files are
	// identified through the emitted IPs, not through their names.
	for rep := 0; rep < c.Pick(2, 6); rep++ {
		s := &spec.Spec{Name: "concatpunct", MaxTasks: 4, Sources: map[string]string{}}
		src := &spec.Proc{Name: "S", Kind: spec.KFileSource}
		vals := [][]string{{"r1.5", "r1_5", "r1-5", "r15"}, {"a.b", "a_b", "a__b", "a.b.c", "a_b_c"}, {"x-1", "x_1", "x.1"}}[rep%3]
		for k := 0; k < 2*len(vals); k++ {
			f := fmt.Sprintf("d%d/%s.txt", k/len(vals), vals[(k*3+rep)%len(vals)])
			src.Files = append(src.Files, f)
			s.Sources[f] = "content of " + f + "\n2nd"
		}
		s.Procs = append(s.Procs, src, &spec.Proc{Name: "RIN", Kind: spec.KRecorder}, &spec.Proc{Name: "T", Kind: spec.KMapToTags, Tags: []*spec.TagRule{{Key: "grp", Rule: "noext"}}},
			&spec.Proc{Name: "CC", Kind: spec.KConcat, OutPath: "all/punct.txt", GroupBy: "grp"}, &spec.Proc{Name: "ROUT", Kind: spec.KRecorder})
		s.Conns = append(s.Conns, &spec.Conn{From: "S.out", To: "RIN.in"}, &spec.Conn{From: "RIN.out", To: "T.in"}, &spec.Conn{From: "T.out", To: "CC.in"}, &spec.Conn{From: "CC.out", To: "ROUT.in"})
		srcs := s.Sources
		jobs = append(jobs, &c19Job{name: "Concatenator", s: s, cfg: cfgOf([]int{1, 3}[rep%2]), label: fmt.Sprintf("group by tag, values differing in punctuation only %v", vals),
			oracle: func(res *run.Result, ti *mon.TraceIndex, exp *ref.Result) []mon.Problem {
				want := map[string]string{}
				for _, p := range recPaths(ti, "RIN") {
					want[ref.TagValue("noext", p)] += srcs[p] + "\n"
				}
				var wantC, gotC []string
				for _, w := range want {
					wantC = append(wantC, w)
				}
				var ps []mon.Problem
				seen := map[string]bool{}
				for _, p := range recPaths(ti, "ROUT") {
					if seen[p] {
						ps = append(ps, mon.Problem{Sig: "concatenator-emitted", Msg: "the same file was emitted twice: " + p})
						continue
					}
					seen[p] = true
					b, err := os.ReadFile(filepath.Join(res.Wd, p))
					if err != nil {
						ps = append(ps, mon.Problem{Sig: "concatenator-output-missing", Msg: p})
						continue
					}
					if len(b) > 0 {
						gotC = append(gotC, string(b))
					}
				}
				if !sameMultiset(gotC, wantC) {
					ps = append(ps, mon.Problem{Sig: "concatenator-content", Msg: fmt.Sprintf("the emitted files hold %q; one file per tag value with its inputs in arrival order gives %q", gotC, wantC)})
				}
				return ps
			}})
	}
	for _, fanin := range []bool{false, true} {
		for n := 0; n <= c.Pick(4, 12); n++ {
			for _, group := range []bool{false, true} {
				s := &spec.Spec{Name: "concat", MaxTasks: 4, Sources: map[string]string{}}
				nsrc := 1
				if fanin {
					nsrc = 2
				}
				for u := 0; u < nsrc; u++ {
					src := &spec.Proc{Name: fmt.Sprintf("S%d", u), Kind: spec.KFileSource}
					for i := 0; i < n; i++ {
						f := fmt.Sprintf("c%d_%d.txt", u, i)
						src.Files = append(src.Files, f)
						s.Sources[f] = fmt.Sprintf("content of %s\nsecond line", f)
						if i%3 == 1 {
							s.Sources[f] += " 97% done, %s %d %v\ttab" // contents are data, not format strings
						}
						if i == 2 && u == 0 {
							s.Sources[f] += "\n" + strings.Repeat("0123456789abcdef", 4500) // 72 kB: more than one read of any fixed-size buffer
						}
					}
					s.Procs = append(s.Procs, src)
					s.Conns = append(s.Conns, &spec.Conn{From: src.Name + ".out", To: "RIN.in"})
				}
				s.Procs = append(s.Procs, &spec.Proc{Name: "RIN", Kind: spec.KRecorder})
				last := "RIN.out"
				if group {
					s.Procs = append(s.Procs, &spec.Proc{Name: "T", Kind: spec.KMapToTags, Tags: []*spec.TagRule{{Key: "grp", Rule: "idx"}}})
					s.Conns = append(s.Conns, &spec.Conn{From: last, To: "T.in"})
					last = "T.out"
				}
				cc := &spec.Proc{Name: "CC", Kind: spec.KConcat, OutPath: "all/concat.txt"}
				if group {
					cc.GroupBy = "grp"
				}
				s.Procs = append(s.Procs, cc, &spec.Proc{Name: "ROUT", Kind: spec.KRecorder})
				s.Conns = append(s.Conns, &spec.Conn{From: last, To: "CC.in"}, &spec.Conn{From: "CC.out", To: "ROUT.in"})
				src := s.Sources
				group := group
				jobs = append(jobs, &c19Job{name: "Concatenator", s: s, cfg: cfgOf([]int{1, 3}[n%2]), label: fmt.Sprintf("%d items per upstream, fan-in %v, group by tag %v", n, fanin, group),
					oracle: func(res *run.Result, ti *mon.TraceIndex, exp *ref.Result) []mon.Problem {
						arrived := recPaths(ti, "RIN")
						want := map[string]string{"all/concat.txt": ""}
						for _, p := range arrived {
							key := "all/concat.txt"
							if group {
								key = fmt.Sprintf("all/concat.txt.grp_%s", ref.TagValue("idx", p))
							}
							want[key] += src[p] + "\n"
						}
						var ps []mon.Problem
						for p, w := range want {
							b, err := os.ReadFile(filepath.Join(res.Wd, p))
							if err != nil {
								ps = append(ps, mon.Problem{Sig: "concatenator-output-missing", Msg: p})
								continue
							}
							if string(b) != w {
								ps = append(ps, mon.Problem{Sig: "concatenator-content", Msg: fmt.Sprintf("%s = %q, inputs in arrival order give %q", p, clip(string(b), 300), clip(w, 300))})
							}
						}
						var wk []string
						for p := range want {
							wk = append(wk, p)
						}
						if !sameMultiset(recPaths(ti, "ROUT"), wk) {
							ps = append(ps, mon.Problem{Sig: "concatenator-emitted", Msg: fmt.Sprintf("emitted %v, expected %v", recPaths(ti, "ROUT"), wk)})
						}
						return ps
					}})
			}
		}
	}
	// ---- sources
	for _, n := range []int{0, 1, 3, 5} {
		var files, vals []string
		s := &spec.Spec{Name: "sources", MaxTasks: 2, Sources: map[string]string{}}
		for i := 0; i < n; i++ {
			f := fmt.Sprintf("d%d/f_%d.txt", i%2, n-i)
			files = append(files, f)
			s.Sources[f] = f
			vals = append(vals, fmt.Sprintf("v%d", n-i))
			if i == 1 && n >= 3 {
				// a given path at which no file exists (yet): a source emits what it was given
				files = append(files, fmt.Sprintf("later/notyet_%d.txt", n))
			}
		}
		s.Procs = append(s.Procs, &spec.Proc{Name: "FS", Kind: spec.KFileSource, Files: files}, &spec.Proc{Name: "RF", Kind: spec.KRecorder},
			&spec.Proc{Name: "PS", Kind: spec.KParamSource, Values: vals}, &spec.Proc{Name: "RP", Kind: spec.KParamRec})
		s.Conns = append(s.Conns, &spec.Conn{From: "FS.out", To: "RF.in"}, &spec.Conn{From: "PS.out", To: "RP.in", Param: true})
		jobs = append(jobs, &c19Job{name: "FileSource+ParamSource", s: s, cfg: cfgOf(1), label: fmt.Sprintf("%d items", n),
			oracle: func(res *run.Result, ti *mon.TraceIndex, exp *ref.Result) []mon.Problem {
				var ps []mon.Problem
				if !eqList(recPaths(ti, "RF"), files) {
					ps = append(ps, mon.Problem{Sig: "filesource-emitted", Msg: fmt.Sprintf("emitted %v, given %v", recPaths(ti, "RF"), files)})
				}
				if !eqList(recPaths(ti, "RP"), vals) {
					ps = append(ps, mon.Problem{Sig: "paramsource-emitted", Msg: fmt.Sprintf("emitted %v, given %v", recPaths(ti, "RP"), vals)})
				}
				return ps
			}})
	}
	// ---- FileToParamsReader / CommandToParams
	lineSets := [][]string{{}, {"one"}, {"a", "b", "c"}, {"x1", "", "x3"}, {"p-q", "r.s", "t_u", "v", "w"},
		// records with empty first / last columns and padded values: white space at the ends of a line is data
		{"\tb\tc", "a\tb\t", " padded ", "in  ner", "  "}}
	for li, lines := range lineSets {
		for _, trailing := range []bool{true, false} {
			content := strings.Join(lines, "\n")
			if trailing && len(lines) > 0 {
				content += "\n"
			}
			want := append([]string{}, lines...)
			if !trailing && len(lines) > 0 && lines[len(lines)-1] == "" {
				want = want[:len(want)-1]
			}
			s := &spec.Spec{Name: "readers", MaxTasks: 2, Sources: map[string]string{"params.txt": content}}
			s.Procs = append(s.Procs, &spec.Proc{Name: "FR", Kind: spec.KFileParams, File: "params.txt", Values: want}, &spec.Proc{Name: "R1", Kind: spec.KParamRec},
				&spec.Proc{Name: "CP", Kind: spec.KCmdParams, Shell: "cat params.txt", Values: want}, &spec.Proc{Name: "R2", Kind: spec.KParamRec})
			s.Conns = append(s.Conns, &spec.Conn{From: "FR.line", To: "R1.in", Param: true}, &spec.Conn{From: "CP.param", To: "R2.in", Param: true})
			w := want
			jobs = append(jobs, &c19Job{name: "FileToParamsReader+CommandToParams", s: s, cfg: cfgOf(1 + li%3), label: fmt.Sprintf("lines %q, trailing newline %v", lines, trailing),
				oracle: func(res *run.Result, ti *mon.TraceIndex, exp *ref.Result) []mon.Problem {
					var ps []mon.Problem
					if !eqList(recPaths(ti, "R1"), w) {
						ps = append(ps, mon.Problem{Sig: "filetoparamsreader-emitted", Msg: fmt.Sprintf("emitted %q, file has lines %q", recPaths(ti, "R1"), w)})
					}
					if !eqList(recPaths(ti, "R2"), w) {
						ps = append(ps, mon.Problem{Sig: "commandtoparams-emitted", Msg: fmt.Sprintf("emitted %q, command printed lines %q", recPaths(ti, "R2"), w)})
					}
					return ps
				}})
		}
	}
	// ---- globber
	tree := []string{"g/a.txt", "g/b.txt", "g/ab.txt", "g/a.dat", "g/sub/a.txt", "g/sub/c.txt", "g/sub/deep/a.txt", "g/sub/deep/b.dat", "g/sab/x.txt", "h/a.txt", "g/.hidden.txt"}
	pats := [][]string{{"g/*.txt"}, {"g/?.txt"}, {"g/[ab].txt"}, {"g/*/a.txt"}, {"g/s*/*.txt"}, {"g/*/*/*"}, {"g/a.*", "h/*"}, {"g/nomatch*"}, {"*/a.txt"}, {"g/sub/deep/?.???"},
		// several patterns of which one in the middle, the last or the first matches nothing
		{"g/*.txt", "g/nomatch*", "h/*"}, {"g/?.txt", "zzz/*"}, {"nothing/here*", "g/[ab].txt", "also/nothing*", "g/s*/*.txt"}}
	for pi, ps := range pats {
		s := &spec.Spec{Name: "glob", MaxTasks: 2, Sources: map[string]string{}}
		for _, f := range tree {
			s.Sources[f] = f
		}
		s.Procs = append(s.Procs, &spec.Proc{Name: "GL", Kind: spec.KGlobber, Files: ps}, &spec.Proc{Name: "R", Kind: spec.KRecorder})
		s.Conns = append(s.Conns, &spec.Conn{From: "GL.out", To: "R.in"})
		pp := ps
		jobs = append(jobs, &c19Job{name: "FileGlobber", s: s, cfg: cfgOf(1 + pi%3), label: fmt.Sprintf("patterns %v", ps),
			oracle: func(res *run.Result, ti *mon.TraceIndex, exp *ref.Result) []mon.Problem {
				var want []string
				sorted := append([]string{}, tree...)
				sort.Strings(sorted)
				for _, p := range pp {
					for _, f := range sorted {
						if ref.GlobMatch(p, f) {
							want = append(want, f)
						}
					}
				}
				if !eqList(recPaths(ti, "R"), want) {
					return []mon.Problem{{Sig: "globber-emitted", Msg: fmt.Sprintf("patterns %v emitted %v, matching files are %v", pp, recPaths(ti, "R"), want)}}
				}
				return nil
			}})
	}
	// ---- combinators feeding one process that takes one value from every port per task (more tuples than buffer slots)
	for _, param := range []bool{true, false} {
		for _, b := range []int{1, 3} {
			la, lb := 3, 4
			s := &spec.Spec{Name: "combconsumer", MaxTasks: 4, Sources: map[string]string{}}
			comb := &spec.Proc{Name: "CB", Kind: spec.KFileComb, Ports: []string{"a", "b"}}
			var cons *spec.Proc
			if param {
				comb.Kind = spec.KParamComb
				var va, vb []string
				for i := 0; i < la; i++ {
					va = append(va, fmt.Sprintf("a%d", i))
				}
				for i := 0; i < lb; i++ {
					vb = append(vb, fmt.Sprintf("b%d", i))
				}
				s.Procs = append(s.Procs, &spec.Proc{Name: "SA", Kind: spec.KParamSource, Values: va}, &spec.Proc{Name: "SB", Kind: spec.KParamSource, Values: vb})
				cons = &spec.Proc{Name: "use", Kind: spec.KCmd, Cmd: spec.BuildCmd("use", nil, []spec.PortDecl{{Name: "out"}}, []string{"a", "b"}, nil, nil), Outs: []*spec.Out{{Port: "out", Pattern: "use_{p:a}_{p:b}.out"}}}
			} else {
				for _, pt := range []string{"A", "B"} {
					src := &spec.Proc{Name: "S" + pt, Kind: spec.KFileSource}
					n := map[string]int{"A": la, "B": lb}[pt]
					for i := 0; i < n; i++ {
						f := fmt.Sprintf("cc_%s%d.txt", pt, i)
						src.Files = append(src.Files, f)
						s.Sources[f] = f
					}
					s.Procs = append(s.Procs, src)
				}
				cons = &spec.Proc{Name: "use", Kind: spec.KCmd, Cmd: spec.BuildCmd("use", []spec.PortDecl{{Name: "a"}, {Name: "b"}}, []spec.PortDecl{{Name: "out"}}, nil, nil, nil)}
			}
			s.Procs = append(s.Procs, comb, cons)
			s.Conns = append(s.Conns, &spec.Conn{From: "SA.out", To: "CB.a", Param: param}, &spec.Conn{From: "SB.out", To: "CB.b", Param: param},
				&spec.Conn{From: "CB.a", To: "use.a", Param: param}, &spec.Conn{From: "CB.b", To: "use.b", Param: param})
			name := "FileCombinator"
			if param {
				name = "ParamCombinator"
			}
			want := la * lb
			jobs = append(jobs, &c19Job{name: name, s: s, cfg: Cfg{Buf: b, Procs: 2, SoftSec: 8, NoHooks: true}, label: fmt.Sprintf("3x4 tuples consumed by one process, buffer %d", b),
				oracle: func(res *run.Result, ti *mon.TraceIndex, exp *ref.Result) []mon.Problem {
					if len(ti.Starts) != want {
						return []mon.Problem{{Sig: "combinator-not-cartesian-product", Msg: fmt.Sprintf("the consuming process ran %d distinct tasks, the product has %d tuples", len(ti.Starts), want)}}
					}
					return nil
				}})
		}
	}
	// ---- dependent globber: globs only after the whole dependency stream has passed
	for _, n := range []int{1, 2, 6} {
		for rep := 0; rep < c.Pick(2, 6); rep++ {
			s := &spec.Spec{Name: "depglob", MaxTasks: 4, Sources: map[string]string{}}
			var vals, want []string
			for i := 0; i < n; i++ {
				vals = append(vals, fmt.Sprintf("%d", i))
				want = append(want, fmt.Sprintf("made/f_%d.txt", i))
			}
			mk := &spec.Proc{Name: "maker", Kind: spec.KCmd, Cmd: spec.BuildCmd("maker", nil, []spec.PortDecl{{Name: "out"}}, []string{"i"}, nil, map[string]string{"sleep": "25"}),
				Outs: []*spec.Out{{Port: "out", Pattern: "made/f_{p:i}.txt"}}, Feeds: []*spec.Feed{{Port: "i", How: "int", Values: vals}}}
			s.Procs = append(s.Procs, mk, &spec.Proc{Name: "GL", Kind: spec.KGlobber, Files: []string{"made/f_*.txt"}, DepIn: true}, &spec.Proc{Name: "R", Kind: spec.KRecorder})
			s.Conns = append(s.Conns, &spec.Conn{From: "maker.out", To: "GL.in_dep"}, &spec.Conn{From: "GL.out", To: "R.in"})
			s.MaxTasks = 1 + rep%2
			w := want
			jobs = append(jobs, &c19Job{name: "FileGlobberDependent", s: s, cfg: cfgOf(1 + rep%3), label: fmt.Sprintf("%d upstream files, max %d", n, s.MaxTasks),
				oracle: func(res *run.Result, ti *mon.TraceIndex, exp *ref.Result) []mon.Problem {
					if !eqList(recPaths(ti, "R"), w) {
						return []mon.Problem{{Sig: "globber-emitted", Msg: fmt.Sprintf("dependent globber emitted %v, the upstream process made %v", recPaths(ti, "R"), w)}}
					}
					return nil
				}})
		}
	}
	// ---- splitter fed several files: parts in input order, file after file
	for _, nf := range []int{2, 3} {
		for per := 1; per <= 3; per++ {
			s := &spec.Spec{Name: "multisplit", MaxTasks: 2, Sources: map[string]string{}}
			src := &spec.Proc{Name: "S", Kind: spec.KFileSource}
			var want []string
			for f := 0; f < nf; f++ {
				name := fmt.Sprintf("ms%d.txt", f)
				nl := 2 + f + per
				var sb strings.Builder
				for l := 0; l < nl; l++ {
					fmt.Fprintf(&sb, "%s line %d\n", name, l)
				}
				s.Sources[name] = sb.String()
				src.Files = append(src.Files, name)
				for k := 0; k <= nl/per; k++ {
					want = append(want, fmt.Sprintf("%s.split_%d", name, k+1))
				}
			}
			s.Procs = append(s.Procs, src, &spec.Proc{Name: "SP", Kind: spec.KSplitter, Lines: per}, &spec.Proc{Name: "R", Kind: spec.KRecorder})
			s.Conns = append(s.Conns, &spec.Conn{From: "S.out", To: "SP.file"}, &spec.Conn{From: "SP.split_file", To: "R.in"})
			w := want
			srcs := s.Sources
			jobs = append(jobs, &c19Job{name: "FileSplitter", s: s, cfg: cfgOf(1 + per%3), label: fmt.Sprintf("%d input files, %d lines per split", nf, per),
				oracle: func(res *run.Result, ti *mon.TraceIndex, exp *ref.Result) []mon.Problem {
					got := recPaths(ti, "R")
					if ps := partsExistWhenEmitted(ti, "R"); len(ps) > 0 {
						return ps
					}
					if !eqList(got, w) {
						return []mon.Problem{{Sig: "splitter-emission-order", Msg: fmt.Sprintf("parts emitted as %v, expected %v (file after file, part after part)", got, w)}}
					}
					cat := map[string]string{}
					for _, p := range got {
						b, _ := os.ReadFile(filepath.Join(res.Wd, p))
						cat[p[:strings.Index(p, ".split_")]] += string(b)
					}
					for f, content := range srcs {
						if cat[f] != content {
							return []mon.Problem{{Sig: "splitter-parts-do-not-concatenate-to-input", Msg: "parts of " + f + " do not concatenate back to it"}}
						}
					}
					return nil
				}})
		}
	}
	// two (three) splitter processes at work at the same time on files that have the same base name in different directories
	for rep := 0; rep < c.Pick(3, 9); rep++ {
		nsp := 2 + rep%2
		per := 1 + rep%3
		nl := []int{30, 7, 200}[rep%3]
		s := &spec.Spec{Name: "splitpar", MaxTasks: 4, Sources: map[string]string{}}
		want := map[string][]string{}
		for k := 0; k < nsp; k++ {
			name := fmt.Sprintf("sample%c/reads.txt", 'A'+k)
			var sb strings.Builder
			for l := 0; l < nl+k; l++ {
				fmt.Fprintf(&sb, "%s line %d\n", name, l)
			}
			s.Sources[name] = sb.String()
			rn := fmt.Sprintf("R%d", k)
			for x := 0; x <= (nl+k)/per; x++ {
				want[rn] = append(want[rn], fmt.Sprintf("%s.split_%d", name, x+1))
			}
			s.Procs = append(s.Procs, &spec.Proc{Name: fmt.Sprintf("S%d", k), Kind: spec.KFileSource, Files: []string{name}},
				&spec.Proc{Name: fmt.Sprintf("SP%d", k), Kind: spec.KSplitter, Lines: per}, &spec.Proc{Name: rn, Kind: spec.KRecorder})
			s.Conns = append(s.Conns, &spec.Conn{From: fmt.Sprintf("S%d.out", k), To: fmt.Sprintf("SP%d.file", k)}, &spec.Conn{From: fmt.Sprintf("SP%d.split_file", k), To: rn + ".in"})
		}
		srcs := s.Sources
		jobs = append(jobs, &c19Job{name: "FileSplitter", s: s, cfg: Cfg{Buf: []int{1, 3, 128}[rep%3], Procs: 4, NoHooks: rep%2 == 1}, label: fmt.Sprintf("%d splitters in parallel on equally named files, %d lines, %d per split", nsp, nl, per),
			oracle: func(res *run.Result, ti *mon.TraceIndex, exp *ref.Result) []mon.Problem {
				cat := map[string]string{}
				for rn, w := range want {
					got := recPaths(ti, rn)
					if ps := partsExistWhenEmitted(ti, rn); len(ps) > 0 {
						return ps
					}
					if !eqList(got, w) {
						return []mon.Problem{{Sig: "splitter-emission-order", Msg: fmt.Sprintf("parts emitted as %v, expected %v", clipList(got, 8), clipList(w, 8))}}
					}
					for _, p := range got {
						b, _ := os.ReadFile(filepath.Join(res.Wd, p))
						cat[p[:strings.Index(p, ".split_")]] += string(b)
					}
				}
				for f, content := range srcs {
					if cat[f] != content {
						return []mon.Problem{{Sig: "splitter-parts-do-not-concatenate-to-input", Msg: "parts of " + f + " do not concatenate back to it"}}
					}
				}
				return nil
			}})
	}
	run.Parallel(len(jobs), func(i int) {
		j := jobs[i]
		root := c.CaseDir()
		defer c.Drop(root)
		res := execSpec(c, root, j.s, j.cfg, nil, false, 0)
		desc := map[string]interface{}{"component": j.name, "case": j.label, "cfg": j.cfg, "spec": j.s}
		if res.Hang != "" {
			if strings.HasPrefix(res.Hang, "deadlock") {
				c.Violation(j.name+":hang", j.label+": "+res.Hang+"\n"+clip(res.HangInfo, 600), desc)
			} else {
				c.Inconclusive(res.Hang)
			}
			return
		}
		if res.Exit != 0 || !res.Returned {
			c.Violation(j.name+":run-failed", fmt.Sprintf("%s: exit %d: %s", j.label, res.Exit, tail(res.Output(), 400)), desc)
			return
		}
		ti := mon.Index(res.Trace)
		ps := j.oracle(res, ti, nil)
		// whatever a file-emitting component hands downstream exists at that moment (the recorders stat on reception)
		switch j.name {
		case "Concatenator", "FileSource", "FileGlobber", "FileGlobberDependent", "FileCombinator", "IPSelectorSync":
			for rec, evs := range ti.Recs {
				for _, e := range evs {
					if !e.Exists && !strings.HasPrefix(e.Path, "/tmp/") {
						ps = append(ps, mon.Problem{Sig: "component-emitted-item-before-it-exists", Msg: fmt.Sprintf("%s: %s passed recorder %s before a file existed at that path", j.name, e.Path, rec)})
					}
				}
			}
		}
		for _, l := range run.Snap(res.Wd).Leftovers() {
			ps = append(ps, mon.Problem{Sig: "component-leaves-tempdir", Msg: j.name + " run left " + l + " behind"})
		}
		if len(ps) > 0 {
			for _, sig := range sigSet(ps) {
				desc["problems"] = mon.Summarize(ps, 8)
				c.Violation(sig, j.name+", "+j.label+":\n  "+strings.Join(mon.Summarize(ps, 3), "\n  "), desc)
			}
			return
		}
		c.Count("cases_"+j.name, 1)
		c.Nontrivial(j.name + "|" + j.label)
		if i%60 == 0 {
			c.Sample(map[string]interface{}{"component": j.name, "case": j.label, "cfg": j.cfg})
		}
	})
	// ---- Concatenator history: a longer run followed by a shorter one in the same directory
	for rep := 0; rep < c.Pick(2, 8); rep++ {
		root := c.CaseDir()
		mk := func(n int) (*spec.Spec, string) {
			s := &spec.Spec{Name: "concathist", MaxTasks: 2, Sources: map[string]string{}}
			src := &spec.Proc{Name: "S", Kind: spec.KFileSource}
			want := ""
			for i := 0; i < n; i++ {
				f := fmt.Sprintf("h%d.txt", i)
				src.Files = append(src.Files, f)
				s.Sources[f] = fmt.Sprintf("history input %d with some length", i)
				want += s.Sources[f] + "\n"
			}
			s.Procs = append(s.Procs, src, &spec.Proc{Name: "CC", Kind: spec.KConcat, OutPath: "hist/all.txt"})
			s.Conns = append(s.Conns, &spec.Conn{From: "S.out", To: "CC.in"})
			return s, want
		}
		var ps []mon.Problem
		for step, n := range []int{5, 2 + rep%2, 4} {
			s, want := mk(n)
			res := execSpec(c, root, s, Cfg{Buf: 3, Procs: 2}, nil, step > 0, step)
			b, _ := os.ReadFile(filepath.Join(res.Wd, "hist/all.txt"))
			if res.Exit != 0 || string(b) != want {
				ps = append(ps, mon.Problem{Sig: "concatenator-content:rerun-history", Msg: fmt.Sprintf("run %d (%d inputs, after runs with other input counts in the same directory): exit %d, output has %d bytes, the inputs give %d bytes", step+1, n, res.Exit, len(b), len(want))})
			}
		}
		if len(ps) > 0 {
			c.Violation(ps[0].Sig, strings.Join(mon.Summarize(ps, 3), "\n  "), map[string]interface{}{"history": "5 inputs, then 2-3, then 4, same directory"})
		} else {
			c.Nontrivial(fmt.Sprintf("Concatenator|history|%d", rep))
			c.Count("cases_Concatenator_history", 1)
		}
		c.Drop(root)
	}
	// ---- FileSplitter history: a first run splits one file; a second run in the same directory gets that file
	// again followed by files that are not split yet. The already split file is skipped, the others must be split.
	for rep := 0; rep < c.Pick(2, 6); rep++ {
		root := c.CaseDir()
		per := 2 + rep%2
		mk := func(files []string) *spec.Spec {
			s := &spec.Spec{Name: "splithist", MaxTasks: 2, Sources: map[string]string{}}
			src := &spec.Proc{Name: "S", Kind: spec.KFileSource, Files: files}
			for _, f := range []string{"ha.txt", "hb.txt", "hc.txt"} {
				var sb strings.Builder
				nl := 5
				if f == "ha.txt" {
					nl = 27 // more than ten parts: part numbers do not sort like strings
				}
				for l := 0; l < nl; l++ {
					fmt.Fprintf(&sb, "%s line %d\n", f, l)
				}
				s.Sources[f] = sb.String()
			}
			s.Procs = append(s.Procs, src, &spec.Proc{Name: "SP", Kind: spec.KSplitter, Lines: per}, &spec.Proc{Name: "R", Kind: spec.KRecorder})
			s.Conns = append(s.Conns, &spec.Conn{From: "S.out", To: "SP.file"}, &spec.Conn{From: "SP.split_file", To: "R.in"})
			return s
		}
		order := [][]string{{"ha.txt", "hb.txt", "hc.txt"}, {"hb.txt", "ha.txt", "hc.txt"}}[rep%2]
		var ps []mon.Problem
		s1 := mk([]string{"ha.txt"})
		r1 := execSpec(c, root, s1, Cfg{Buf: 3, Procs: 2}, nil, false, 0)
		s2 := mk(order)
		r2 := execSpec(c, root, s2, Cfg{Buf: 3, Procs: 2}, nil, true, 1)
		if r1.Hang != "" || r2.Hang != "" {
			if strings.HasPrefix(r1.Hang+r2.Hang, "deadlock") {
				ps = append(ps, mon.Problem{Sig: "FileSplitter:hang", Msg: r1.Hang + r2.Hang})
			} else {
				c.Inconclusive(r1.Hang + r2.Hang)
				c.Drop(root)
				continue
			}
		} else if r1.Exit != 0 || r2.Exit != 0 {
			ps = append(ps, mon.Problem{Sig: "FileSplitter:run-failed", Msg: fmt.Sprintf("exit %d / %d: %s", r1.Exit, r2.Exit, tail(r2.Output(), 300))})
		} else {
			for _, f := range order {
				cat := ""
				for k := 1; ; k++ {
					b, err := os.ReadFile(filepath.Join(r2.Wd, fmt.Sprintf("%s.split_%d", f, k)))
					if err != nil {
						break
					}
					cat += string(b)
				}
				// whatever the second run emits for a file, it emits in part order
				last := 0
				for _, p := range recPaths(mon.Index(r2.Trace), "R") {
					if strings.HasPrefix(p, f+".split_") {
						k := 0
						fmt.Sscanf(p[len(f)+len(".split_"):], "%d", &k)
						if k < last {
							ps = append(ps, mon.Problem{Sig: "splitter-emission-order:rerun-history", Msg: fmt.Sprintf("second run: part %d of %s was emitted after part %d", k, f, last)})
							break
						}
						last = k
					}
				}
				if cat != s2.Sources[f] {
					ps = append(ps, mon.Problem{Sig: "splitter-parts-do-not-concatenate-to-input:rerun-history", Msg: fmt.Sprintf("second run over %v after a first run over [ha.txt]: the parts of %s concatenate to %d bytes, the file has %d", order, f, len(cat), len(s2.Sources[f]))})
				}
			}
		}
		if len(ps) > 0 {
			c.Violation(ps[0].Sig, strings.Join(mon.Summarize(ps, 3), "\n  "), map[string]interface{}{"history": "split [ha.txt], then split " + strings.Join(order, ",") + " in the same directory", "lines_per_split": per})
		} else {
			c.Nontrivial(fmt.Sprintf("FileSplitter|history|%d", rep))
			c.Count("cases_FileSplitter_history", 1)
		}
		c.Drop(root)
	}
	c.Finish()
}
