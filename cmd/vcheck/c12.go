package main

import (
	"fmt"
	"path/filepath"
	"sort"
	"strings"

	"verif/internal/chk"
	"verif/internal/gen"
	"verif/internal/mon"
	"verif/internal/run"
	"verif/internal/spec"
	"verif/internal/vproto"
)

func init() { checks["C12"] = c12 }

func c12Shapes() []*spec.Spec {
	var out []*spec.Spec
	mk := func(name string, n int) *spec.Spec {
		s := &spec.Spec{Name: name, MaxTasks: 4, Sources: map[string]string{}}
		src := &spec.Proc{Name: "src", Kind: spec.KFileSource}
		for i := 0; i < n; i++ {
			f := fmt.Sprintf("r%02d.txt", i)
			src.Files = append(src.Files, f)
			s.Sources[f] = fmt.Sprintf("line a %d\nline b %d\nline c\n", i, i)
		}
		s.Procs = append(s.Procs, src)
		return s
	}
	in := []spec.PortDecl{{Name: "in"}}
	o1 := []spec.PortDecl{{Name: "out"}}
	cmd := func(name string, ins []spec.PortDecl, outs []spec.PortDecl, cores int) *spec.Proc {
		return &spec.Proc{Name: name, Kind: spec.KCmd, Cores: cores, Cmd: spec.BuildCmd(name, ins, outs, nil, nil, nil)}
	}
	// one out-port to a tagging consumer and reading consumers
	{
		s := mk("fanout_tagging", 8)
		s.Procs = append(s.Procs, cmd("A", in, o1, 1),
			&spec.Proc{Name: "T", Kind: spec.KMapToTags, Tags: []*spec.TagRule{{Key: "grp", Rule: "idx"}}},
			cmd("B", in, o1, 1), cmd("C", in, o1, 2),
			&spec.Proc{Name: "K", Kind: spec.KConcat, OutPath: "concat.txt", GroupBy: "grp"})
		s.Conns = append(s.Conns, &spec.Conn{From: "src.out", To: "A.in"}, &spec.Conn{From: "A.out", To: "T.in"}, &spec.Conn{From: "A.out", To: "C.in"},
			&spec.Conn{From: "T.out", To: "B.in"}, &spec.Conn{From: "T.out", To: "K.in"})
		out = append(out, s)
	}
	// raw source files (no audit file yet) straight to a tagging component and to reading siblings
	{
		s := mk("rawsource_tagging", 16)
		s.Procs = append(s.Procs, &spec.Proc{Name: "T", Kind: spec.KMapToTags, Tags: []*spec.TagRule{{Key: "grp", Rule: "idx"}, {Key: "k", Rule: "stem"}}},
			cmd("B", in, o1, 1), cmd("sib1", in, o1, 1), cmd("sib2", in, []spec.PortDecl{{Name: "out"}, {Name: "res"}}, 1))
		s.Conns = append(s.Conns, &spec.Conn{From: "src.out", To: "T.in"}, &spec.Conn{From: "src.out", To: "sib1.in"}, &spec.Conn{From: "src.out", To: "sib2.in"}, &spec.Conn{From: "T.out", To: "B.in"})
		s.MaxTasks = 8
		out = append(out, s)
	}
	// a process without out-ports (the driver) with many short tasks in flight at once
	{
		s := mk("outportless_many", 24)
		s.Procs = append(s.Procs, cmd("A", in, o1, 1), cmd("check", in, nil, 1))
		s.Conns = append(s.Conns, &spec.Conn{From: "src.out", To: "A.in"}, &spec.Conn{From: "A.out", To: "check.in"})
		s.MaxTasks = 8
		out = append(out, s)
	}
	// two outputs of one task to different consumers, each tagged
	{
		s := mk("twoout_tagging", 6)
		s.Procs = append(s.Procs, cmd("A", in, []spec.PortDecl{{Name: "out"}, {Name: "res"}}, 1),
			&spec.Proc{Name: "T1", Kind: spec.KMapToTags, Tags: []*spec.TagRule{{Key: "x", Rule: "stem"}}},
			&spec.Proc{Name: "T2", Kind: spec.KMapToTags, Tags: []*spec.TagRule{{Key: "y", Rule: "idx"}}},
			cmd("B", in, o1, 1), cmd("C", in, o1, 1))
		s.Conns = append(s.Conns, &spec.Conn{From: "src.out", To: "A.in"}, &spec.Conn{From: "A.out", To: "T1.in"}, &spec.Conn{From: "A.res", To: "T2.in"},
			&spec.Conn{From: "T1.out", To: "B.in"}, &spec.Conn{From: "T2.out", To: "C.in"})
		out = append(out, s)
	}
	// many tagged files fanned out to consumers with one and two outputs, whose audit writing overlaps
	{
		s := mk("tagged_fanout", 24)
		two := []spec.PortDecl{{Name: "out"}, {Name: "res"}}
		s.Procs = append(s.Procs, &spec.Proc{Name: "T", Kind: spec.KMapToTags, Tags: []*spec.TagRule{{Key: "grp", Rule: "idx"}, {Key: "k", Rule: "stem"}}},
			cmd("stats", in, two, 1), cmd("sums", in, two, 1), cmd("copy", in, o1, 1), cmd("rev", in, o1, 1),
			&spec.Proc{Name: "T2", Kind: spec.KMapToTags, Tags: []*spec.TagRule{{Key: "again", Rule: "const:z"}}}, cmd("last", in, o1, 1))
		s.Conns = append(s.Conns, &spec.Conn{From: "src.out", To: "T.in"})
		for _, n := range []string{"stats", "sums", "copy", "rev"} {
			s.Conns = append(s.Conns, &spec.Conn{From: "T.out", To: n + ".in"})
		}
		s.Conns = append(s.Conns, &spec.Conn{From: "stats.out", To: "T2.in"}, &spec.Conn{From: "T2.out", To: "last.in"})
		s.MaxTasks = 8
		out = append(out, s)
	}
	// several parameter feeders closing their connection to one parameter port
	{
		s := mk("param_fanin", 2)
		p := cmd("PF", nil, o1, 1)
		p.Cmd = spec.BuildCmd("PF", nil, o1, []string{"k"}, nil, nil)
		p.Outs = []*spec.Out{{Port: "out", Pattern: "pf_{p:k}.out"}}
		p.Feeds = []*spec.Feed{{Port: "k", How: "str", Values: []string{"l1", "l2"}}, {Port: "k", How: "int", Values: []string{"7", "8"}}}
		s.Procs = append(s.Procs, p, &spec.Proc{Name: "PSA", Kind: spec.KParamSource, Values: []string{"a1", "a2", "a3"}}, &spec.Proc{Name: "PSB", Kind: spec.KParamSource, Values: []string{"b1", "b2", "b3"}})
		s.Conns = append(s.Conns, &spec.Conn{From: "PSA.out", To: "PF.k", Param: true}, &spec.Conn{From: "PSB.out", To: "PF.k", Param: true})
		out = append(out, s)
		// six one-value sources closing their connection to one port at the same moment (no literal feeders)
		s2 := mk("param_fanin_close", 1)
		q := cmd("PQ", nil, o1, 1)
		q.Cmd = spec.BuildCmd("PQ", nil, o1, []string{"k"}, nil, nil)
		q.Outs = []*spec.Out{{Port: "out", Pattern: "pq_{p:k}.out"}}
		s2.Procs = append(s2.Procs, q)
		for x := 0; x < 6; x++ {
			n := fmt.Sprintf("PS%d", x)
			s2.Procs = append(s2.Procs, &spec.Proc{Name: n, Kind: spec.KParamSource, Values: []string{fmt.Sprintf("v%d", x)}})
			s2.Conns = append(s2.Conns, &spec.Conn{From: n + ".out", To: "PQ.k", Param: true})
		}
		out = append(out, s2)
	}
	// fan-in of many upstreams closing at once
	{
		s := mk("fanin_close", 3)
		for i := 0; i < 6; i++ {
			n := fmt.Sprintf("U%d", i)
			s.Procs = append(s.Procs, cmd(n, in, o1, 1))
			s.Conns = append(s.Conns, &spec.Conn{From: "src.out", To: n + ".in"}, &spec.Conn{From: n + ".out", To: "M.in"})
		}
		s.Procs = append(s.Procs, cmd("M", in, o1, 1))
		out = append(out, s)
	}
	// RunTo with literal parameter feeders
	{
		s := mk("runto_feeders", 3)
		p := cmd("P", in, o1, 1)
		p.Cmd = spec.BuildCmd("P", in, o1, []string{"k"}, nil, nil)
		p.Feeds = []*spec.Feed{{Port: "k", How: "int", Values: []string{"1", "2", "3"}}}
		q := cmd("Q", in, o1, 1)
		q.Cmd = spec.BuildCmd("Q", in, o1, []string{"z"}, nil, nil)
		q.Feeds = []*spec.Feed{{Port: "z", How: "str", Values: []string{"a", "b", "c"}}}
		s.Procs = append(s.Procs, p, q, cmd("R", in, o1, 1))
		s.Conns = append(s.Conns, &spec.Conn{From: "src.out", To: "P.in"}, &spec.Conn{From: "P.out", To: "Q.in"}, &spec.Conn{From: "Q.out", To: "R.in"})
		s.Run = spec.Run{Mode: "runto", Targets: []string{"Q"}}
		out = append(out, s)
	}
	// components with internal goroutines
	{
		s := mk("components", 4)
		s.Sources["q0.txt"] = "q0\n"
		s.Sources["q1.txt"] = "q1\n"
		s.Procs = append(s.Procs, &spec.Proc{Name: "src2", Kind: spec.KFileSource, Files: []string{"q0.txt", "q1.txt"}},
			&spec.Proc{Name: "FC", Kind: spec.KFileComb, Ports: []string{"a", "b"}},
			&spec.Proc{Name: "SEL", Kind: spec.KSelector, Ports: []string{"a", "b"}, Pred: "notcontains:r01"},
			cmd("J", []spec.PortDecl{{Name: "a"}, {Name: "b"}}, o1, 1),
			&spec.Proc{Name: "SP", Kind: spec.KSplitter, Lines: 1},
			cmd("W", in, o1, 1),
			&spec.Proc{Name: "SS", Kind: spec.KSubStream},
			&spec.Proc{Name: "JN", Kind: spec.KCmd, Cmd: spec.BuildCmd("JN", []spec.PortDecl{{Name: "in", Join: "space"}}, o1, nil, nil, nil), Outs: []*spec.Out{{Port: "out", Pattern: "joined.out"}}})
		s.Conns = append(s.Conns, &spec.Conn{From: "src.out", To: "FC.a"}, &spec.Conn{From: "src2.out", To: "FC.b"},
			&spec.Conn{From: "FC.a", To: "SEL.a"}, &spec.Conn{From: "FC.b", To: "SEL.b"},
			&spec.Conn{From: "SEL.a", To: "J.a"}, &spec.Conn{From: "SEL.b", To: "J.b"},
			&spec.Conn{From: "src.out", To: "SP.file"}, &spec.Conn{From: "SP.split_file", To: "W.in"},
			&spec.Conn{From: "W.out", To: "SS.in"}, &spec.Conn{From: "SS.substream", To: "JN.in"})
		out = append(out, s)
	}
	// streaming pair
	{
		s := mk("streaming", 2)
		s.Procs = append(s.Procs, &spec.Proc{Name: "SPR", Kind: spec.KCmd, Cmd: spec.BuildCmd("SPR", in, []spec.PortDecl{{Name: "out", Stream: true}}, nil, nil, map[string]string{"size": "70000"})},
			cmd("SCO", in, o1, 1))
		s.Conns = append(s.Conns, &spec.Conn{From: "src.out", To: "SPR.in"}, &spec.Conn{From: "SPR.out", To: "SCO.in"})
		out = append(out, s)
	}
	// many streamed items from a producer that also has a regular output: the consumer reads the
	// producer's audit information while the producer is still completing it
	{
		s := mk("streaming_mixed", 16)
		s.MaxTasks = 32
		s.Procs = append(s.Procs, &spec.Proc{Name: "SPR", Kind: spec.KCmd, Cmd: spec.BuildCmd("SPR", in, []spec.PortDecl{{Name: "out", Stream: true}, {Name: "side"}, {Name: "res"}}, nil, nil, map[string]string{"size": "3000"})},
			cmd("SCO", in, o1, 1), cmd("SD", in, o1, 1))
		s.Conns = append(s.Conns, &spec.Conn{From: "src.out", To: "SPR.in"}, &spec.Conn{From: "SPR.out", To: "SCO.in"}, &spec.Conn{From: "SPR.side", To: "SD.in"})
		out = append(out, s)
	}
	// one out-port fanned out to Go functions that read the same items through InIP().Read() at the same time
	{
		s := mk("fanout_gofunc_read", 12)
		s.MaxTasks = 8
		s.Procs = append(s.Procs, cmd("A", in, o1, 1))
		s.Conns = append(s.Conns, &spec.Conn{From: "src.out", To: "A.in"})
		for _, n := range []string{"G1", "G2", "G3"} {
			s.Procs = append(s.Procs, &spec.Proc{Name: n, Kind: spec.KGoFunc, WriteAPI: true, Cmd: spec.BuildCmd(n, in, o1, nil, nil, nil)})
			s.Conns = append(s.Conns, &spec.Conn{From: "A.out", To: n + ".in"}, &spec.Conn{From: "src.out", To: n + "b.in"})
			s.Procs = append(s.Procs, &spec.Proc{Name: n + "b", Kind: spec.KGoFunc, WriteAPI: true, Cmd: spec.BuildCmd(n+"b", in, o1, nil, nil, nil)})
		}
		out = append(out, s)
	}
	// the workflow's sink draining file items and parameter values at the same time: a parameter source and a
	// parameter combinator nobody consumes beside file branches that end in the sink
	{
		s := mk("sink_files_and_params", 8)
		s.Procs = append(s.Procs, cmd("F1", in, o1, 1), cmd("F2", in, o1, 1),
			&spec.Proc{Name: "PSA", Kind: spec.KParamSource, Values: []string{"a1", "a2", "a3", "a4", "a5", "a6", "a7", "a8"}},
			&spec.Proc{Name: "PSB", Kind: spec.KParamSource, Values: []string{"b1", "b2", "b3"}}, &spec.Proc{Name: "PSC", Kind: spec.KParamSource, Values: []string{"c1", "c2", "c3"}},
			&spec.Proc{Name: "PC", Kind: spec.KParamComb, Ports: []string{"u", "v"}})
		s.Conns = append(s.Conns, &spec.Conn{From: "src.out", To: "F1.in"}, &spec.Conn{From: "src.out", To: "F2.in"},
			&spec.Conn{From: "PSB.out", To: "PC.u", Param: true}, &spec.Conn{From: "PSC.out", To: "PC.v", Param: true})
		out = append(out, s)
	}
	// two joined in-ports, non-matching %suffix modifiers in three processes at once, IPSelectorSync over triples of which several members are rejected, source files with foreign audit files (\"Tags\": null) fanned out to three consumers, each fed by its own StreamToSubStream
	{
		s := mk("two_joins", 4)
		s.Procs = append(s.Procs, cmd("UA", in, o1, 1), cmd("UB", in, o1, 1), &spec.Proc{Name: "SSA", Kind: spec.KSubStream}, &spec.Proc{Name: "SSB", Kind: spec.KSubStream},
			&spec.Proc{Name: "JN2", Kind: spec.KCmd, Cmd: "echo A:{i:a|join:,}:A B:{i:b|join: }:B > {o:out}", Outs: []*spec.Out{{Port: "out", Pattern: "joined2.out"}}})
		s.Conns = append(s.Conns, &spec.Conn{From: "src.out", To: "UA.in"}, &spec.Conn{From: "src.out", To: "UB.in"}, &spec.Conn{From: "UA.out", To: "SSA.in"}, &spec.Conn{From: "UB.out", To: "SSB.in"},
			&spec.Conn{From: "SSA.substream", To: "JN2.a"}, &spec.Conn{From: "SSB.substream", To: "JN2.b"})
		out = append(out, s)
	}
	// source files that bring audit files of their own, written by other tools: "Tags": null, no Params - fanned out to
	// three consumers that all look at the record
	{
		in, o1 := []spec.PortDecl{{Name: "in"}}, []spec.PortDecl{{Name: "out"}}
		s := mk("foreignaudit", 3)
		for _, f := range []string{"r00.txt", "r01.txt", "r02.txt"} {
			s.Sources[f+".audit.json"] = `{"ID": "foreign-` + f + `", "ProcessName": "imported", "Command": "wget ` + f + `", "Params": null, "Tags": null, "StartTime": "2024-03-01T10:00:00Z", "FinishTime": "2024-03-01T10:00:01Z", "ExecTimeNS": 1000000000, "OutFiles": {"out": "` + f + `"}, "Upstream": null}`
		}
		for k := 0; k < 3; k++ {
			pn := fmt.Sprintf("fa%d", k)
			s.Procs = append(s.Procs, &spec.Proc{Name: pn, Kind: []string{spec.KCmd, spec.KGoFunc, spec.KCmd}[k], Cmd: spec.BuildCmd(pn, in, o1, nil, nil, nil)})
			s.Conns = append(s.Conns, &spec.Conn{From: "src.out", To: pn + ".in"})
		}
		out = append(out, s)
	}
	// IPSelectorSync over aligned pairs of which both members, one member or no member are rejected
	{
		s := mk("selectorpairs", 4)
		s.Sources["q0.txt"] = "q0\n"
		s.Sources["q1.txt"] = "q1\n"
		s.Sources["q11.txt"] = "q11\n"
		s.Sources["p1.txt"] = "p1\n"
		s.Sources["p2.txt"] = "p2\n"
		// (each combinator port has an upstream of its own: ports that share one must not get more items than the buffer holds)
		s.Procs = append(s.Procs, &spec.Proc{Name: "src2", Kind: spec.KFileSource, Files: []string{"q0.txt", "q1.txt", "q11.txt"}},
			&spec.Proc{Name: "src3", Kind: spec.KFileSource, Files: []string{"p1.txt", "p2.txt"}},
			&spec.Proc{Name: "FC", Kind: spec.KFileComb, Ports: []string{"a", "b", "c"}},
			&spec.Proc{Name: "SEL", Kind: spec.KSelector, Ports: []string{"a", "b", "c"}, Pred: "notcontains:1"},
			cmd("J", []spec.PortDecl{{Name: "a"}, {Name: "b"}, {Name: "c"}}, []spec.PortDecl{{Name: "out"}}, 1))
		s.Conns = append(s.Conns, &spec.Conn{From: "src.out", To: "FC.a"}, &spec.Conn{From: "src2.out", To: "FC.b"}, &spec.Conn{From: "src3.out", To: "FC.c"},
			&spec.Conn{From: "FC.a", To: "SEL.a"}, &spec.Conn{From: "FC.b", To: "SEL.b"}, &spec.Conn{From: "FC.c", To: "SEL.c"},
			&spec.Conn{From: "SEL.a", To: "J.a"}, &spec.Conn{From: "SEL.b", To: "J.b"}, &spec.Conn{From: "SEL.c", To: "J.c"})
		out = append(out, s)
	}
	// path modifiers that do not apply (a %suffix the file name does not end with - the library warns about it), in
	// three processes that create their tasks at the same time
	{
		in, o1 := []spec.PortDecl{{Name: "in"}}, []spec.PortDecl{{Name: "out"}}
		s := mk("trimwarn", 12)
		for k, sfx := range []string{".dat", ".gz", ".a-much-longer-suffix-than-the-whole-file-name-is.txt"} {
			pn := fmt.Sprintf("tw%d", k)
			s.Procs = append(s.Procs, &spec.Proc{Name: pn, Kind: []string{spec.KCmd, spec.KGoFunc, spec.KCmd}[k], Cmd: spec.BuildCmd(pn, in, o1, nil, nil, nil),
				Outs: []*spec.Out{{Port: "out", Pattern: "{i:in|%" + sfx + "}." + pn + ".out"}}})
			s.Conns = append(s.Conns, &spec.Conn{From: "src.out", To: pn + ".in"})
		}
		out = append(out, s)
	}
	// a second workflow with a log file of its own is created while the first one is running (two workflows in one
	// program share the package-level loggers)
	{
		in, o1 := []spec.PortDecl{{Name: "in"}}, []spec.PortDecl{{Name: "out"}}
		x := mk("customlog", 4)
		x.LogFile = "log/custom-main.log"
		x.Procs = append(x.Procs, &spec.Proc{Name: "xa", Kind: spec.KCmd, Cmd: spec.BuildCmd("xa", in, o1, nil, nil, nil)})
		x.Conns = append(x.Conns, &spec.Conn{From: "src.out", To: "xa.in"})
		y := &spec.Spec{Name: "customlog-first", MaxTasks: 3, LogFile: "log/custom-first.log", Sources: map[string]string{}}
		ysrc := &spec.Proc{Name: "ysrc", Kind: spec.KFileSource}
		for k := 0; k < 8; k++ {
			f := fmt.Sprintf("y%02d.txt", k)
			ysrc.Files = append(ysrc.Files, f)
			x.Sources[f] = f + "\n"
		}
		y.Procs = append(y.Procs, ysrc, &spec.Proc{Name: "ya", Kind: spec.KCmd, Cmd: spec.BuildCmd("ya", in, o1, nil, nil, map[string]string{"sleep": "10"})},
			&spec.Proc{Name: "yb", Kind: spec.KGoFunc, Cmd: spec.BuildCmd("yb", in, o1, nil, nil, nil)})
		y.Conns = append(y.Conns, &spec.Conn{From: "ysrc.out", To: "ya.in"}, &spec.Conn{From: "ya.out", To: "yb.in"})
		x.Also = []*spec.Spec{y}
		out = append(out, x)
	}
	return out
}

func c12(args []string) {
	c := chk.New("C12", "exploration", args)
	c.Build(true)
	c.Rule("the subject built with the Go race detector (-race, GORACE=halt_on_error=0 log_path=...) runs generated graphs biased to shared state (fan-out of one out-port to several consumers, MapToTags beside sibling consumers, multi-output tasks feeding different consumers, fan-in, multi-core tasks, parameter feeders and combinators, Go functions) and directed shapes (tagging + reading siblings + GroupByTag concatenation, simultaneous closing of 6 upstreams, RunTo with literal parameter feeders, components with internal goroutines, a streaming pair, 16 streamed items from a producer with additional regular outputs, one out-port fanned out to Go functions that Read() the same items, the sink draining files and parameters at once, two joined in-ports, non-matching %suffix modifiers in three processes at once, IPSelectorSync over triples of which several members are rejected, a second workflow with a custom log file created while a first one is running), each under several yield-point seeds and GOMAXPROCS values, every second directed shape also re-run in place after it completed (all tasks skipped, IPs loaded from disk), every second run with passive hooks, every fourth also with the library's logging reduced to errors and every fourth at its DEBUG level (an active hook takes the monitor mutex, which is a synchronisation the race detector sees and which would order accesses the plain library leaves unordered); oracle: every 'WARNING: DATA RACE' block with a scipipe frame is a violation, de-duplicated by the pair of innermost scipipe frames; blocks without any scipipe frame are harness bugs (check reported as broken). distinct_nontrivial = distinct interleaving signatures observed under the race detector")
	c.Assume("the race detector reports happens-before violations on executed paths only")
	rng := c.Rand("c12")
	type job struct {
		s   *spec.Spec
		cfg Cfg
		tag string
	}
	var jobs []*job
	ng := c.Pick(24, 300)
	reps := c.Pick(2, 4)
	for g := 0; g < ng; g++ {
		b := []int{1, 2, 3, 128}[rng.Intn(4)]
		mt := []int{2, 4, 8}[rng.Intn(3)]
		o := gen.GraphOpts{MaxProcs: 7, Lens: []int{2, 3, 5, b + 1}, Buf: b, FanIn: true, Params: true, GoFunc: true, WriteAPI: true, MultiOut: true, Portless: true,
			ParamComb: true, Cores: mt, MaxTasks: mt, SleepMax: 5, MapTags: true, TagShared: true, Join: true, NoUnequal: true, Recorders: true}
		s := gen.Graph(rng, fmt.Sprintf("g%d", g), o)
		for k := 0; k < reps; k++ {
			// every second run with passive hooks: the monitor mutex of an active hook is a synchronisation the
			// race detector sees, and would order accesses that the plain library leaves unordered
			jobs = append(jobs, &job{s, Cfg{Buf: b, Procs: []int{2, 4, 8}[rng.Intn(3)], Sched: fmt.Sprintf("%d,400,800", rng.Intn(1<<30)), Race: true, NoHooks: k%2 == 1, Quiet: k%4 == 3, Debug: (g+k)%5 == 0 && k%4 != 3}, "generated"})
		}
	}
	for _, s := range c12Shapes() {
		for k := 0; k < c.Pick(4, 12); k++ {
			// (every fourth run with the logging reduced to errors, every fourth at the library's DEBUG level)
			jobs = append(jobs, &job{s, Cfg{Buf: []int{1, 3, 128}[k%3], Procs: []int{2, 4, 8}[k%3], Sched: fmt.Sprintf("%d,400,800", rng.Intn(1<<30)), Race: true, NoHooks: k%2 == 1, Quiet: k%4 == 3, Debug: k%4 == 1}, "shape:" + s.Name})
		}
	}
	type seen struct {
		n     int
		first string
	}
	run.ParallelN(8, len(jobs), func(i int) {
		j := jobs[i]
		root := c.CaseDir()
		defer c.Drop(root)
		res := execSpec(c, root, j.s, j.cfg, nil, false, 0)
		streams := false
		for _, p := range j.s.Procs {
			if strings.Contains(p.Cmd, "{os:") {
				streams = true // (re-running a streaming workflow is C17's history, with a known finding of its own)
			}
		}
		if strings.HasPrefix(j.tag, "shape:") && i%2 == 0 && res.Exit == 0 && res.Hang == "" && !streams {
			// history: the completed workflow is run again in place (every task is skipped, the IPs are made from the
			// files and audit files on disk); the race reports of both runs are judged
			r2 := execSpec(c, root, j.s, j.cfg, nil, true, 1)
			c.Count("reruns_under_the_race_detector", 1)
			if r2.Hang != "" && !strings.HasPrefix(r2.Hang, "deadlock") {
				c.Inconclusive("re-run: " + r2.Hang)
			}
		}
		reports := mon.ParseRaceLogs(filepath.Join(root, "meta", "race"))
		c.Count("race_report_blocks", len(reports))
		c.Count("hook_events", len(res.Events))
		for _, r := range reports {
			if r.Harness {
				c.Count("harness_only_race_blocks", 1)
				c.Set("harness_race_example", clip(r.Text, 1500))
				continue
			}
			sig := r.Sig
			if literalFeederFanIn(j.s) && len(r.Frames) == 2 && paramPortMethod(r.Frames[0]) && paramPortMethod(r.Frames[1]) {
				// the known finding (feeders started at wiring time) is tied to its workload - a literal feeder
				// beside another upstream on one parameter port - and to accesses inside the parameter ports
				sig = "race:parameter-port-methods|literal-feeder-fan-in"
			}
			c.Violation(sig, "data race between "+r.Frames[0]+" and "+r.Frames[1]+" ("+j.tag+")\n"+clip(r.Text, 1800),
				map[string]interface{}{"spec": j.s, "cfg": j.cfg, "workload": j.tag, "report": r.Text})
		}
		if res.Hang != "" {
			// a run that does not terminate is C05's / C07's matter; here it only means that this run's schedule space
			// was not explored (made visible as inconclusive)
			c.Inconclusive(j.tag + ": " + res.Hang)
			return
		}
		if len(res.Events) > 0 {
			c.Nontrivial(mon.InterleavingSig(res.Events))
		} else if j.cfg.NoHooks && len(res.Trace) > 0 {
			// passive hooks: the order of the commands' own start / end events is the observed interleaving
			sig := ""
			for _, e := range res.Trace {
				if e.Ev == "start" || e.Ev == "end" {
					sig += e.Ev[:1] + e.Key + ";"
				}
			}
			c.Nontrivial("passive|" + vproto.Sha([]byte(sig))[:16])
			c.Count("runs_with_passive_hooks", 1)
		}
		if i%20 == 0 {
			c.Sample(map[string]interface{}{"workload": j.tag, "graph": gen.Describe(j.s), "cfg": j.cfg, "hook_events": len(res.Events), "race_blocks": len(reports), "exit": res.Exit})
		}
	})
	c.Finish()
}

func paramPortMethod(frame string) bool {
	return strings.Contains(frame, "(*InParamPort).") || strings.Contains(frame, "(*OutParamPort).")
}

var _ = sort.Strings
