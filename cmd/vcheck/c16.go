package main

import (
	"fmt"
	"os"
	"path/filepath"
	"sort"
	"strings"

	"verif/internal/chk"
	"verif/internal/gen"
	"verif/internal/mon"
	"verif/internal/ref"
	"verif/internal/run"
	"verif/internal/spec"
)

func init() { checks["C16"] = c16 }

func c16(args []string) {
	c := chk.New("C16", "exploration", args)
	c.Build(false)
	c.Rule("generated graphs (<= 9 processes, file and parameter edges, ParamSource / ParamCombinator processes, independent branches): (1) every single in-port or parameter in-port left unconnected in turn (file in-ports also connected and then taken off again through the public Disconnect) -> Run must refuse before any command (exit != 0, empty command trace), while unconsumed out-ports are drained automatically (base run succeeds); (2) RunTo on every target set of size <= 2 plus random larger ones, addressed by name, by regex and by process value -> the set of processes with executed commands equals the reference's upstream closure over file and parameter connections, every task of it exactly once, files equal the closure's reference, no command of any other process; targets 33 / 40 / 70 steps downstream of the source; a process without any port as target; an out-port-less target behind a ParamCombinator one port of which lost its consumer (values > buffer); a target that depends on six staggered upstream tasks through FileGlobberDependent; bundled components: the in-ports of MapToTags, FileSplitter, Concatenator, StreamToSubStream and the dependency port of FileGlobberDependent left unconnected must be refused too, and CommandToParams (whose command writes a marker file) must not run its command when it is outside the closure or the workflow is refused. distinct_nontrivial = distinct (graph shape, omitted port) refusals in graphs where some other process could have executed + distinct (graph shape, target set, addressing mode) with a proper closure (neither empty nor everything)")
	c.Assume("unconnected ports in processes outside a RunTo closure are not judged (the property states the wiring check for Run)")
	rng := c.Rand("c16")
	type job struct {
		s    *spec.Spec
		exp  *ref.Result
		cfg  Cfg
		kind string
		what string
		base *spec.Spec
	}
	var jobs []*job
	ngraphs := c.Pick(12, 150)
	for g := 0; g < ngraphs; g++ {
		b := []int{1, 3, 128}[rng.Intn(3)]
		o := gen.GraphOpts{MaxProcs: 7, Lens: []int{1, 2, 3}, Buf: b, FanIn: true, Params: true, GoFunc: true, WriteAPI: true, MultiOut: true, Portless: true, ParamComb: true,
			Cores: 2, MaxTasks: 4, NoUnequal: true, Leaf: g%4 == 0}
		s := gen.Graph(rng, fmt.Sprintf("g%d", g), o)
		exp := evalRef(s, nil)
		if exp.Err != "" {
			c.Count("generator_rejects", 1)
			continue
		}
		if len(leafProcs(s)) >= 2 {
			continue
		}
		cfg := func() Cfg {
			return Cfg{Buf: b, Procs: []int{1, 2, 4}[rng.Intn(3)], Sched: fmt.Sprintf("%d,200,400", rng.Intn(1<<30))}
		}
		jobs = append(jobs, &job{s: s, exp: exp, cfg: cfg(), kind: "base", what: "all connected"})
		// (1) every single port unconnected
		for _, p := range s.Procs {
			if p.Kind != spec.KCmd && p.Kind != spec.KGoFunc {
				continue
			}
			ports := ref.Ports(p.Cmd)
			names := []string{}
			for n := range ports {
				names = append(names, n)
			}
			sort.Strings(names)
			for _, n := range names {
				pi := ports[n]
				if pi.Type != "i" && pi.Type != "p" {
					continue
				}
				s2 := s.Clone()
				var conns []*spec.Conn
				for _, cn := range s2.Conns {
					if cn.To != p.Name+"."+n {
						conns = append(conns, cn)
					}
				}
				s2.Conns = conns
				p2 := s2.Proc(p.Name)
				var feeds []*spec.Feed
				for _, f := range p2.Feeds {
					if f.Port != n {
						feeds = append(feeds, f)
					}
				}
				p2.Feeds = feeds
				jobs = append(jobs, &job{s: s2, exp: exp, cfg: cfg(), kind: "unconnected", what: p.Name + "." + n + " (" + pi.Type + ")", base: s})
				if pi.Type == "i" {
					// the port was connected and the connection taken off again (InPort.Disconnect, or Disconnect on both sides)
					s3 := s.Clone()
					nin := 0
					for _, cn := range s3.Conns {
						if cn.To == p.Name+"."+n {
							nin++
						}
					}
					if nin == 1 && !strings.Contains(p.Cmd, "|join:") {
						how := []string{"in", "both"}[len(jobs)%2]
						for _, cn := range s3.Conns {
							if cn.To == p.Name+"."+n {
								cn.Undo = how
							}
						}
						jobs = append(jobs, &job{s: s3, exp: exp, cfg: cfg(), kind: "unconnected", what: p.Name + "." + n + " (connected, then disconnected: " + how + ")", base: s})
					}
				}
			}
		}
		// (2) RunTo target sets
		var names []string
		for _, p := range s.Procs {
			names = append(names, p.Name)
		}
		var sets [][]string
		for i := range names {
			sets = append(sets, []string{names[i]})
		}
		npairs := c.Pick(6, 30)
		for k := 0; k < npairs && len(names) >= 2; k++ {
			a, b2 := rng.Intn(len(names)), rng.Intn(len(names))
			if a != b2 {
				sets = append(sets, []string{names[a], names[b2]})
			}
		}
		for k := 0; k < c.Pick(2, 10) && len(names) >= 3; k++ {
			var set []string
			for _, n := range names {
				if rng.Intn(3) == 0 {
					set = append(set, n)
				}
			}
			if len(set) > 0 {
				sets = append(sets, set)
			}
		}
		for k, set := range sets {
			s2 := s.Clone()
			mode := []string{"runto", "runtoregex", "runtoprocs"}[k%3]
			targets := set
			if mode == "runtoregex" {
				targets = nil
				for _, t := range set {
					targets = append(targets, "^"+t+"$")
				}
				if len(set) == 2 && k%2 == 0 {
					targets = []string{"^(" + set[0] + "|" + set[1] + ")$"}
				}
			}
			s2.Run = spec.Run{Mode: mode, Targets: targets}
			exp2 := evalRef(s2, nil)
			if exp2.Err != "" {
				continue
			}
			// two out-port-less processes inside one closure are refused by the library; not this property's subject
			nleaf := 0
			for _, l := range leafProcs(s2) {
				if exp2.InRun[l] {
					nleaf++
				}
			}
			if nleaf >= 2 {
				continue
			}
			jobs = append(jobs, &job{s: s2, exp: exp2, cfg: cfg(), kind: "runto", what: mode + " " + strings.Join(targets, ",")})
		}
	}
	// bundled components: the in-ports of components are subject to the wiring check too (the dependency port of a
	// dependent globber, MapToTags, FileSplitter, StreamToSubStream), and a component that runs a command of its
	// own (CommandToParams writes a marker file here) must not run it when it is outside the closure / when the
	// workflow is refused
	{
		mkc := func() *spec.Spec {
			s := &spec.Spec{Name: "compwiring", MaxTasks: 4, Sources: map[string]string{"l0.txt": "a\nb\nc\n", "l1.txt": "d\ne\n"}}
			in, o1 := []spec.PortDecl{{Name: "in"}}, []spec.PortDecl{{Name: "out"}}
			s.Procs = append(s.Procs, &spec.Proc{Name: "src", Kind: spec.KFileSource, Files: []string{"l0.txt", "l1.txt"}},
				&spec.Proc{Name: "A", Kind: spec.KCmd, Cmd: spec.BuildCmd("A", in, o1, nil, nil, nil)},
				&spec.Proc{Name: "T", Kind: spec.KMapToTags, Tags: []*spec.TagRule{{Key: "grp", Rule: "idx"}}},
				&spec.Proc{Name: "B", Kind: spec.KCmd, Cmd: spec.BuildCmd("B", in, o1, nil, nil, nil)},
				&spec.Proc{Name: "GL", Kind: spec.KGlobber, Files: []string{"l*.txt"}, DepIn: true},
				&spec.Proc{Name: "G", Kind: spec.KCmd, Cmd: spec.BuildCmd("G", in, o1, nil, nil, nil)},
				&spec.Proc{Name: "SP", Kind: spec.KSplitter, Lines: 2},
				&spec.Proc{Name: "W", Kind: spec.KCmd, Cmd: spec.BuildCmd("W", in, o1, nil, nil, nil)},
				&spec.Proc{Name: "CC", Kind: spec.KConcat, OutPath: "cc/all.txt"},
				&spec.Proc{Name: "SS", Kind: spec.KSubStream},
				&spec.Proc{Name: "JN", Kind: spec.KCmd, Cmd: spec.BuildCmd("JN", []spec.PortDecl{{Name: "in", Join: "space"}}, o1, nil, nil, nil), Outs: []*spec.Out{{Port: "out", Pattern: "joined.jn.out"}}},
				&spec.Proc{Name: "CP", Kind: spec.KCmdParams, Shell: "echo ran >> ../ctp_marker.log; printf 'p1\\np2\\n'", Values: []string{"p1", "p2"}},
				&spec.Proc{Name: "P", Kind: spec.KCmd, Cmd: spec.BuildCmd("P", nil, o1, []string{"k"}, nil, nil), Outs: []*spec.Out{{Port: "out", Pattern: "P_{p:k}.out"}}})
			s.Conns = append(s.Conns, &spec.Conn{From: "src.out", To: "A.in"}, &spec.Conn{From: "A.out", To: "T.in"}, &spec.Conn{From: "T.out", To: "B.in"},
				&spec.Conn{From: "A.out", To: "GL.in_dep"}, &spec.Conn{From: "GL.out", To: "G.in"},
				&spec.Conn{From: "src.out", To: "SP.file"}, &spec.Conn{From: "SP.split_file", To: "W.in"},
				&spec.Conn{From: "W.out", To: "CC.in"}, &spec.Conn{From: "B.out", To: "SS.in"}, &spec.Conn{From: "SS.substream", To: "JN.in"},
				&spec.Conn{From: "CP.param", To: "P.k", Param: true})
			return s
		}
		base := mkc()
		expb := evalRef(base, nil)
		if expb.Err != "" {
			c.Broken("reference cannot evaluate the component wiring graph: " + expb.Err)
		}
		jobs = append(jobs, &job{s: base, exp: expb, cfg: Cfg{Buf: 3, Procs: 2}, kind: "base", what: "components, all connected"})
		for _, cut := range []string{"GL.in_dep", "T.in", "SP.file", "CC.in", "SS.in"} {
			s2 := mkc()
			var conns []*spec.Conn
			for _, cn := range s2.Conns {
				if cn.To != cut {
					conns = append(conns, cn)
				}
			}
			s2.Conns = conns
			jobs = append(jobs, &job{s: s2, exp: expb, cfg: Cfg{Buf: 3, Procs: 2, SoftSec: 8}, kind: "unconnected", what: cut + " (in-port of a bundled component)", base: base})
		}
		for k, targets := range [][]string{{"B"}, {"G"}, {"W"}, {"B", "W"}, {"JN"}, {"A", "W"}} {
			s2 := mkc()
			s2.Run = spec.Run{Mode: []string{"runto", "runtoprocs"}[k%2], Targets: targets}
			exp2 := evalRef(s2, nil)
			if exp2.Err != "" {
				c.Broken("reference cannot evaluate the component closure: " + exp2.Err)
			}
			jobs = append(jobs, &job{s: s2, exp: exp2, cfg: Cfg{Buf: 3, Procs: 2, SoftSec: 8}, kind: "runto", what: s2.Run.Mode + " " + strings.Join(targets, ",") + " (components; CommandToParams outside the closure)"})
		}
	}
	// the last process (no out-ports, it becomes the driver) with an unconnected port
	for _, which := range []string{"in", "param"} {
		s := &spec.Spec{Name: "leafunconnected_" + which, MaxTasks: 4, Sources: map[string]string{"l0.txt": "l0", "l1.txt": "l1"}}
		s.Procs = append(s.Procs, &spec.Proc{Name: "src", Kind: spec.KFileSource, Files: []string{"l0.txt", "l1.txt"}},
			&spec.Proc{Name: "gen", Kind: spec.KCmd, Cmd: spec.BuildCmd("gen", []spec.PortDecl{{Name: "in"}}, []spec.PortDecl{{Name: "out"}}, nil, nil, nil)})
		leaf := &spec.Proc{Name: "check", Kind: spec.KCmd}
		if which == "in" {
			leaf.Cmd = spec.BuildCmd("check", []spec.PortDecl{{Name: "in"}, {Name: "extra"}}, nil, nil, nil, nil)
		} else {
			leaf.Cmd = spec.BuildCmd("check", []spec.PortDecl{{Name: "in"}}, nil, []string{"tag"}, nil, nil)
		}
		s.Procs = append(s.Procs, leaf)
		s.Conns = append(s.Conns, &spec.Conn{From: "src.out", To: "gen.in"}, &spec.Conn{From: "gen.out", To: "check.in"})
		base := s.Clone()
		jobs = append(jobs, &job{s: s, exp: evalRef(base, nil), cfg: Cfg{Buf: 3, Procs: 2, SoftSec: 8}, kind: "unconnected", what: "check." + which + " of the out-port-less last process", base: base})
	}
	// a large workflow: 500 Go-function processes without inputs (each runs in-process the moment it is started) and one
	// process with an unconnected in-port - the refusal comes before any of them has run
	for rep := 0; rep < c.Pick(30, 80); rep++ {
		s := &spec.Spec{Name: fmt.Sprintf("bigunconnected%d", rep), MaxTasks: 8, Sources: map[string]string{"u.txt": "u"}}
		for k := 0; k < 500; k++ {
			n := fmt.Sprintf("g%03d", k)
			s.Procs = append(s.Procs, &spec.Proc{Name: n, Kind: spec.KGoFunc, Cmd: spec.BuildCmd(n, nil, []spec.PortDecl{{Name: "out"}}, nil, nil, nil)})
		}
		s.Procs = append(s.Procs, &spec.Proc{Name: "src", Kind: spec.KFileSource, Files: []string{"u.txt"}},
			&spec.Proc{Name: "two", Kind: spec.KCmd, Cmd: spec.BuildCmd("two", []spec.PortDecl{{Name: "a"}, {Name: "b"}}, []spec.PortDecl{{Name: "out"}}, nil, nil, nil)})
		s.Conns = append(s.Conns, &spec.Conn{From: "src.out", To: "two.a"})
		base := s.Clone()
		base.Conns = append(base.Conns, &spec.Conn{From: "src.out", To: "two.b"})
		jobs = append(jobs, &job{s: s, exp: evalRef(base, nil), cfg: Cfg{Buf: 3, Procs: []int{2, 8}[rep%2], SoftSec: 20, NoHooks: true}, kind: "unconnected", what: "two.b in a workflow of 502 processes", base: base})
	}
	// a parameter source (and a file source) feeding both a selected and an excluded process, more items than the buffer
	for _, nv := range []int{3, 7} {
		s := &spec.Spec{Name: fmt.Sprintf("sharedparams%d", nv), MaxTasks: 4, Sources: map[string]string{}}
		var vals []string
		src := &spec.Proc{Name: "src", Kind: spec.KFileSource}
		for i := 0; i < nv; i++ {
			vals = append(vals, fmt.Sprintf("v%d", i))
			f := fmt.Sprintf("sp%d.txt", i)
			src.Files = append(src.Files, f)
			s.Sources[f] = f
		}
		s.Procs = append(s.Procs, src, &spec.Proc{Name: "ps", Kind: spec.KParamSource, Values: vals})
		for _, n := range []string{"wanted", "other"} {
			s.Procs = append(s.Procs, &spec.Proc{Name: n, Kind: spec.KCmd, Cmd: spec.BuildCmd(n, []spec.PortDecl{{Name: "in"}}, []spec.PortDecl{{Name: "out"}}, []string{"k"}, nil, nil)})
			s.Conns = append(s.Conns, &spec.Conn{From: "src.out", To: n + ".in"}, &spec.Conn{From: "ps.out", To: n + ".k", Param: true})
		}
		for _, mode := range []string{"runto", "runtoregex", "runtoprocs"} {
			s2 := s.Clone()
			t := "wanted"
			if mode == "runtoregex" {
				t = "^wanted$"
			}
			s2.Run = spec.Run{Mode: mode, Targets: []string{t}}
			exp2 := evalRef(s2, nil)
			jobs = append(jobs, &job{s: s2, exp: exp2, cfg: Cfg{Buf: 2, Procs: 2, SoftSec: 8}, kind: "runto", what: mode + " wanted (shared sources, buffer 2)"})
		}
		{
			// several patterns, an inline flag on the first one: every pattern is a pattern of its own ("^OTHER$" matches
			// no process, whatever flags its neighbour carries)
			s2 := s.Clone()
			s2.Run = spec.Run{Mode: "runtoregex", Targets: []string{"(?i)^WANTED$", "^OTHER$"}}
			s3 := s.Clone()
			s3.Run = spec.Run{Mode: "runtoregex", Targets: []string{"^wanted$"}}
			jobs = append(jobs, &job{s: s2, exp: evalRef(s3, nil), cfg: Cfg{Buf: 2, Procs: 2, SoftSec: 8}, kind: "runto", what: "runtoregex with patterns (?i)^WANTED$ and ^OTHER$ (only 'wanted' matches)"})
		}
	}
	// one in-port fed by a raw stream and by streams derived from it (feeders that are ancestors of other feeders)
	{
		s := &spec.Spec{Name: "gather", MaxTasks: 4, Sources: map[string]string{"g0.txt": "g0", "g1.txt": "g1"}}
		in := []spec.PortDecl{{Name: "in"}}
		o1 := []spec.PortDecl{{Name: "out"}}
		s.Procs = append(s.Procs, &spec.Proc{Name: "src", Kind: spec.KFileSource, Files: []string{"g0.txt", "g1.txt"}},
			&spec.Proc{Name: "d1", Kind: spec.KCmd, Cmd: spec.BuildCmd("d1", in, o1, nil, nil, nil)},
			&spec.Proc{Name: "d2", Kind: spec.KCmd, Cmd: spec.BuildCmd("d2", in, o1, nil, nil, nil)},
			&spec.Proc{Name: "d3", Kind: spec.KCmd, Cmd: spec.BuildCmd("d3", in, o1, nil, nil, nil)},
			&spec.Proc{Name: "gatherer", Kind: spec.KCmd, Cmd: spec.BuildCmd("gatherer", in, o1, nil, nil, nil)},
			&spec.Proc{Name: "later", Kind: spec.KCmd, Cmd: spec.BuildCmd("later", in, o1, nil, nil, nil)})
		s.Conns = append(s.Conns, &spec.Conn{From: "src.out", To: "d1.in"}, &spec.Conn{From: "d1.out", To: "d2.in"}, &spec.Conn{From: "d2.out", To: "d3.in"},
			&spec.Conn{From: "src.out", To: "gatherer.in"}, &spec.Conn{From: "d1.out", To: "gatherer.in"}, &spec.Conn{From: "d2.out", To: "gatherer.in"}, &spec.Conn{From: "d3.out", To: "gatherer.in"},
			&spec.Conn{From: "gatherer.out", To: "later.in"})
		// sibling feeders derived from the raw feeder, wired in every order
		perms := [][]string{{"src", "a", "b"}, {"src", "b", "a"}, {"a", "src", "b"}, {"a", "b", "src"}, {"b", "src", "a"}, {"b", "a", "src"}}
		for pi, perm := range perms {
			sb := &spec.Spec{Name: fmt.Sprintf("gathersib%d", pi), MaxTasks: 4, Sources: map[string]string{"g0.txt": "g0"}}
			sb.Procs = append(sb.Procs, &spec.Proc{Name: "src", Kind: spec.KFileSource, Files: []string{"g0.txt"}},
				&spec.Proc{Name: "a", Kind: spec.KCmd, Cmd: spec.BuildCmd("a", in, o1, nil, nil, nil)},
				&spec.Proc{Name: "b", Kind: spec.KCmd, Cmd: spec.BuildCmd("b", in, o1, nil, nil, nil)},
				&spec.Proc{Name: "collect", Kind: spec.KCmd, Cmd: spec.BuildCmd("collect", in, o1, nil, nil, nil)},
				&spec.Proc{Name: "extra", Kind: spec.KCmd, Cmd: spec.BuildCmd("extra", in, o1, nil, nil, nil)})
			sb.Conns = append(sb.Conns, &spec.Conn{From: "src.out", To: "a.in"}, &spec.Conn{From: "src.out", To: "b.in"})
			for _, f := range perm {
				sb.Conns = append(sb.Conns, &spec.Conn{From: f + ".out", To: "collect.in"})
			}
			sb.Conns = append(sb.Conns, &spec.Conn{From: "b.out", To: "extra.in"})
			for rep := 0; rep < c.Pick(10, 30); rep++ {
				s2 := sb.Clone()
				s2.Run = spec.Run{Mode: []string{"runto", "runtoregex", "runtoprocs"}[rep%3], Targets: []string{[]string{"collect", "^collect$", "collect"}[rep%3]}}
				jobs = append(jobs, &job{s: s2, exp: evalRef(s2, nil), cfg: Cfg{Buf: 3, Procs: 2, SoftSec: 8}, kind: "runto", what: s2.Run.Mode + " collect (sibling feeders wired as " + strings.Join(perm, ",") + ")"})
			}
		}
		for rep := 0; rep < c.Pick(6, 30); rep++ {
			s2 := s.Clone()
			s2.Run = spec.Run{Mode: []string{"runto", "runtoregex", "runtoprocs"}[rep%3], Targets: []string{[]string{"gatherer", "^gatherer$", "gatherer"}[rep%3]}}
			jobs = append(jobs, &job{s: s2, exp: evalRef(s2, nil), cfg: Cfg{Buf: 3, Procs: 2, SoftSec: 8}, kind: "runto", what: s2.Run.Mode + " gatherer (feeders that are ancestors of feeders)"})
		}
	}
	// deep pipelines: the target is 40 / 70 steps downstream of the source
	for rep := 0; rep < c.Pick(2, 6); rep++ {
		depth := []int{40, 70, 33}[rep%3]
		s := &spec.Spec{Name: fmt.Sprintf("deep%d", depth), MaxTasks: 4, Sources: map[string]string{"deep.txt": "deep\n"}}
		in, o1 := []spec.PortDecl{{Name: "in"}}, []spec.PortDecl{{Name: "out"}}
		s.Procs = append(s.Procs, &spec.Proc{Name: "src", Kind: spec.KFileSource, Files: []string{"deep.txt"}})
		prev := "src"
		for k := 0; k < depth+2; k++ {
			pn := fmt.Sprintf("d%02d", k)
			s.Procs = append(s.Procs, &spec.Proc{Name: pn, Kind: spec.KCmd, Cmd: spec.BuildCmd(pn, in, o1, nil, nil, nil), Outs: []*spec.Out{{Port: "out", Pattern: pn + ".out"}}})
			s.Conns = append(s.Conns, &spec.Conn{From: prev + ".out", To: pn + ".in"})
			prev = pn
		}
		target := fmt.Sprintf("d%02d", depth-1)
		s.Run = spec.Run{Mode: []string{"runto", "runtoprocs", "runtoregex"}[rep%3], Targets: []string{[]string{target, target, "^" + target + "$"}[rep%3]}}
		jobs = append(jobs, &job{s: s, exp: evalRef(s, nil), cfg: Cfg{Buf: 3, Procs: 2, SoftSec: 10}, kind: "runto", what: fmt.Sprintf("%s %s (chain of %d steps)", s.Run.Mode, target, depth)})
	}
	// a process without any port (a set-up step) as target, alone and beside an ordinary target
	for rep := 0; rep < c.Pick(3, 9); rep++ {
		s := &spec.Spec{Name: "portless", MaxTasks: 2, Sources: map[string]string{"pl.txt": "pl\n"}}
		in, o1 := []spec.PortDecl{{Name: "in"}}, []spec.PortDecl{{Name: "out"}}
		s.Procs = append(s.Procs, &spec.Proc{Name: "src", Kind: spec.KFileSource, Files: []string{"pl.txt"}},
			&spec.Proc{Name: "setup", Kind: []string{spec.KCmd, spec.KGoFunc}[rep%2], Cmd: spec.VcmdPath + " run id=setup sleep=" + []string{"5", "150"}[rep%2] + " extra=setup_done.marker"},
			&spec.Proc{Name: "mk", Kind: spec.KCmd, Cmd: spec.BuildCmd("mk", in, o1, nil, nil, nil)},
			&spec.Proc{Name: "later", Kind: spec.KCmd, Cmd: spec.BuildCmd("later", in, o1, nil, nil, nil)})
		s.Conns = append(s.Conns, &spec.Conn{From: "src.out", To: "mk.in"}, &spec.Conn{From: "mk.out", To: "later.in"})
		targets := [][]string{{"setup"}, {"setup", "mk"}, {"mk", "setup"}}[rep%3]
		mode := []string{"runto", "runtoprocs", "runtoregex"}[(rep/3)%3]
		if mode == "runtoregex" {
			for k := range targets {
				targets[k] = "^" + targets[k] + "$"
			}
		}
		s.Run = spec.Run{Mode: mode, Targets: targets}
		jobs = append(jobs, &job{s: s, exp: evalRef(s, nil), cfg: Cfg{Buf: 3, Procs: 2, SoftSec: 8}, kind: "runto", what: fmt.Sprintf("%s %v (a process without ports among the targets)", mode, targets)})
	}
	// the target has no out-ports (it becomes the driver) and gets its parameters from a ParamCombinator, one port of
	// which only feeds an excluded process: those values - more than the buffer holds - have to be drained although no
	// file port needs the sink
	for rep := 0; rep < c.Pick(3, 9); rep++ {
		s := &spec.Spec{Name: "paramdrain", MaxTasks: 4, Sources: map[string]string{}}
		s.Procs = append(s.Procs, &spec.Proc{Name: "letters", Kind: spec.KParamSource, Values: []string{"a", "b", "c"}}, &spec.Proc{Name: "numbers", Kind: spec.KParamSource, Values: []string{"1", "2", "3"}},
			&spec.Proc{Name: "flag", Kind: spec.KParamSource, Values: []string{"x"}},
			&spec.Proc{Name: "pc", Kind: spec.KParamComb, Ports: []string{"u", "v", "w"}},
			&spec.Proc{Name: "logger", Kind: []string{spec.KCmd, spec.KGoFunc}[rep%2], Cmd: spec.BuildCmd("logger", nil, nil, []string{"u", "v"}, nil, nil)},
			&spec.Proc{Name: "other", Kind: spec.KCmd, Cmd: spec.BuildCmd("other", nil, []spec.PortDecl{{Name: "out"}}, []string{"w"}, nil, nil), Outs: []*spec.Out{{Port: "out", Pattern: "other_{p:w}.out"}}})
		s.Conns = append(s.Conns, &spec.Conn{From: "letters.out", To: "pc.u", Param: true}, &spec.Conn{From: "numbers.out", To: "pc.v", Param: true}, &spec.Conn{From: "flag.out", To: "pc.w", Param: true},
			&spec.Conn{From: "pc.u", To: "logger.u", Param: true}, &spec.Conn{From: "pc.v", To: "logger.v", Param: true}, &spec.Conn{From: "pc.w", To: "other.w", Param: true})
		s.Run = spec.Run{Mode: []string{"runto", "runtoprocs", "runtoregex"}[rep%3], Targets: []string{[]string{"logger", "logger", "^logger$"}[rep%3]}}
		jobs = append(jobs, &job{s: s, exp: evalRef(s, nil), cfg: Cfg{Buf: []int{2, 1, 3}[rep%3], Procs: 2, SoftSec: 8}, kind: "runto", what: s.Run.Mode + " logger (out-port-less target behind a ParamCombinator with a cut port)"})
	}
	// the target depends on its upstream through a dependent globber: every task in front of the globber belongs to the
	// closure (6 staggered tasks), the process behind the target does not
	for rep := 0; rep < c.Pick(3, 9); rep++ {
		s := &spec.Spec{Name: "depglobrunto", MaxTasks: 2, Sources: map[string]string{"g1.dat": "g1\n", "g2.dat": "g2\n"}}
		in, o1 := []spec.PortDecl{{Name: "in"}}, []spec.PortDecl{{Name: "out"}}
		src := &spec.Proc{Name: "src", Kind: spec.KFileSource}
		for k := 0; k < 6; k++ {
			f := fmt.Sprintf("r%02d.txt", k)
			src.Files = append(src.Files, f)
			s.Sources[f] = f + "\n"
		}
		s.Procs = append(s.Procs, src, &spec.Proc{Name: "maker", Kind: spec.KCmd, Cmd: spec.BuildCmd("maker", in, o1, nil, nil, map[string]string{"sleep": "50"})},
			&spec.Proc{Name: "GL", Kind: spec.KGlobber, Files: []string{"g*.dat"}, DepIn: true},
			&spec.Proc{Name: "use", Kind: spec.KCmd, Cmd: spec.BuildCmd("use", in, o1, nil, nil, nil)},
			&spec.Proc{Name: "report", Kind: spec.KCmd, Cmd: spec.BuildCmd("report", in, o1, nil, nil, nil)})
		s.Conns = append(s.Conns, &spec.Conn{From: "src.out", To: "maker.in"}, &spec.Conn{From: "maker.out", To: "GL.in_dep"}, &spec.Conn{From: "GL.out", To: "use.in"}, &spec.Conn{From: "use.out", To: "report.in"})
		s.Run = spec.Run{Mode: []string{"runto", "runtoregex", "runtoprocs"}[rep%3], Targets: []string{[]string{"use", "^use$", "use"}[rep%3]}}
		jobs = append(jobs, &job{s: s, exp: evalRef(s, nil), cfg: Cfg{Buf: []int{1, 3, 128}[rep%3], Procs: 2, SoftSec: 8}, kind: "runto", what: s.Run.Mode + " use (behind a dependent globber)"})
	}
	// a ParamCombinator port that only an excluded process uses, beside a slow selected process
	for rep := 0; rep < c.Pick(3, 9); rep++ {
		s := &spec.Spec{Name: "pcpartial", MaxTasks: 4, Sources: map[string]string{}}
		s.Procs = append(s.Procs, &spec.Proc{Name: "pa", Kind: spec.KParamSource, Values: []string{"a1", "a2"}}, &spec.Proc{Name: "pb", Kind: spec.KParamSource, Values: []string{"b1"}},
			&spec.Proc{Name: "pc", Kind: spec.KParamComb, Ports: []string{"u", "v"}},
			&spec.Proc{Name: "train", Kind: spec.KCmd, Cmd: spec.BuildCmd("train", nil, []spec.PortDecl{{Name: "out"}}, []string{"u"}, nil, map[string]string{"sleep": "60"}), Outs: []*spec.Out{{Port: "out", Pattern: "train_{p:u}.out"}}},
			&spec.Proc{Name: "summarize", Kind: spec.KCmd, Cmd: spec.BuildCmd("summarize", []spec.PortDecl{{Name: "in"}}, []spec.PortDecl{{Name: "out"}}, []string{"v"}, nil, nil)})
		s.Conns = append(s.Conns, &spec.Conn{From: "pa.out", To: "pc.u", Param: true}, &spec.Conn{From: "pb.out", To: "pc.v", Param: true},
			&spec.Conn{From: "pc.u", To: "train.u", Param: true}, &spec.Conn{From: "pc.v", To: "summarize.v", Param: true}, &spec.Conn{From: "train.out", To: "summarize.in"})
		s.Run = spec.Run{Mode: []string{"runto", "runtoregex", "runtoprocs"}[rep%3], Targets: []string{[]string{"train", "^train$", "train"}[rep%3]}}
		exp := evalRef(s, nil)
		if exp.Err == "" {
			jobs = append(jobs, &job{s: s, exp: exp, cfg: Cfg{Buf: []int{1, 128}[rep%2], Procs: 2, SoftSec: 8}, kind: "runto", what: s.Run.Mode + " train (a combinator port used only by the excluded process)"})
		}
	}
	// process names that contain regexp metacharacters, with siblings that differ only there
	{
		s := &spec.Spec{Name: "metanames", MaxTasks: 4, Sources: map[string]string{"m0.txt": "m0\n", "m1.txt": "m1\n"}}
		s.Procs = append(s.Procs, &spec.Proc{Name: "src", Kind: spec.KFileSource, Files: []string{"m0.txt", "m1.txt"}})
		names := []string{"filter.v1", "filter_v1", "filterXv1", "a-b", "a.b"}
		for _, n := range names {
			s.Procs = append(s.Procs, &spec.Proc{Name: n, Kind: spec.KCmd, Cmd: spec.BuildCmd(n, []spec.PortDecl{{Name: "in"}}, []spec.PortDecl{{Name: "out"}}, nil, nil, nil),
				Outs: []*spec.Out{{Port: "out", Pattern: "{i:in|basename}." + strings.NewReplacer(".", "DOT", "-", "DASH").Replace(n) + ".out"}}})
			s.Conns = append(s.Conns, &spec.Conn{From: "src.out", To: n + ".in"})
		}
		for _, n := range names {
			for _, mode := range []string{"runto", "runtoprocs"} {
				s2 := s.Clone()
				s2.Run = spec.Run{Mode: mode, Targets: []string{n}}
				exp2 := evalRef(s2, nil)
				jobs = append(jobs, &job{s: s2, exp: exp2, cfg: Cfg{Buf: 3, Procs: 2}, kind: "runto", what: mode + " " + n})
			}
		}
	}
	run.Parallel(len(jobs), func(i int) {
		j := jobs[i]
		root := c.CaseDir()
		defer c.Drop(root)
		if j.cfg.Sched == "" && i%2 == 0 {
			j.cfg.NoHooks = true // the plain library: hooks passive
		}
		res := execSpec(c, root, j.s, j.cfg, nil, false, 0)
		ti := mon.Index(res.Trace)
		switch j.kind {
		case "unconnected":
			if res.Hang != "" {
				if strings.HasPrefix(res.Hang, "deadlock") {
					c.Violation("unconnected-port-hang", "workflow with unconnected port "+j.what+" hung instead of being refused: "+res.Hang, map[string]interface{}{"spec": j.s, "port": j.what})
				} else {
					c.Inconclusive(res.Hang)
				}
				return
			}
			var ps []string
			if res.Exit == 0 || res.Returned {
				ps = append(ps, fmt.Sprintf("exit=%d returned=%v", res.Exit, res.Returned))
			}
			if len(ti.Starts) > 0 {
				var ks []string
				for k := range ti.Starts {
					ks = append(ks, k)
				}
				sort.Strings(ks)
				ps = append(ps, fmt.Sprintf("%d task(s) executed before/despite the refusal, e.g. %s", len(ks), ks[0]))
			}
			if _, err := os.Stat(filepath.Join(res.Wd, "..", "ctp_marker.log")); err == nil {
				ps = append(ps, "the command of the CommandToParams component was executed although the workflow has to be refused before any command")
			}
			if len(ps) > 0 {
				c.Violation("unconnected-port-not-refused", "port "+j.what+" left unconnected: "+strings.Join(ps, "; "), map[string]interface{}{"spec": j.s, "port": j.what, "output_tail": tail(res.Output(), 500)})
				return
			}
			c.Count("refusals", 1)
			// some process could have executed independently of the defect?
			if len(j.exp.Tasks) > 0 {
				c.Nontrivial("unconn|" + gen.ShapeHash(j.base) + "|" + j.what)
			}
			return
		default:
			ps, hang := judgeRun(res, j.s, j.exp)
			if hang != "" {
				c.Inconclusive(hang)
				return
			}
			// no command of a process outside the run set
			for k := range ti.Starts {
				proc := k[:strings.Index(k, "|")]
				if !j.exp.InRun[proc] {
					ps = append(ps, mon.Problem{Sig: "command-outside-closure", Msg: "task " + k + " belongs to a process outside the upstream closure"})
				}
			}
			if _, err := os.Stat(filepath.Join(res.Wd, "..", "ctp_marker.log")); err == nil && !j.exp.InRun["CP"] {
				ps = append(ps, mon.Problem{Sig: "command-outside-closure", Msg: "the command of the CommandToParams component CP was executed although CP is outside the upstream closure"})
			}
			if len(ps) > 0 {
				for _, sig := range sigSet(ps) {
					c.Violation(j.kind+":"+sig, j.what+":\n  "+strings.Join(mon.Summarize(ps, 6), "\n  "), map[string]interface{}{"spec": j.s, "cfg": j.cfg, "what": j.what, "problems": mon.Summarize(ps, 20)})
				}
				return
			}
			if j.kind == "runto" {
				nin := 0
				for range j.exp.InRun {
					nin++
				}
				c.Count("runto_runs", 1)
				if nin > 0 && nin < len(j.s.Procs) && len(j.exp.Tasks) > 0 {
					c.Nontrivial("runto|" + gen.ShapeHash(j.s) + "|" + j.what)
				}
				if i%12 == 0 {
					var in []string
					for p := range j.exp.InRun {
						in = append(in, p)
					}
					sort.Strings(in)
					c.Sample(map[string]interface{}{"graph": gen.Describe(j.s), "run": j.what, "closure": in, "tasks_executed": len(ti.Starts)})
				}
			} else {
				c.Count("base_runs", 1)
			}
		}
	})
	c.Finish()
}
