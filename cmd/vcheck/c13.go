package main

import (
	"fmt"
	"os"
	"path/filepath"
	"sort"
	"strings"

	"verif/internal/chk"
	"verif/internal/mon"
	"verif/internal/run"
	"verif/internal/spec"
	"verif/internal/vproto"
)

func init() { checks["C13"] = c13 }

type pathCase struct {
	out, in string // with ABS/ standing for the absolute scratch area
	extras  bool
	gof     bool
	wapi    bool // Go function that writes through the documented OutIP(port).Write()
	link    bool // the input path goes through a symbolic link to a directory and back out of it with ".."
	lextras bool // some of the additional files are symbolic links
	join    bool // the input reaches the command through a joined in-port ({i:in|join: })
	stream  bool // the process also has a streaming out-port (consumed by a second process)
	sextras bool // the additional files have names with blanks and shell metacharacters (the tool chooses those names)
	tagged  bool // the input carries three tags (a tagging component sits in front of the process)
	dangle  bool // a dangling symbolic link (left by an earlier run whose target is gone) sits at the declared output path
}

var c13Prefixes = []string{"", "./", "../", "../../", "ABS/"}
var c13Dirs = []string{"d", "d.x", "a-b_c", "0", "...", "d..", "..d", "__parent__", "__fsroot__", "x__parent__y", ".hid"}
var c13Files = []string{"f", "f.txt", ".h", "f..g", "__parent__", "a__fsroot__b", "..x"}

func c13Grammar() []string {
	var out []string
	for _, p := range c13Prefixes {
		for _, f := range c13Files {
			out = append(out, p+f)
			for _, d1 := range c13Dirs {
				out = append(out, p+d1+"/"+f)
				for _, d2 := range c13Dirs {
					out = append(out, p+d1+"/"+d2+"/"+f)
				}
			}
		}
	}
	return out
}

// oddSegment tells whether a path has a segment other than ".." that ends in ".." followed by "/"
// (the defect fixed in 133a9ef: "../" was matched as a substring).
func oddSegment(p string) bool {
	segs := strings.Split(p, "/")
	for i, s := range segs {
		if i < len(segs)-1 && s != ".." && strings.HasSuffix(s, "..") {
			return true
		}
	}
	return false
}

func c13(args []string) {
	c := chk.New("C13", "exploration", args)
	c.Build(false)
	c.Rule("[process names] one case in seven runs under a process name of 203-211 characters or one containing / , blanks or colons; [additional files whose destination exists: two consecutive tasks creating a side file of the same name, and a second run over a stale side file - the file of the latest task is the one that stays] (every fifth plain case carries an extension spec on the out-port placeholder, {o:out|.dat}, beside its SetOut pattern; a family of cases has a tagging component in front so that the input carries three tags; a family has additional files with blanks and shell metacharacters in their names) one-task workflows, one child per case, each in a fresh directory three levels below its scratch root: the output path and the input path are drawn from the grammar prefix {'', ./, ../, ../../, ABS/} x 0-2 directory segments {d, d.x, a-b_c, 0, ..., d.., ..d, __parent__, __fsroot__, x__parent__y, .hid} x file names {f, f.txt, .h, f..g, __parent__, a__fsroot__b, ..x} (thorough: every grammar path as output and as input; quick: a sample) plus random long paths, input paths that leave a symlinked directory with '..' (a decoy file sits at the lexically cleaned path) additional files that are symbolic links, inputs that reach the command through a joined in-port (absolute / parent-relative members), processes that have a streaming out-port beside the judged file output, and a dangling symbolic link already sitting at the declared output path; destination directories of ../ and absolute outputs are pre-created, sub-directories of the working directory are not; one case in five is a Go function interpreting the same protocol in-process, a further set are Go functions that write through the documented OutIP(port).Write() API; half of the command cases create additional files (one in a not yet existing sub-directory, one sorting after it); oracle: after exit 0 the unique content written at the output placeholder is found at exactly clean(wd/P) (or P if absolute) and nowhere else below the scratch root, the command could read its input through the input placeholder, every additional file is at the same relative place under the working directory. distinct_nontrivial = distinct (output path, input path, extras, command/Go function) cases that ran to completion")
	c.Assume("scratch root, working directory and absolute area are on one file system", "paths with a directory segment ending in '..' (fixed defect 133a9ef: '../' was matched as a substring) carry their own signature suffix so that a regression there is told apart from other failures")
	rng := c.Rand("c13")
	g := c13Grammar()
	c.Set("grammar_paths", len(g))
	var cases []pathCase
	if c.Thorough() {
		for i, p := range g {
			cases = append(cases, pathCase{out: p, in: g[rng.Intn(len(g))], extras: i%2 == 0, gof: i%5 == 0})
			cases = append(cases, pathCase{out: g[rng.Intn(len(g))], in: p, extras: i%2 == 1, gof: i%7 == 0})
		}
		c.Exhaustive(false)
		c.Set("exhaustive_part", "every grammar path used once as output path and once as input path")
	} else {
		for i := 0; i < 420; i++ {
			cases = append(cases, pathCase{out: g[rng.Intn(len(g))], in: g[rng.Intn(len(g))], extras: i%2 == 0, gof: i%5 == 0})
		}
		// make sure every prefix x special segment is present in the quick tier too
		for _, p := range c13Prefixes {
			for _, d := range c13Dirs {
				cases = append(cases, pathCase{out: p + d + "/f.txt", in: "i.txt", extras: false})
				cases = append(cases, pathCase{out: "o.txt", in: p + d + "/i.txt", extras: true})
			}
		}
	}
	// random long paths
	alpha := "abcdefghijklmnopqrstuvwxyzABCDEFGHIJKLMNOPQRSTUVWXYZ0123456789_-."
	for i := 0; i < c.Pick(40, 300); i++ {
		depth := 1 + rng.Intn(6)
		var segs []string
		total := 0
		for d := 0; d < depth && total < 180; d++ {
			l := 1 + rng.Intn(40)
			b := make([]byte, l)
			for k := range b {
				b[k] = alpha[rng.Intn(len(alpha))]
			}
			s := string(b)
			if s == "." || s == ".." || strings.HasSuffix(s, "..") {
				s += "x"
			}
			segs = append(segs, s)
			total += l + 1
		}
		p := c13Prefixes[rng.Intn(len(c13Prefixes))] + strings.Join(segs, "/")
		cases = append(cases, pathCase{out: p, in: "in.txt", extras: i%2 == 0, gof: i%6 == 0})
	}
	// Go functions using the documented write API: every prefix, nested and special segments
	for _, p := range c13Prefixes {
		for di, d := range []string{"", "d/", "d.x/0/", "__parent__/", ".hid/a-b_c/"} {
			cases = append(cases, pathCase{out: p + d + "w.txt", in: []string{"i.txt", "../i.txt", "ind/i.txt"}[di%3], gof: true, wapi: true})
		}
	}
	for i := 0; i < c.Pick(30, 250); i++ {
		cases = append(cases, pathCase{out: g[rng.Intn(len(g))], in: g[rng.Intn(len(g))], gof: true, wapi: true})
	}
	// input paths through a symlinked directory ("lnk/../ref/i.txt": ".." is resolved by the kernel relative to the
	// link's target, not lexically; a decoy file sits where lexical cleaning would point), and additional files
	// that are symbolic links
	for k := 0; k < c.Pick(6, 20); k++ {
		cases = append(cases, pathCase{out: []string{"o.txt", "d/o.txt", "../o.txt"}[k%3], in: "lnk/../ref/i.txt", link: true, gof: k%4 == 3})
		cases = append(cases, pathCase{out: []string{"o.txt", "d/o.txt", "ABS/o.txt"}[k%3], in: "i.txt", extras: true, lextras: true})
	}
	// inputs that reach the command through a joined in-port, and processes that have a streaming out-port beside
	// the file output whose path is being judged
	for k, p := range []string{"ABS/j/i.txt", "../up/i.txt", "d/e/i.txt", "./i.txt", "ABS/i.txt", "../../i2.txt"} {
		cases = append(cases, pathCase{out: []string{"o.txt", "d/o.txt"}[k%2], in: p, join: true})
	}
	for k := 0; k < 4; k++ {
		cases = append(cases, pathCase{out: []string{"o.txt", "d/o.txt", "d/e/o.txt", "o.dat"}[k], in: "i.txt", dangle: true, gof: k == 3})
	}
	for k := 0; k < c.Pick(16, 60); k++ {
		cases = append(cases, pathCase{out: []string{"d/o.txt", "../o.txt", "ABS/x/o.txt", "d.x/0/o.txt", "ABS/o.txt", "./a-b_c/o.txt"}[k%6], in: "i.txt", stream: true, extras: k%4 == 3})
	}
	// additional files whose names contain blanks and shell metacharacters
	for k := 0; k < c.Pick(4, 12); k++ {
		cases = append(cases, pathCase{out: []string{"o.txt", "d/e/o.txt", "../o.txt", "ABS/x/o.txt"}[k%4], in: "i.txt", sextras: true, gof: k%3 == 2})
	}
	// inputs that carry several tags (the task identity, hence its working directory, depends on them)
	for k := 0; k < c.Pick(8, 24); k++ {
		cases = append(cases, pathCase{out: []string{"o.txt", "d/e/o.txt", "../o.txt", "ABS/x/o.txt"}[k%4], in: []string{"i.txt", "d/i.txt", "../up/i.txt"}[k%3], tagged: true, extras: k%2 == 0, gof: k%5 == 4})
	}
	run.Parallel(len(cases), func(i int) {
		pc := cases[i]
		root := c.CaseDir()
		defer c.Drop(root)
		abs := filepath.Join(root, "abs")
		sub := func(p string) string {
			if strings.HasPrefix(p, "ABS/") {
				return abs + "/" + p[4:]
			}
			return p
		}
		out, in := sub(pc.out), sub(pc.in)
		wdRel := "l1/l2/wd"
		wdAbs := filepath.Join(root, wdRel)
		resolve := func(p string) string {
			if filepath.IsAbs(p) {
				return filepath.Clean(p)
			}
			return filepath.Clean(filepath.Join(wdAbs, p))
		}
		if resolve(out) == resolve(in) || resolve(out)+".audit.json" == resolve(in) || strings.HasPrefix(resolve(in), resolve(out)+"/") || strings.HasPrefix(resolve(out), resolve(in)+"/") {
			return
		}
		s := &spec.Spec{Name: "path", MaxTasks: 2, Sources: map[string]string{in: "input of case\n"}}
		if strings.HasPrefix(out, "../") || filepath.IsAbs(out) || strings.HasPrefix(out, "./../") {
			s.Dirs = append(s.Dirs, filepath.Dir(out))
		}
		kind := spec.KCmd
		if pc.gof {
			kind = spec.KGoFunc
		}
		opts := map[string]string{}
		var extras []string
		if pc.extras {
			extras = []string{"side.log", "sub/deep/x.log", "zz.log"}
			if pc.lextras {
				extras = append(extras, "latest.lnk@@side.log", "sub/deep/cur.lnk@@x.log")
			}
			opts["extra"] = strings.Join(extras, ",")
		}
		var behav vproto.Behaviours
		if pc.sextras {
			extras = []string{"run 1.log", "a&b.txt", "semi;colon.txt", "it's.txt", "star*.txt", "sub dir/x y.log", "-dash.txt", "$HOME.txt", "z_last.txt"}
			behav = vproto.Behaviours{"P": {"extra": strings.Join(extras, ",")}} // (through the behaviours file: the names cannot be written on a command line unquoted)
		}
		s.Procs = append(s.Procs, &spec.Proc{Name: "src", Kind: spec.KFileSource, Files: []string{in}},
			&spec.Proc{Name: "P", Kind: kind, WriteAPI: pc.wapi, Cmd: spec.BuildCmd("P", []spec.PortDecl{{Name: "in"}}, []spec.PortDecl{{Name: "out"}}, nil, nil, opts), Outs: []*spec.Out{{Port: "out", Pattern: out}}})
		s.Conns = append(s.Conns, &spec.Conn{From: "src.out", To: "P.in"})
		if i%5 == 2 && !pc.join && !pc.stream {
			// the placeholder carries an extension spec ({o:out|.dat}); with a SetOut pattern it changes nothing
			s.Proc("P").Cmd = spec.BuildCmd("P", []spec.PortDecl{{Name: "in"}}, []spec.PortDecl{{Name: "out", Ext: "dat"}}, nil, nil, opts)
		}
		if pc.join {
			p := s.Proc("P")
			p.Cmd = spec.BuildCmd("P", []spec.PortDecl{{Name: "in", Join: "space"}}, []spec.PortDecl{{Name: "out"}}, nil, nil, opts)
			s.Procs = append(s.Procs, &spec.Proc{Name: "SS", Kind: spec.KSubStream})
			s.Conns = []*spec.Conn{{From: "src.out", To: "SS.in"}, {From: "SS.substream", To: "P.in"}}
		}
		if pc.stream {
			p := s.Proc("P")
			p.Cmd = spec.BuildCmd("P", []spec.PortDecl{{Name: "in"}}, []spec.PortDecl{{Name: "out"}, {Name: "sout", Stream: true}}, nil, nil, opts)
			s.Procs = append(s.Procs, &spec.Proc{Name: "CONS", Kind: spec.KCmd, Cmd: spec.BuildCmd("CONS", []spec.PortDecl{{Name: "in"}}, []spec.PortDecl{{Name: "out"}}, nil, nil, nil),
				Outs: []*spec.Out{{Port: "out", Pattern: "cons.out"}}})
			s.Conns = append(s.Conns, &spec.Conn{From: "P.sout", To: "CONS.in"})
		}
		if pc.tagged {
			s.Procs = append(s.Procs, &spec.Proc{Name: "TAG", Kind: spec.KMapToTags, Tags: []*spec.TagRule{{Key: "sample", Rule: "stem"}, {Key: "kind", Rule: "ext"}, {Key: "batch", Rule: "const:b7"}}})
			s.Conns = []*spec.Conn{{From: "src.out", To: "TAG.in"}, {From: "TAG.out", To: "P.in"}}
		}
		if pc.dangle {
			s.Links = map[string]string{out: "purged-scratch/result-of-an-earlier-run"}
		}
		if pc.link {
			s.Links = map[string]string{"lnk": "store/proj/data"}
			s.Dirs = append(s.Dirs, "store/proj/data")
			s.Sources = map[string]string{"store/proj/ref/i.txt": "input of case\n", "ref/i.txt": "DECOY at the lexically cleaned path\n"}
		}
		if i%7 == 3 && !pc.join && !pc.stream && !pc.tagged && !pc.wapi {
			// the task's working directory is named after its process: names that are long, or that contain characters a
			// directory name cannot hold, still give a directory directly below the working directory from which ../<input>
			// and the encoded output path resolve
			pname := []string{strings.Repeat("n", 202) + fmt.Sprint(i%10), "qc/step", strings.Repeat("Long_Name-", 21) + "x", "a b:c", "grp/sub/deep.er"}[(i/7)%5]
			s.Procs[1].Name = pname
			s.Conns[0].To = pname + ".in"
		}
		cs := &run.Case{Root: root, Bin: c.Bin, Spec: s, WdRel: wdRel, Behav: behav, Env: map[string]string{"SCIPIPE_BUFSIZE": "4"}}
		c.Eval(1)
		res := cs.Run()
		desc := map[string]interface{}{"output_path": pc.out, "input_path": pc.in, "extras": pc.extras, "gofunc": pc.gof, "write_api": pc.wapi, "input_through_symlinked_dir": pc.link, "symlink_extras": pc.lextras, "joined_input": pc.join, "streaming_port_beside": pc.stream, "dangling_symlink_at_output_path": pc.dangle, "input_with_three_tags": pc.tagged, "additional_files_with_special_names": pc.sextras, "spec": s}
		known := oddSegment(pc.out) || oddSegment(pc.in)
		sigSfx := ""
		if known {
			sigSfx = ":segment-ending-in-dotdot"
		}
		if res.Hang != "" {
			c.Inconclusive(res.Hang)
			return
		}
		ti := mon.Index(res.Trace)
		if res.Exit != 0 || !res.Returned {
			why := "workflow failed"
			for _, es := range ti.Ends {
				for _, e := range es {
					if e.Status == 4 {
						why = "the input placeholder did not resolve to the input file (" + e.Note + ")"
					}
				}
			}
			c.Violation("valid-path-fails"+sigSfx, fmt.Sprintf("output path %q, input path %q: %s (exit %d): %s", pc.out, pc.in, why, res.Exit, tail(res.Output(), 300)), desc)
			return
		}
		// find the token
		var inSha string
		for _, es := range ti.Ends {
			for _, e := range es {
				if e.ID == "P" {
					inSha = e.Ins["in"]
				}
			}
		}
		content := vproto.Content("P", "out", nil, nil, []vproto.KV{{K: "in", V: vproto.Sha([]byte("input of case\n"))}}, nil, 40)
		if pc.join {
			// the content written by the command names the bytes it read through the joined placeholder
			content = vproto.Content("P", "out", nil, nil, nil, []string{vproto.Sha([]byte("input of case\n"))}, 40)
		}
		want := vproto.Sha(content)
		if !pc.join && inSha != vproto.Sha([]byte("input of case\n")) {
			c.Violation("input-placeholder-read-other-file"+sigSfx, fmt.Sprintf("input path %q: the command read a file with sha %s through the placeholder, not the input file", pc.in, clip(inSha, 12)), desc)
			return
		}
		snap := run.Snap(root)
		var found []string
		for p, e := range snap {
			if e.Mode == "f" && e.Sha == want && !strings.HasPrefix(p, "meta/") {
				found = append(found, p)
			}
		}
		sort.Strings(found)
		exp, _ := filepath.Rel(root, resolve(out))
		var ps []string
		if len(found) != 1 || found[0] != exp {
			ps = append(ps, fmt.Sprintf("the file written at the output placeholder is at %v, declared path resolves to %s", found, exp))
		}
		for _, ex := range extras {
			if k := strings.Index(ex, "@@"); k > 0 {
				target, err := os.Readlink(filepath.Join(wdAbs, ex[:k]))
				if err != nil || target != ex[k+2:] {
					ps = append(ps, fmt.Sprintf("additional symbolic link %s is not at the same relative location under the working directory (readlink: %q, %v)", ex, target, err))
				}
				continue
			}
			e, ok := snap[filepath.Join(wdRel, ex)]
			if !ok || e.Sha != vproto.Sha(vproto.ExtraContent("P", ex)) {
				ps = append(ps, "additional file "+ex+" is not at the same relative location under the working directory")
			}
		}
		for _, l := range snap.Leftovers() {
			ps = append(ps, "left behind: "+l)
		}
		if len(ps) > 0 {
			c.Violation("file-not-at-declared-path"+sigSfx, fmt.Sprintf("output path %q, input path %q: %s", pc.out, pc.in, strings.Join(ps, "; ")), desc)
			return
		}
		c.Nontrivial(fmt.Sprintf("%s|%s|%v|%v|%v|%v|%v", pc.out, pc.in, pc.extras, pc.gof, pc.wapi, pc.link, pc.lextras) + fmt.Sprintf("|%v|%v|%v|%v|%v|%d", pc.join, pc.stream, pc.dangle, pc.tagged, pc.sextras, i%6))
		c.Count("cases_go_function_write_api", map[bool]int{true: 1, false: 0}[pc.wapi])
		c.Count("cases_with_additional_files", map[bool]int{true: 1, false: 0}[pc.extras])
		if i%80 == 0 {
			c.Sample(map[string]interface{}{"output_path": pc.out, "input_path": pc.in, "found_at": exp, "additional_files": extras, "gofunc": pc.gof})
		}
	})
	c13sharedExtras(c)
	c.Finish()
}

// c13sharedExtras: two consecutive tasks create an additional file of the same name (a log, a checksum): after the
// run the file at that relative location under the working directory is the one the later task wrote; and the history
// 'run, remove the declared outputs, run again with another input': the additional files are those of the second run.
func c13sharedExtras(c *chk.Ctx) {
	run.Parallel(c.Pick(4, 12), func(i int) {
		root := c.CaseDir()
		defer c.Drop(root)
		in, o1 := []spec.PortDecl{{Name: "in"}}, []spec.PortDecl{{Name: "out"}}
		extra := []string{"side.log", "checks/input.md5", "a/b/last_step.txt"}[i%3]
		mk := func(content string) *spec.Spec {
			s := &spec.Spec{Name: "sharedextra", MaxTasks: 2, Sources: map[string]string{"in.txt": content}}
			s.Procs = append(s.Procs, &spec.Proc{Name: "src", Kind: spec.KFileSource, Files: []string{"in.txt"}},
				&spec.Proc{Name: "P", Kind: []string{spec.KCmd, spec.KGoFunc}[i%2], Cmd: spec.BuildCmd("P", in, o1, nil, nil, map[string]string{"extra": extra}), Outs: []*spec.Out{{Port: "out", Pattern: "res/p.out"}}},
				&spec.Proc{Name: "Q", Kind: spec.KCmd, Cmd: spec.BuildCmd("Q", in, o1, nil, nil, map[string]string{"extra": extra}), Outs: []*spec.Out{{Port: "out", Pattern: "res/q.out"}}})
			s.Conns = append(s.Conns, &spec.Conn{From: "src.out", To: "P.in"}, &spec.Conn{From: "P.out", To: "Q.in"})
			if dir := filepath.Dir(extra); dir != "." && i%2 == 0 {
				// a step in between tidies the directory of the additional file away: the later task's file still gets there
				top := strings.Split(dir, "/")[0]
				s.Procs = append(s.Procs, &spec.Proc{Name: "M", Kind: spec.KCmd, Cmd: "rm -rf ../" + top + " && " + spec.BuildCmd("M", in, o1, nil, nil, nil), Outs: []*spec.Out{{Port: "out", Pattern: "res/m.out"}}})
				s.Conns = []*spec.Conn{{From: "src.out", To: "P.in"}, {From: "P.out", To: "M.in"}, {From: "M.out", To: "Q.in"}}
			}
			return s
		}
		s := mk("first input\n")
		desc := map[string]interface{}{"additional_file": extra, "spec": s}
		res := execSpec(c, root, s, Cfg{Buf: 3, Procs: 2}, nil, false, 0)
		if res.Hang != "" {
			c.Inconclusive(res.Hang)
			return
		}
		if res.Exit != 0 || !res.Returned {
			c.Violation("valid-path-fails", fmt.Sprintf("two tasks with an additional file of the same name: exit %d: %s", res.Exit, tail(res.Output(), 400)), desc)
			return
		}
		b, err := os.ReadFile(filepath.Join(res.Wd, extra))
		if err != nil || string(b) != string(vproto.ExtraContent("Q", extra)) {
			c.Violation("file-not-at-declared-path", fmt.Sprintf("additional file %s created by P and then by Q: after the run it holds %q, the later task wrote %q (%v)", extra, clip(string(b), 60), clip(string(vproto.ExtraContent("Q", extra)), 60), err), desc)
			return
		}
		// history: the additional file of the first run is replaced by a marker (what an outdated result looks like), the
		// declared outputs are removed, the workflow runs again
		os.WriteFile(filepath.Join(res.Wd, extra), []byte("stale content from an earlier run\n"), 0644)
		os.Remove(filepath.Join(res.Wd, "res/p.out"))
		os.Remove(filepath.Join(res.Wd, "res/q.out"))
		os.Remove(filepath.Join(res.Wd, "res/m.out"))
		r2 := execSpec(c, root, s, Cfg{Buf: 3, Procs: 2}, nil, true, 1)
		if r2.Hang != "" {
			c.Inconclusive(r2.Hang)
			return
		}
		b2, err2 := os.ReadFile(filepath.Join(r2.Wd, extra))
		if r2.Exit != 0 || err2 != nil || string(b2) != string(vproto.ExtraContent("Q", extra)) {
			desc["history"] = "run; the additional file replaced by other content, the declared outputs removed; run again"
			c.Violation("file-not-at-declared-path", fmt.Sprintf("second run (exit %d): additional file %s holds %q, the tasks of this run wrote %q", r2.Exit, extra, clip(string(b2), 60), clip(string(vproto.ExtraContent("Q", extra)), 60)), desc)
			return
		}
		c.Count("cases_with_additional_files", 1)
		c.Nontrivial(fmt.Sprintf("sharedextra|%s|%d", extra, i%2))
	})
}
