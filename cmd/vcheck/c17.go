package main

import (
	"fmt"
	"os"
	"os/exec"
	"path/filepath"
	"strings"

	"verif/internal/chk"
	"verif/internal/mon"
	"verif/internal/ref"
	"verif/internal/run"
	"verif/internal/spec"
	"verif/internal/vproto"
)

func init() { checks["C17"] = c17 }

// streamSpec: src(n) -> PROD ({os:out} [+ regular 'side' output]) -> CONS
func streamSpec(name string, n, max int, mixed bool) *spec.Spec {
	return streamSpecAt(name, n, max, mixed, "st/")
}

// streamSpecAt places the stream path below prefix (a directory that need not exist yet).
func streamSpecAt(name string, n, max int, mixed bool, prefix string) *spec.Spec {
	s := &spec.Spec{Name: name, MaxTasks: max, Sources: map[string]string{}}
	src := &spec.Proc{Name: "src", Kind: spec.KFileSource}
	for i := 0; i < n; i++ {
		f := fmt.Sprintf("s%d.txt", i)
		src.Files = append(src.Files, f)
		s.Sources[f] = fmt.Sprintf("stream source %d\n", i)
	}
	outs := []spec.PortDecl{{Name: "out", Stream: true}}
	if mixed {
		outs = append(outs, spec.PortDecl{Name: "side"})
	}
	s.Procs = append(s.Procs, src,
		&spec.Proc{Name: "PROD", Kind: spec.KCmd, Cmd: spec.BuildCmd("PROD", []spec.PortDecl{{Name: "in"}}, outs, nil, nil, nil),
			Outs: []*spec.Out{{Port: "out", Pattern: prefix + "{i:in|basename}.stream"}}},
		&spec.Proc{Name: "CONS", Kind: spec.KCmd, Cmd: spec.BuildCmd("CONS", []spec.PortDecl{{Name: "in"}}, []spec.PortDecl{{Name: "out"}}, nil, nil, nil),
			Outs: []*spec.Out{{Port: "out", Pattern: "{i:in|basename}.consumed"}}})
	s.Conns = append(s.Conns, &spec.Conn{From: "src.out", To: "PROD.in"}, &spec.Conn{From: "PROD.out", To: "CONS.in"})
	if mixed {
		// the regular output of the producer has a consumer of its own: it must receive every item
		s.Procs = append(s.Procs, &spec.Proc{Name: "SIDE", Kind: spec.KCmd, Cmd: spec.BuildCmd("SIDE", []spec.PortDecl{{Name: "in"}}, []spec.PortDecl{{Name: "out"}}, nil, nil, nil)})
		s.Conns = append(s.Conns, &spec.Conn{From: "PROD.side", To: "SIDE.in"})
	}
	return s
}

func c17(args []string) {
	c := chk.New("C17", "exploration", args)
	c.Build(false)
	c.Rule("[shell pipelines] producers that are pipelines whose first stage is cut off by the second (yes | head, seq | head -c) and consumers that are plain tools: the consumer's copy equals what the pipeline prints; [through components] the streamed item passes MapToTags or IPSelectorSync before its consumer: the consumer is given the FIFO, reads the producer's bytes, no pipe or regular file stays; [shapes] a producer task with two streaming ports and a consumer for each; a consumer with a joined in-port beside the streamed one (bytes, pipes gone at return, the producer named in the consumer's record); producer/consumer pairs connected by an {os:..} port: n in {1,2,4} (and 12, 24, 40 with the producers exiting last) streamed items with maxConcurrentTasks in 2n..2n+2 (the producer's regular output, when it has one, feeds a consumer of its own), payload sizes {0,1,4095,65536,65537,1 MiB} (below and above the pipe buffer), exit order forced both ways (producer or consumer lingers after closing its files), producers with only a streaming output and with an additional regular output, producer and consumer taking different numbers of slots with maxConcurrentTasks exactly their sum, two producer processes streaming into one in-port of the consumer, consumers with an ordinary in-port beside the streamed one, every third producer also prints 220 kB to stdout / stderr, the re-run histories put the consumer's own output below plain / nested / parent-relative / absolute directories, every fourth run in a working directory whose path contains blanks, SCIPIPE_BUFSIZE and yield seeds varied; history 'complete run, then run again'; oracle: sha256 the consumer read through the FIFO == sha256 the producer wrote (both logged by the commands), consumer output == reference, at the instant Run returns no FIFO and no regular file at the stream path, consumer audit names the producer under Upstream[stream path], hang classification incl. FIFO-blocked children (wchan), re-run terminates and leaves inode/mtime/bytes of consumer outputs untouched. distinct_nontrivial = distinct (n, max, size, exit order, mixed, config) runs whose byte comparison was made")
	c.Assume("one consumer per streaming port; maxConcurrentTasks >= 2n (each producer and its consumer can run at the same time)")
	rng := c.Rand("c17")
	type job struct {
		aux          bool // the consumer has a second, ordinary in-port beside the streamed one
		n, max, size int
		order        string // none | producer-last | consumer-last
		mixed        bool
		rerun        bool
		pc, cc       int  // cores per task of the producer / the consumer (0: default)
		fanin        bool // a second producer process streams into the same in-port of the consumer
		chatter      bool // the producers print 220 kB of progress lines to stdout / stderr
		cshape       int  // re-run histories: where the consumer's own output lies (0 plain, 1 parent-relative, 2 absolute, 3 nested)
		cfg          Cfg
	}
	var jobs []*job
	sizes := []int{0, 1, 4095, 65536, 65537, 1 << 20}
	for _, n := range []int{1, 2, 4} {
		for si, size := range sizes {
			for oi, order := range []string{"none", "producer-last", "consumer-last"} {
				if !c.Thorough() && (si+oi+n)%2 == 1 {
					continue
				}
				reps := c.Pick(2, 6)
				for r := 0; r < reps; r++ {
					jobs = append(jobs, &job{n: n, max: 2*n + rng.Intn(3), size: size, order: order, mixed: (si+oi+r)%2 == 0,
						cfg: Cfg{Buf: []int{1, 3, 128}[rng.Intn(3)], Procs: []int{1, 2, 4}[rng.Intn(3)], Sched: fmt.Sprintf("%d,300,500", rng.Intn(1<<30))}})
				}
			}
		}
	}
	// many items through one producer process, the producers exiting after their consumers:
	// whatever the process does after its last task races with Run returning
	for _, n := range []int{12, 24, 40} {
		for r := 0; r < c.Pick(6, 16); r++ {
			jobs = append(jobs, &job{n: n, max: 2 * n, size: []int{1, 4095}[r%2], order: "producer-last", mixed: r%4 == 3,
				cfg: Cfg{Buf: []int{1, 3, 128}[rng.Intn(3)], Procs: []int{2, 4, 16}[rng.Intn(3)]}})
			if r%2 == 1 {
				// every hook point (one sits right behind the closing of an in-port channel) delays its goroutine by up to 2 ms
				jobs[len(jobs)-1].cfg.Sched = fmt.Sprintf("%d,1000,2000", rng.Intn(1<<30))
			}
		}
	}
	// the consumer has an ordinary in-port beside the streamed one and exits before its producer (which in-port the
	// library looks at first is a matter of map order, so the case is repeated)
	for _, n := range []int{1, 2} {
		for r := 0; r < c.Pick(5, 12); r++ {
			jobs = append(jobs, &job{aux: true, n: n, max: 2*n + 1, size: 4095, order: "producer-last", mixed: r%2 == 0, cfg: Cfg{Buf: []int{1, 128}[r%2], Procs: []int{2, 4}[r%2]}})
		}
	}
	// the two ends of a FIFO take different numbers of slots; the workflow has exactly the sum (times n)
	for k, cores := range [][2]int{{3, 1}, {1, 3}, {2, 1}, {4, 2}, {1, 2}, {5, 1}} {
		if !c.Thorough() && k >= 4 {
			break
		}
		for _, n := range []int{1, 2} {
			jobs = append(jobs, &job{n: n, pc: cores[0], cc: cores[1], max: n*(cores[0]+cores[1]) + k%2, size: 4095, order: []string{"none", "producer-last", "consumer-last"}[(k+n)%3], mixed: false,
				cfg: Cfg{Buf: []int{1, 128}[k%2], Procs: 4}})
		}
	}
	// two producer processes stream into the same in-port of one consumer process (every streaming port still has one consumer)
	for _, n := range []int{1, 2, 3} {
		for r := 0; r < c.Pick(2, 5); r++ {
			jobs = append(jobs, &job{n: n, fanin: true, max: 4*n + r%2, size: []int{1, 4095, 65537}[r%3], order: []string{"none", "producer-last", "consumer-last"}[(r+n)%3], mixed: r%2 == 1,
				cfg: Cfg{Buf: []int{1, 3, 128}[rng.Intn(3)], Procs: []int{2, 4}[r%2], Sched: fmt.Sprintf("%d,300,500", rng.Intn(1<<30))}})
		}
	}
	for _, n := range []int{1, 2} {
		for _, mixed := range []bool{true, false} {
			for r := 0; r < c.Pick(1, 4); r++ {
				jobs = append(jobs, &job{n: n, max: 2 * n, size: 70000, order: "none", mixed: mixed, rerun: true, cshape: (n + 2*r) % 4, cfg: Cfg{Buf: 128, Procs: 4, SoftSec: 5}})
			}
		}
	}
	run.Parallel(len(jobs), func(i int) {
		j := jobs[i]
		root := c.CaseDir()
		defer c.Drop(root)
		prefix := []string{"st/", "", "st/deep/er/", "../sup/", root + "/abs/sdir/"}[i%5]
		if j.rerun {
			prefix = "st/"
		}
		s := streamSpecAt(fmt.Sprintf("st%d", i), j.n, j.max, j.mixed, prefix)
		if j.rerun && j.mixed {
			// the consumer's own output below a parent-relative / absolute / nested directory
			s.Proc("CONS").Outs = []*spec.Out{{Port: "out", Pattern: []string{"{i:in|basename}.consumed", "../cons_up/{i:in|basename}.consumed", root + "/abs/cons/{i:in|basename}.consumed", "c/d/{i:in|basename}.consumed"}[j.cshape]}}
			s.Dirs = append(s.Dirs, "../cons_up", root+"/abs/cons")
		}
		if i%3 == 1 && j.size <= 65537 {
			// a chatty producer: 220 kB of progress lines on stdout / stderr beside the streamed payload
			j.chatter = true
		}
		prods := []string{"PROD"}
		if j.pc > 0 {
			s.Proc("PROD").Cores, s.Proc("CONS").Cores = j.pc, j.cc
		}
		if j.fanin {
			p2 := *s.Proc("PROD")
			p2.Name = "PROD2"
			p2.Cmd = strings.Replace(p2.Cmd, "id=PROD", "id=PROD2", 1)
			p2.Outs = []*spec.Out{{Port: "out", Pattern: prefix + "{i:in|basename}.stream2"}}
			s.Procs = append(s.Procs, &p2)
			s.Conns = append(s.Conns, &spec.Conn{From: "src.out", To: "PROD2.in"}, &spec.Conn{From: "PROD2.out", To: "CONS.in"})
			if j.mixed {
				s.Conns = append(s.Conns, &spec.Conn{From: "PROD2.side", To: "SIDE.in"})
			}
			prods = append(prods, "PROD2")
		}
		if j.aux {
			cons := s.Proc("CONS")
			// both declaration orders: Go visits the entries of a small map mostly in insertion order (7 times in 8)
			ports := []spec.PortDecl{{Name: "aux"}, {Name: "in"}}
			if i%3 == 2 {
				ports = []spec.PortDecl{{Name: "in"}, {Name: "aux"}}
			}
			cons.Cmd = spec.BuildCmd("CONS", ports, []spec.PortDecl{{Name: "out"}}, nil, nil, nil)
			s.Conns = append(s.Conns, &spec.Conn{From: "src.out", To: "CONS.aux"})
		}
		bh := vproto.Behaviours{}
		for _, pn := range prods {
			bh[pn] = map[string]string{"size": fmt.Sprint(j.size)}
			if j.order == "producer-last" {
				bh[pn]["post"] = "150"
				if j.aux {
					bh[pn]["post"] = "700" // the producer must still be running when the consumer is long done, also on a loaded machine
				}
			}
			if j.size > 70000 {
				bh[pn]["pause"] = "20"
			}
			if j.chatter {
				bh[pn]["chatter"] = "220000"
			}
		}
		if j.order == "consumer-last" {
			bh["CONS"] = map[string]string{"post": "150"}
		}
		exp := ref.Eval(&ref.Input{Spec: s, Files: sourcesOf(s), Behav: bh})
		if exp.Err != "" {
			c.Broken("reference cannot evaluate the streaming workflow: " + exp.Err)
		}
		desc := map[string]interface{}{"stream_path_prefix": prefix, "n": j.n, "max": j.max, "payload_size": j.size, "exit_order": j.order, "producer_has_regular_output": j.mixed, "producer_cores": j.pc, "consumer_cores": j.cc, "two_producers_one_in_port": j.fanin, "chatty_producer": j.chatter, "cfg": j.cfg, "spec": s, "behav": bh}
		if !j.rerun && i%4 == 2 {
			j.cfg.WdRel = "my project/run 1" // the workflow's working directory has blanks in its name
		}
		cfg1 := j.cfg
		cfg1.SoftSec = 0
		res := execSpec(c, root, s, cfg1, bh, false, 0)
		if res.Hang != "" {
			if strings.HasPrefix(res.Hang, "deadlock") {
				c.Violation("streaming-hang", "streaming run did not terminate: "+res.Hang+"\n"+res.HangInfo, desc)
			} else {
				c.Inconclusive(res.Hang)
			}
			return
		}
		var ps []mon.Problem
		if res.Exit != 0 || !res.Returned {
			ps = append(ps, mon.Problem{Sig: "streaming-run-failed", Msg: fmt.Sprintf("exit %d: %s", res.Exit, tail(res.Output(), 500))})
		} else {
			ti := mon.Index(res.Trace)
			// bytes
			for _, ct := range exp.ByProc["CONS"] {
				pt := ct.In["in"].Producer
				var psha, csha string
				for _, e := range ti.Ends[pt.Key] {
					psha = e.Outs["out"]
				}
				for _, e := range ti.Ends[ct.Key] {
					csha = e.Ins["in"]
				}
				if psha == "" || csha == "" || psha != csha {
					ps = append(ps, mon.Problem{Sig: "stream-bytes-differ", Msg: fmt.Sprintf("producer %s wrote sha %s, consumer read sha %s", pt.Key, clip(psha, 12), clip(csha, 12))})
				}
			}
			ps = append(ps, mon.ExactlyOnce(ti, exp)...)
			snap := run.Snap(res.Wd)
			if j.rerun && j.mixed {
				ps = append(ps, filesMatchRoot(root, exp, s)...) // (the consumer's output may lie outside the working directory)
			} else {
				ps = append(ps, mon.FilesMatch(snap, exp, preSet(s))...)
			}
			// at the instant Run returned
			for _, l := range res.Ret.Listing {
				if l.Mode == "p" || strings.HasSuffix(l.Path, ".fifo") {
					ps = append(ps, mon.Problem{Sig: "fifo-left", Msg: "FIFO " + l.Path + " exists when Run returns"})
				}
				for _, pn := range prods {
					for _, pt := range exp.ByProc[pn] {
						if l.Path == filepath.Clean(pt.Outs["out"]) {
							ps = append(ps, mon.Problem{Sig: "regular-file-at-stream-path", Msg: l.Path + " exists (mode " + l.Mode + ") when Run returns"})
						}
					}
				}
			}
			// audit
			for _, ct := range exp.ByProc["CONS"] {
				ap := filepath.Join(res.Wd, ct.Outs["out"]+".audit.json")
				if filepath.IsAbs(ct.Outs["out"]) {
					ap = ct.Outs["out"] + ".audit.json"
				}
				a, err := mon.LoadAudit(ap)
				if err != nil {
					ps = append(ps, mon.Problem{Sig: "audit-file-unreadable", Msg: err.Error()})
					continue
				}
				up := a.Upstream[ct.In["in"].Path]
				if up == nil {
					ps = append(ps, mon.Problem{Sig: "consumer-audit-lacks-stream-key", Msg: fmt.Sprintf("audit of %s has Upstream keys %v, expected %s", ct.Outs["out"], keysOfAudit(a), ct.In["in"].Path)})
				} else if up.ProcessName != ct.In["in"].Producer.Proc || up.Command == "" {
					// Logical criterion from the hook event log (one global order): if the producer task had
					// written its audit info before the consumer's command was done, the consumer must see it.
					sig := "consumer-audit-does-not-name-producer"
					var prodAudit, consDone int64 = -1, -1
					// the temp directory of a task is taken from the working directory its command reported
					tmpOf := func(key string) string {
						for _, st := range ti.Starts[key] {
							return filepath.Base(st.Cwd)
						}
						return "?"
					}
					prodTmp, consTmp := tmpOf(ct.In["in"].Producer.Key), tmpOf(ct.Key)
					for _, e := range res.Events {
						if e.Pt == "task.audit_written" && e.Tmp == prodTmp {
							prodAudit = e.Seq
						}
						if e.Pt == "task.cmd_done" && e.Tmp == consTmp {
							consDone = e.Seq
						}
					}
					if prodAudit < 0 || consDone < 0 {
						sig += ":unordered"
					} else if consDone < prodAudit {
						sig += ":consumer-command-done-before-producer-audit-written"
					}
					ps = append(ps, mon.Problem{Sig: sig, Msg: fmt.Sprintf("audit of %s: Upstream[%s] has ProcessName %q and Command %q instead of the producing task", ct.Outs["out"], ct.In["in"].Path, up.ProcessName, up.Command)})
				}
			}
		}
		if len(ps) > 0 {
			allKnown := true
			for _, sig := range sigSet(ps) {
				desc["problems"] = mon.Summarize(ps, 12)
				if !c.Violation(sig, fmt.Sprintf("n=%d max=%d size=%d order=%s mixed=%v:\n  %s", j.n, j.max, j.size, j.order, j.mixed, strings.Join(mon.Summarize(ps, 4), "\n  ")), desc) {
					allKnown = false
				}
			}
			if !allKnown {
				return
			}
			// only the known audit finding: the byte comparison, listing and exactly-once oracles all held
			c.Count("streamed_items_compared", j.n*len(prods))
			c.Nontrivial(fmt.Sprintf("%d|%d|%d|%s|%v|%d|%d|%v|%v", j.n, j.max, j.size, j.order, j.mixed, j.pc, j.cc, j.fanin, j.cfg))
			if !j.rerun {
				return
			}
		} else {
			c.Count("streamed_items_compared", j.n*len(prods))
			c.Nontrivial(fmt.Sprintf("%d|%d|%d|%s|%v|%d|%d|%v|%v", j.n, j.max, j.size, j.order, j.mixed, j.pc, j.cc, j.fanin, j.cfg))
		}
		if !j.rerun {
			if i%9 == 0 {
				c.Sample(map[string]interface{}{"n": j.n, "max": j.max, "payload_size": j.size, "exit_order": j.order, "producer_has_regular_output": j.mixed, "cfg": j.cfg, "bytes_equal": true})
			}
			return
		}
		// history: complete run, then run again
		before := mon.SnapRoot(root)
		r2 := execSpec(c, root, s, j.cfg, bh, true, 1)
		var rp []mon.Problem
		if r2.Hang != "" {
			if strings.HasPrefix(r2.Hang, "deadlock") {
				sig := "rerun-hang"
				// the known finding is tied to its cause, not to what /proc shows at the moment of the dump: the producer has
				// only streaming outputs and the trace of the second run shows that its command was started again
				prodRestarted := false
				for _, e := range r2.Trace {
					if e.Ev == "start" && e.ID == "PROD" {
						prodRestarted = true
					}
				}
				if !j.mixed && prodRestarted {
					sig = "rerun-hang:streaming-only-producer-reexecuted-blocks-on-readerless-fifo"
				}
				rp = append(rp, mon.Problem{Sig: sig, Msg: "re-running the completed streaming workflow does not terminate: " + r2.Hang + "\n" + clip(r2.HangInfo, 1200)})
			} else {
				c.Inconclusive("re-run: " + r2.Hang)
				return
			}
		} else if r2.Exit != 0 || !r2.Returned {
			rp = append(rp, mon.Problem{Sig: "rerun-failed", Msg: fmt.Sprintf("re-run exited %d: %s", r2.Exit, tail(r2.Output(), 400))})
		}
		after := mon.SnapRoot(root)
		var outs []string
		for _, ct := range exp.ByProc["CONS"] {
			outs = append(outs, mon.RootRel(root, ct.Outs["out"]))
		}
		rp = append(rp, statChanges(before, after, outs)...)
		if r2.Hang == "" {
			for _, l := range after.Leftovers() {
				rp = append(rp, mon.Problem{Sig: "rerun-leftover", Msg: "re-run left " + l})
			}
		}
		if len(rp) > 0 {
			for _, sig := range sigSet(rp) {
				desc["history"] = "complete run, then run again"
				desc["problems"] = mon.Summarize(rp, 12)
				c.Violation(sig, fmt.Sprintf("re-run, n=%d mixed=%v:\n  %s", j.n, j.mixed, strings.Join(mon.Summarize(rp, 3), "\n  ")), desc)
			}
			return
		}
		c.Count("rerun_histories_ok", 1)
		c.Nontrivial(fmt.Sprintf("rerun|%d|%v|%d", j.n, j.mixed, j.cshape))
	})
	c17shapes(c)
	c17throughComponents(c)
	c17shellProducers(c)
	c.Finish()
}

func keysOfAudit(a *mon.AuditJSON) []string {
	var ks []string
	for k := range a.Upstream {
		ks = append(ks, k)
	}
	return ks
}

// filesMatchRoot compares the files below the case root (working directory, parent-relative and absolute areas)
// with the reference.
func filesMatchRoot(root string, exp *ref.Result, s *spec.Spec) []mon.Problem {
	snap := mon.SnapRoot(root)
	pre := preRootSet(root, s)
	want := map[string]bool{}
	var ps []mon.Problem
	for p, content := range exp.Files {
		fp := mon.RootRel(root, p)
		want[fp] = true
		if e, ok := snap[fp]; !ok {
			ps = append(ps, mon.Problem{Sig: "file-missing", Msg: p + " is missing"})
		} else if e.Sha != vproto.Sha(content) {
			ps = append(ps, mon.Problem{Sig: "file-content", Msg: p + " differs from the reference"})
		}
	}
	for _, p := range snap.Files() {
		if pre[p] || want[p] || mon.IsAuditFile(p) || strings.Contains(p, "_scipipe_tmp") {
			continue
		}
		ps = append(ps, mon.Problem{Sig: "file-unexpected", Msg: "additional file " + p})
	}
	return ps
}

// c17shapes: (a) a producer task with two streaming ports, each with a consumer of its own (tee shape): both consumers
// get their bytes, no pipe is left when Run returns; (b) a consumer that has a joined in-port ({i:refs|join: } behind
// StreamToSubStream) beside the streamed one: its record names the producing task under the stream path.
func c17shapes(c *chk.Ctx) {
	run.Parallel(c.Pick(6, 18), func(i int) {
		root := c.CaseDir()
		defer c.Drop(root)
		in, o1 := []spec.PortDecl{{Name: "in"}}, []spec.PortDecl{{Name: "out"}}
		two := i%2 == 0
		n := 1 + i%2
		s := &spec.Spec{Name: "streamshape", MaxTasks: 3*n + 2, Sources: map[string]string{"ref1.txt": "ref1\n", "ref2.txt": "ref2\n"}}
		src := &spec.Proc{Name: "src", Kind: spec.KFileSource}
		for k := 0; k < n; k++ {
			f := fmt.Sprintf("t%d.txt", k)
			src.Files = append(src.Files, f)
			s.Sources[f] = f + "\n"
		}
		s.Procs = append(s.Procs, src)
		bh := vproto.Behaviours{"CONS": {"post": "1200"}, "CONS2": {"post": "1200"}} // (the consumers outlive the producer: their records then name it - see the known finding)
		if two {
			orders := [][]spec.PortDecl{{{Name: "a", Stream: true}, {Name: "b", Stream: true}}, {{Name: "b", Stream: true}, {Name: "a", Stream: true}}}
			s.Procs = append(s.Procs, &spec.Proc{Name: "PROD", Kind: spec.KCmd, Cmd: spec.BuildCmd("PROD", in, orders[(i/2)%2], nil, nil, map[string]string{"size": []string{"300", "70000"}[(i/4)%2]}),
				Outs: []*spec.Out{{Port: "a", Pattern: "st/{i:in|basename}.a.stream"}, {Port: "b", Pattern: "st/{i:in|basename}.b.stream"}}},
				&spec.Proc{Name: "CONS", Kind: spec.KCmd, Cmd: spec.BuildCmd("CONS", in, o1, nil, nil, nil), Outs: []*spec.Out{{Port: "out", Pattern: "{i:in|basename}.c1"}}},
				&spec.Proc{Name: "CONS2", Kind: spec.KCmd, Cmd: spec.BuildCmd("CONS2", in, o1, nil, nil, nil), Outs: []*spec.Out{{Port: "out", Pattern: "{i:in|basename}.c2"}}})
			s.Conns = append(s.Conns, &spec.Conn{From: "src.out", To: "PROD.in"}, &spec.Conn{From: "PROD.a", To: "CONS.in"}, &spec.Conn{From: "PROD.b", To: "CONS2.in"})
		} else {
			s.Procs = append(s.Procs, &spec.Proc{Name: "PROD", Kind: spec.KCmd, Cmd: spec.BuildCmd("PROD", in, []spec.PortDecl{{Name: "out", Stream: true}}, nil, nil, nil), Outs: []*spec.Out{{Port: "out", Pattern: "st/{i:in|basename}.stream"}}},
				&spec.Proc{Name: "refs", Kind: spec.KFileSource, Files: []string{"ref1.txt", "ref2.txt"}}, &spec.Proc{Name: "SS", Kind: spec.KSubStream},
				&spec.Proc{Name: "CONS", Kind: spec.KCmd, Cmd: spec.BuildCmd("CONS", []spec.PortDecl{{Name: "in"}, {Name: "refs", Join: "space"}}, o1, nil, nil, nil), Outs: []*spec.Out{{Port: "out", Pattern: "{i:in|basename}.c1"}}})
			s.Conns = append(s.Conns, &spec.Conn{From: "src.out", To: "PROD.in"}, &spec.Conn{From: "PROD.out", To: "CONS.in"}, &spec.Conn{From: "refs.out", To: "SS.in"}, &spec.Conn{From: "SS.substream", To: "CONS.refs"})
			s.Sources = map[string]string{"ref1.txt": "ref1\n", "ref2.txt": "ref2\n", "t0.txt": "t0\n"}
			s.Proc("src").Files = []string{"t0.txt"} // one carrier of the sub-stream, one streamed item
			s.MaxTasks = 3
		}
		cfg := Cfg{Buf: []int{128, 1}[i%2], Procs: 4, NoHooks: i%4 >= 2}
		desc := map[string]interface{}{"two_streaming_ports": two, "spec": s, "cfg": cfg, "behav": bh}
		res := execSpec(c, root, s, cfg, bh, false, 0)
		if res.Hang != "" {
			if strings.HasPrefix(res.Hang, "deadlock") {
				c.Violation("streaming-hang", res.Hang+"\n"+clip(res.HangInfo, 800), desc)
			} else {
				c.Inconclusive(res.Hang)
			}
			return
		}
		var ps []mon.Problem
		if res.Exit != 0 || !res.Returned {
			ps = append(ps, mon.Problem{Sig: "streaming-run-failed", Msg: fmt.Sprintf("exit %d: %s", res.Exit, tail(res.Output(), 400))})
		} else {
			for _, l := range res.Ret.Listing {
				if l.Mode == "p" || strings.HasSuffix(l.Path, ".fifo") {
					ps = append(ps, mon.Problem{Sig: "fifo-left", Msg: "FIFO " + l.Path + " exists when Run returns"})
				}
			}
			ti := mon.Index(res.Trace)
			// bytes: what each consumer read through its streamed port is what the producer wrote on that port
			for _, cn := range []string{"CONS", "CONS2"} {
				port := map[string]string{"CONS": "a", "CONS2": "b"}[cn]
				if !two {
					port = "out"
					if cn == "CONS2" {
						continue
					}
				}
				for _, es := range ti.Ends {
					for _, e := range es {
						if e.ID != cn {
							continue
						}
						ok := false
						for _, ps2 := range ti.Ends {
							for _, pe := range ps2 {
								if pe.ID == "PROD" && pe.Outs[port] != "" && pe.Outs[port] == e.Ins["in"] {
									ok = true
								}
							}
						}
						if !ok {
							ps = append(ps, mon.Problem{Sig: "stream-bytes-differ", Msg: fmt.Sprintf("%s read sha %s through its streamed port; no producer task wrote that on port %s", cn, clip(e.Ins["in"], 12), port)})
						}
					}
				}
			}
			// audit: the streamed input is an Upstream key that names the producer
			outs, _ := filepath.Glob(filepath.Join(res.Wd, "*.c[12]"))
			if len(outs) == 0 {
				ps = append(ps, mon.Problem{Sig: "streaming-run-failed", Msg: "no consumer output found"})
			}
			for _, o := range outs {
				a, err := mon.LoadAudit(o + ".audit.json")
				if err != nil {
					ps = append(ps, mon.Problem{Sig: "audit-file-unreadable", Msg: err.Error()})
					continue
				}
				found := false
				for k, u := range a.Upstream {
					if strings.Contains(k, ".stream") && u != nil && u.ProcessName == "PROD" {
						found = true
					}
				}
				if !found {
					ps = append(ps, mon.Problem{Sig: "consumer-audit-lacks-stream-key", Msg: fmt.Sprintf("record of %s has Upstream keys %v: none of them is the streamed input with the producing task's record", filepath.Base(o), keysOfAudit(a))})
				}
			}
		}
		if len(ps) > 0 {
			for _, sig := range sigSet(ps) {
				desc["problems"] = mon.Summarize(ps, 10)
				c.Violation(sig, fmt.Sprintf("two streaming ports=%v: %s", two, strings.Join(mon.Summarize(ps, 4), "\n  ")), desc)
			}
			return
		}
		c.Count("streamed_items_compared", n)
		c.Nontrivial(fmt.Sprintf("streamshape|%v|%d|%v", two, n, cfg))
	})
}

// c17throughComponents: the streamed item passes a bundled pass-through component (MapToTags, IPSelectorSync) on its way
// from the {os:...} port to its consumer: what the consumer is handed is still the FIFO, it reads the producer's
// bytes, Run returns, and no FIFO stays behind.
func c17throughComponents(c *chk.Ctx) {
	run.Parallel(c.Pick(4, 12), func(i int) {
		root := c.CaseDir()
		defer c.Drop(root)
		in, o1 := []spec.PortDecl{{Name: "in"}}, []spec.PortDecl{{Name: "out"}}
		via := []string{"maptotags", "selector"}[i%2]
		n := 1 + (i/2)%2
		s := &spec.Spec{Name: "streamvia" + via, MaxTasks: 2*n + 1, Sources: map[string]string{}}
		src := &spec.Proc{Name: "src", Kind: spec.KFileSource}
		for k := 0; k < n; k++ {
			f := fmt.Sprintf("v%d.txt", k)
			src.Files = append(src.Files, f)
			s.Sources[f] = f + "\n"
		}
		s.Procs = append(s.Procs, src,
			&spec.Proc{Name: "PROD", Kind: spec.KCmd, Cmd: spec.BuildCmd("PROD", in, []spec.PortDecl{{Name: "out", Stream: true}}, nil, nil, map[string]string{"size": []string{"300", "70000"}[(i/4)%2]}), Outs: []*spec.Out{{Port: "out", Pattern: "sv/{i:in|basename}.stream"}}},
			&spec.Proc{Name: "CONS", Kind: spec.KCmd, Cmd: spec.BuildCmd("CONS", in, o1, nil, nil, nil), Outs: []*spec.Out{{Port: "out", Pattern: "{i:in|basename}.c1"}}})
		if via == "maptotags" {
			s.Procs = append(s.Procs, &spec.Proc{Name: "VIA", Kind: spec.KMapToTags, Tags: []*spec.TagRule{{Key: "grp", Rule: "idx"}}})
			s.Conns = append(s.Conns, &spec.Conn{From: "src.out", To: "PROD.in"}, &spec.Conn{From: "PROD.out", To: "VIA.in"}, &spec.Conn{From: "VIA.out", To: "CONS.in"})
		} else {
			s.Procs = append(s.Procs, &spec.Proc{Name: "VIA", Kind: spec.KSelector, Ports: []string{"a"}, Pred: "all"})
			s.Conns = append(s.Conns, &spec.Conn{From: "src.out", To: "PROD.in"}, &spec.Conn{From: "PROD.out", To: "VIA.a"}, &spec.Conn{From: "VIA.a", To: "CONS.in"})
		}
		bh := vproto.Behaviours{"CONS": {"post": "600"}}
		cfg := Cfg{Buf: []int{128, 1}[i%2], Procs: 4, NoHooks: i%4 >= 2, SoftSec: 12}
		desc := map[string]interface{}{"via": via, "spec": s, "cfg": cfg}
		res := execSpec(c, root, s, cfg, bh, false, 0)
		if res.Hang != "" {
			if strings.HasPrefix(res.Hang, "deadlock") || strings.Contains(res.Hang, "fifo") || strings.Contains(res.HangInfo, ".fifo") {
				c.Violation("streaming-hang|through-"+via, res.Hang+"\n"+clip(res.HangInfo, 800), desc)
			} else {
				c.Inconclusive(res.Hang)
			}
			return
		}
		var ps []mon.Problem
		if res.Exit != 0 || !res.Returned {
			ps = append(ps, mon.Problem{Sig: "streaming-run-failed", Msg: fmt.Sprintf("exit %d: %s", res.Exit, tail(res.Output(), 400))})
		} else {
			for _, l := range res.Ret.Listing {
				if l.Mode == "p" || strings.HasSuffix(l.Path, ".fifo") {
					ps = append(ps, mon.Problem{Sig: "fifo-left", Msg: "FIFO " + l.Path + " exists when Run returns"})
				}
				if strings.HasSuffix(l.Path, ".stream") && l.Mode == "f" {
					ps = append(ps, mon.Problem{Sig: "regular-file-at-streaming-path", Msg: l.Path + " is a regular file"})
				}
			}
			ti := mon.Index(res.Trace)
			seen := 0
			for _, es := range ti.Ends {
				for _, e := range es {
					if e.ID != "CONS" {
						continue
					}
					seen++
					ok := false
					for _, ps2 := range ti.Ends {
						for _, pe := range ps2 {
							if pe.ID == "PROD" && pe.Outs["out"] != "" && pe.Outs["out"] == e.Ins["in"] {
								ok = true
							}
						}
					}
					if !ok {
						ps = append(ps, mon.Problem{Sig: "stream-bytes-differ", Msg: fmt.Sprintf("CONS read sha %s through its streamed port; no producer task wrote that", clip(e.Ins["in"], 12))})
					}
				}
			}
			if seen != n {
				ps = append(ps, mon.Problem{Sig: "streaming-run-failed", Msg: fmt.Sprintf("%d consumer tasks ended, %d streamed items", seen, n)})
			}
			for _, es := range ti.Starts {
				for _, e := range es {
					for _, a := range e.Argv {
						if e.ID == "CONS" && strings.HasPrefix(a, "i=in:") && !strings.HasSuffix(a, ".fifo") {
							ps = append(ps, mon.Problem{Sig: "consumer-not-given-the-fifo", Msg: "CONS was given " + a + " for its streamed input"})
						}
					}
				}
			}
		}
		if len(ps) > 0 {
			for _, sig := range sigSet(ps) {
				desc["problems"] = mon.Summarize(ps, 10)
				c.Violation(sig+"|through-"+via, fmt.Sprintf("streamed item routed through %s: %s", via, strings.Join(mon.Summarize(ps, 4), "\n  ")), desc)
			}
			return
		}
		c.Count("streamed_items_compared", n)
		c.Nontrivial(fmt.Sprintf("streamvia|%s|%d|%v", via, n, cfg))
	})
}

// c17shellProducers: the producer of the stream is a shell pipeline whose first stage is ended by SIGPIPE when the last
// stage has taken what it wants ("yes ACGT | head -n 5000 > {os:out}"): the pipeline as a whole succeeds (its status
// is that of its last stage), and the consumer receives exactly what it prints.
func c17shellProducers(c *chk.Ctx) {
	pipes := []string{"yes ACGT | head -n 5000", "seq 1 200000 | head -c 100000", "yes | head -n 3", "seq 1 50000 | head -n 20000 | tail -n 15000"}
	run.Parallel(c.Pick(4, 8), func(i int) {
		root := c.CaseDir()
		defer c.Drop(root)
		pl := pipes[i%len(pipes)]
		want, err := exec.Command("bash", "-c", pl).Output()
		if err != nil || len(want) == 0 {
			c.Inconclusive("reference pipeline failed in this environment: " + pl)
			return
		}
		s := &spec.Spec{Name: "shellproducer", MaxTasks: 3, Sources: map[string]string{"go.txt": "go\n"}}
		s.Procs = append(s.Procs, &spec.Proc{Name: "src", Kind: spec.KFileSource, Files: []string{"go.txt"}},
			&spec.Proc{Name: "PROD", Kind: spec.KCmd, Cmd: "cat {i:in} > /dev/null; " + pl + " > {os:out}", Outs: []*spec.Out{{Port: "out", Pattern: "sp/payload.txt"}}},
			&spec.Proc{Name: "CONS", Kind: spec.KCmd, Cmd: "cat {i:in} > {o:out}; sleep 0.4", Outs: []*spec.Out{{Port: "out", Pattern: "copy.txt"}}})
		s.Conns = append(s.Conns, &spec.Conn{From: "src.out", To: "PROD.in"}, &spec.Conn{From: "PROD.out", To: "CONS.in"})
		if (i/2)%2 == 1 {
			// the streaming port carries an extension and gets the default name ({os:out|.txt}, no SetOut)
			s.Procs[1].Cmd = "cat {i:in} > /dev/null; " + pl + " > {os:out|.txt}"
			s.Procs[1].Outs = nil
		}
		cfg := Cfg{Buf: []int{128, 1}[i%2], Procs: 4, NoHooks: true, SoftSec: 12}
		desc := map[string]interface{}{"producer": pl, "spec": s, "cfg": cfg}
		res := execSpec(c, root, s, cfg, nil, false, 0)
		if res.Hang != "" {
			if strings.HasPrefix(res.Hang, "deadlock") {
				c.Violation("streaming-hang|shell-pipeline", res.Hang+"\n"+clip(res.HangInfo, 800), desc)
			} else {
				c.Inconclusive(res.Hang)
			}
			return
		}
		var ps []mon.Problem
		if res.Exit != 0 || !res.Returned {
			ps = append(ps, mon.Problem{Sig: "streaming-run-failed", Msg: fmt.Sprintf("exit %d: %s", res.Exit, tail(res.Output(), 400))})
		}
		got, _ := os.ReadFile(filepath.Join(res.Wd, "copy.txt"))
		if string(got) != string(want) {
			ps = append(ps, mon.Problem{Sig: "stream-bytes-differ", Msg: fmt.Sprintf("the consumer's copy has %d bytes, the pipeline prints %d", len(got), len(want))})
		}
		if res.Ret != nil {
			for _, l := range res.Ret.Listing {
				if l.Mode == "p" || strings.HasSuffix(l.Path, ".fifo") {
					ps = append(ps, mon.Problem{Sig: "fifo-left", Msg: "FIFO " + l.Path + " exists when Run returns"})
				}
			}
		}
		if len(ps) > 0 {
			for _, sig := range sigSet(ps) {
				desc["problems"] = mon.Summarize(ps, 10)
				c.Violation(sig+"|shell-pipeline", fmt.Sprintf("producer %q: %s", pl, strings.Join(mon.Summarize(ps, 4), "\n  ")), desc)
			}
			return
		}
		c.Count("streamed_items_compared", 1)
		c.Nontrivial(fmt.Sprintf("shellproducer|%d|%v", i%len(pipes), cfg.Buf))
	})
}
