package main

import (
	"fmt"
	"runtime"
	"strings"
	"time"

	"github.com/anishathalye/porcupine"

	"verif/internal/chk"
	"verif/internal/gen"
	"verif/internal/mon"
	"verif/internal/run"
	"verif/internal/spec"
	"verif/internal/vproto"
)

func init() { checks["C06"] = c06 }

func coresOfSpec(s *spec.Spec) func(string) int {
	m := map[string]int{}
	for _, a := range s.Also {
		// commands of a further workflow in the same program do not count against this workflow's limit
		for _, p := range a.Procs {
			m[p.Name] = 0
		}
	}
	for _, p := range s.Procs {
		c := p.Cores
		if c == 0 {
			c = 1
		}
		if c == -1 {
			c = 0 // CoresPerTask explicitly set to 0
		}
		m[p.Name] = c
	}
	return func(id string) int {
		if c, ok := m[id]; ok {
			return c
		}
		return 1
	}
}

type slotJob struct {
	s     *spec.Spec
	bh    vproto.Behaviours
	cfg   Cfg
	label string
}

func slotWorkloads(c *chk.Ctx, label string, n int) []*slotJob {
	rng := c.Rand(label)
	var jobs []*slotJob
	for i := 0; i < n; i++ {
		max := []int{1, 2, 3, 4, 6, 8}[rng.Intn(6)]
		o := gen.ContentionOpts{Max: max, Procs: 2 + rng.Intn(3), TasksPer: 0, SleepLo: 15, SleepHi: 60, GoFunc: true, Skipped: rng.Intn(2) == 0, Streaming: max >= 2 && rng.Intn(4) == 0, Prepend: true}
		if o.Streaming {
			// a multi-core task holding a partial acquisition beside a producer that waits
			// for its consumer can block by design; streaming is combined with 1-core tasks only
			o.CoresFn = func(int) int { return 1 }
		}
		o.TasksPer = (3*max)/o.Procs + 1
		if o.TasksPer > 8 {
			o.TasksPer = 8
		}
		s, bh := gen.Contention(rng, fmt.Sprintf("slots%d", i), o)
		if i%3 == 1 {
			// the public Spawn field of one process is set to false
			for _, p := range s.Procs {
				if p.Kind == spec.KCmd || p.Kind == spec.KGoFunc {
					p.NoSpawn = true
					break
				}
			}
		}
		cfg := Cfg{Buf: []int{1, 3, 128}[rng.Intn(3)], Procs: []int{1, 2, 4, 8}[rng.Intn(4)], Sched: fmt.Sprintf("%d,400,1500", rng.Intn(1<<30))}
		jobs = append(jobs, &slotJob{s, bh, cfg, "mixed"})
	}
	return jobs
}

func c06(args []string) {
	c := chk.New("C06", "exploration", args)
	c.Build(false)
	c.Rule("[multi-core sources] processes without in-ports (one task each) asking for all or nearly all slots beside a chain of one-core tasks; [killed command] a 2-core command whose shell is killed by SIGKILL / SIGTERM while one-core tasks are queued at limit 2: judged on the command intervals alone, whatever the exit status; contention workloads: maxConcurrentTasks in {1,2,3,4,6,8} (and NumCPU+4.. with a process that needs all slots and one that needs NumCPU+1), 2-4 processes with CoresPerTask drawn from 1..max, half of the command processes wrapped through Prepend, about 3*max simultaneously ready tasks of 15-60 ms (commands and Go functions), skipped tasks mixed in, an optional streaming producer/consumer pair, one scenario with commands whose work is done by a helper outliving them, one long-wait scenario (a task waiting > 10 s for a slot), a process with Spawn = false in every third workload, partial runs (RunTo / RunToProcs / RunToRegex over a five-step chain with limits 1-2), 100-140 tasks of a 2-core process in flight at once, workflows made with NewWorkflowCustomLogFile and limits 1-3 whose last process has no out-ports (the driver), two workflow objects of one name with different limits in one program, SCIPIPE_BUFSIZE smaller than CoresPerTask, a multi-core task consuming a joined sub-stream while other tasks keep the slots busy; also workloads driven through the exported task API with a core count per task; oracles = (1) sweep line over the commands' own CLOCK_MONOTONIC start/end stamps weighted by CoresPerTask, (2) shadow slot counter updated under the hook mutex at acquisition/release, (3) porcupine linearizability of the Acquire(k)/Release(k) history against a sequential counting semaphore. distinct_nontrivial = runs whose observed weighted overlap reached max (real contention), distinct by (max, cores mix, interleaving signature)")
	c.Assume("a command's [start,end] interval lies inside its task's slot-holding interval, so the weighted overlap is a lower bound of slot usage (sound)", "CoresPerTask <= maxConcurrentTasks")
	jobs := slotWorkloads(c, "c06", c.Pick(48, 500))
	// long-wait scenario: three tasks of ~10.6 s on 2 slots, so that one task waits > 10 s for its slot
	{
		rng := c.Rand("c06-long")
		s, bh := gen.Contention(rng, "longwait", gen.ContentionOpts{Max: 2, Procs: 3, TasksPer: 1, SleepLo: 10600, SleepHi: 10600, CoresFn: func(int) int { return 1 }})
		jobs = append(jobs, &slotJob{s, bh, Cfg{Buf: 128, Procs: 4}, "longwait"})
	}
	// commands whose work is done by a helper that outlives the command itself (it holds the command's stdout): the
	// slot stays taken until the helper is done. One slot, three such tasks of 1.5 s.
	{
		rng := c.Rand("c06-bg")
		s, bh := gen.Contention(rng, "bghelper", gen.ContentionOpts{Max: 1, Procs: 1, TasksPer: 3, SleepLo: 1, SleepHi: 1, CoresFn: func(int) int { return 1 }})
		for k := range bh {
			bh[k] = map[string]string{"bgwrite": "1", "pause": "1500", "size": "2000"}
		}
		jobs = append(jobs, &slotJob{s, bh, Cfg{Buf: 128, Procs: 4}, "background-helper"})
	}
	// more slots and more cores per task than the machine has CPUs: slots are bookkeeping, not CPUs
	for r := 0; r < c.Pick(2, 6); r++ {
		rng := c.Rand(fmt.Sprintf("c06-big%d", r))
		ncpu := runtime.NumCPU()
		max := ncpu + 4 + 2*r
		s, bh := gen.Contention(rng, fmt.Sprintf("bigmax%d", r), gen.ContentionOpts{Max: max, Procs: 3, TasksPer: 3, SleepLo: 40, SleepHi: 80, GoFunc: r%2 == 1, Prepend: true,
			CoresFn: func(i int) int { return []int{max, 1, ncpu + 1}[i%3] }})
		jobs = append(jobs, &slotJob{s, bh, Cfg{Buf: 128, Procs: 4}, "more-slots-than-cpus"})
	}
	// fewer buffer slots per connection than cores per task (two unrelated settings)
	for r := 0; r < c.Pick(2, 6); r++ {
		rng := c.Rand(fmt.Sprintf("c06-buf%d", r))
		buf, cores := []int{1, 2, 1}[r%3], []int{2, 3, 4}[r%3]
		s, bh := gen.Contention(rng, fmt.Sprintf("smallbuf%d", r), gen.ContentionOpts{Max: 2 * cores, Procs: 2, TasksPer: 4, SleepLo: 60, SleepHi: 120, GoFunc: r%2 == 1,
			CoresFn: func(i int) int { return []int{cores, 1}[i%2] }})
		jobs = append(jobs, &slotJob{s, bh, Cfg{Buf: buf, Procs: 4}, "bufsize-below-cores-per-task"})
	}
	// two workflow objects with the same name in one program, the one created first with the larger limit: each has
	// its own limit (the sweep counts the commands of the judged workflow only)
	for r := 0; r < c.Pick(2, 6); r++ {
		in, o1 := []spec.PortDecl{{Name: "in"}}, []spec.PortDecl{{Name: "out"}}
		max := []int{2, 1, 3}[r%3]
		x := &spec.Spec{Name: "batch", MaxTasks: max, Sources: map[string]string{}}
		xs := &spec.Proc{Name: "xsrc", Kind: spec.KFileSource}
		for k := 0; k < 4*max+2; k++ {
			f := fmt.Sprintf("x%02d.txt", k)
			xs.Files = append(xs.Files, f)
			x.Sources[f] = f + "\n"
		}
		x.Procs = append(x.Procs, xs, &spec.Proc{Name: "xa", Kind: spec.KCmd, Cmd: spec.BuildCmd("xa", in, o1, nil, nil, map[string]string{"sleep": "80"})})
		x.Conns = append(x.Conns, &spec.Conn{From: "xsrc.out", To: "xa.in"})
		y := &spec.Spec{Name: "batch", MaxTasks: max + 3, Sources: map[string]string{}}
		x.Sources["y0.txt"], x.Sources["y1.txt"] = "y0\n", "y1\n"
		y.Procs = append(y.Procs, &spec.Proc{Name: "ysrc", Kind: spec.KFileSource, Files: []string{"y0.txt", "y1.txt"}},
			&spec.Proc{Name: "ya", Kind: spec.KCmd, Cmd: spec.BuildCmd("ya", in, o1, nil, nil, map[string]string{"sleep": "10"})})
		y.Conns = append(y.Conns, &spec.Conn{From: "ysrc.out", To: "ya.in"})
		x.Also = []*spec.Spec{y}
		jobs = append(jobs, &slotJob{x, nil, Cfg{Buf: 128, Procs: 4}, "two-workflows-of-one-name"})
	}
	// a workflow made with NewWorkflowCustomLogFile (limits 1-3), and a last process without out-ports (it becomes the
	// workflow's driver) with many ready tasks beside a process that ends in the sink
	for r := 0; r < c.Pick(3, 9); r++ {
		in, o1 := []spec.PortDecl{{Name: "in"}}, []spec.PortDecl{{Name: "out"}}
		max := 1 + r%3
		s := &spec.Spec{Name: fmt.Sprintf("driverslots%d", r), MaxTasks: max, Sources: map[string]string{}}
		if r%2 == 0 {
			s.LogFile = "log/custom-slots.log"
		}
		src := &spec.Proc{Name: "src", Kind: spec.KFileSource}
		for k := 0; k < 3*max+3; k++ {
			f := fmt.Sprintf("d%02d.txt", k)
			src.Files = append(src.Files, f)
			s.Sources[f] = f + "\n"
		}
		s.Procs = append(s.Procs, src,
			&spec.Proc{Name: "side", Kind: spec.KCmd, Cmd: spec.BuildCmd("side", in, o1, nil, nil, map[string]string{"sleep": "40"})},
			&spec.Proc{Name: "last", Kind: []string{spec.KCmd, spec.KGoFunc}[r%2], Cmd: spec.BuildCmd("last", in, nil, nil, nil, map[string]string{"sleep": "70"})})
		s.Conns = append(s.Conns, &spec.Conn{From: "src.out", To: "side.in"}, &spec.Conn{From: "src.out", To: "last.in"})
		jobs = append(jobs, &slotJob{s, nil, Cfg{Buf: []int{128, 2}[r%2], Procs: 4}, "out-port-less-driver-process"})
	}
	// partial runs: RunTo / RunToProcs / RunToRegex over a chain of four processes with a limit of two, 8 ready tasks
	for r := 0; r < c.Pick(3, 9); r++ {
		in, o1 := []spec.PortDecl{{Name: "in"}}, []spec.PortDecl{{Name: "out"}}
		max := 1 + r%2
		s := &spec.Spec{Name: fmt.Sprintf("runtoslots%d", r), MaxTasks: max, Sources: map[string]string{}}
		src := &spec.Proc{Name: "src", Kind: spec.KFileSource}
		for k := 0; k < 8; k++ {
			f := fmt.Sprintf("p%02d.txt", k)
			src.Files = append(src.Files, f)
			s.Sources[f] = f + "\n"
		}
		s.Procs = append(s.Procs, src)
		prev := "src"
		for k := 0; k < 5; k++ {
			pn := fmt.Sprintf("st%d", k)
			s.Procs = append(s.Procs, &spec.Proc{Name: pn, Kind: spec.KCmd, Cmd: spec.BuildCmd(pn, in, o1, nil, nil, map[string]string{"sleep": "40"})})
			s.Conns = append(s.Conns, &spec.Conn{From: prev + ".out", To: pn + ".in"})
			prev = pn
		}
		s.Run = spec.Run{Mode: []string{"runto", "runtoprocs", "runtoregex"}[r%3], Targets: []string{[]string{"st3", "st3", "^st3$"}[r%3]}}
		jobs = append(jobs, &slotJob{s, nil, Cfg{Buf: 128, Procs: 4}, "partial-run"})
	}
	// scale: 100 tasks of a 2-core process in flight at once (limit 4)
	for r := 0; r < c.Pick(1, 3); r++ {
		in, o1 := []spec.PortDecl{{Name: "in"}}, []spec.PortDecl{{Name: "out"}}
		s := &spec.Spec{Name: fmt.Sprintf("scale%d", r), MaxTasks: 4, Sources: map[string]string{}}
		src := &spec.Proc{Name: "src", Kind: spec.KFileSource}
		for k := 0; k < 100+20*r; k++ {
			f := fmt.Sprintf("q%03d.txt", k)
			src.Files = append(src.Files, f)
			s.Sources[f] = f + "\n"
		}
		s.Procs = append(s.Procs, src, &spec.Proc{Name: "wide", Kind: spec.KCmd, Cores: 2, Cmd: spec.BuildCmd("wide", in, o1, nil, nil, map[string]string{"sleep": "25"})})
		s.Conns = append(s.Conns, &spec.Conn{From: "src.out", To: "wide.in"})
		jobs = append(jobs, &slotJob{s, nil, Cfg{Buf: 128, Procs: 4, NoHooks: r%2 == 1}, "hundred-tasks-in-flight"})
	}
	// a task whose in-port is a joined sub-stream, with other tasks keeping the slots busy
	for r := 0; r < c.Pick(2, 6); r++ {
		max, mc := []int{2, 3, 4}[r%3], []int{2, 1, 3}[r%3]
		s := &spec.Spec{Name: fmt.Sprintf("substreamslots%d", r), MaxTasks: max, Sources: map[string]string{}}
		busy := &spec.Proc{Name: "busysrc", Kind: spec.KFileSource}
		for k := 0; k < 4*max; k++ {
			f := fmt.Sprintf("b%02d.txt", k)
			busy.Files = append(busy.Files, f)
			s.Sources[f] = f + "\n"
		}
		gsrc := &spec.Proc{Name: "gsrc", Kind: spec.KFileSource}
		for k := 0; k < 3; k++ {
			f := fmt.Sprintf("g%d.txt", k)
			gsrc.Files = append(gsrc.Files, f)
			s.Sources[f] = f + "\n"
		}
		in, out := []spec.PortDecl{{Name: "in"}}, []spec.PortDecl{{Name: "out"}}
		s.Procs = append(s.Procs, busy, gsrc,
			&spec.Proc{Name: "BUSY", Kind: spec.KCmd, Cmd: spec.BuildCmd("BUSY", in, out, nil, nil, nil)},
			&spec.Proc{Name: "GEN", Kind: spec.KCmd, Cmd: spec.BuildCmd("GEN", in, out, nil, nil, nil)},
			&spec.Proc{Name: "SS", Kind: spec.KSubStream},
			&spec.Proc{Name: "MERGE", Kind: spec.KCmd, Cores: mc, Cmd: spec.BuildCmd("MERGE", []spec.PortDecl{{Name: "in", Join: "space"}}, out, nil, nil, nil), Outs: []*spec.Out{{Port: "out", Pattern: "merged.out"}}})
		s.Conns = append(s.Conns, &spec.Conn{From: "busysrc.out", To: "BUSY.in"}, &spec.Conn{From: "gsrc.out", To: "GEN.in"}, &spec.Conn{From: "GEN.out", To: "SS.in"}, &spec.Conn{From: "SS.substream", To: "MERGE.in"})
		bh := vproto.Behaviours{"BUSY": {"sleep": "120"}, "MERGE": {"sleep": "500"}}
		jobs = append(jobs, &slotJob{s, bh, Cfg{Buf: []int{128, 1}[r%2], Procs: 4}, "joined-sub-stream-consumer"})
	}
	// multi-core processes without any in-port (simulations, downloads: one task each) beside a chain of one-core tasks
	for r := 0; r < c.Pick(2, 6); r++ {
		max := []int{2, 3, 4}[r%3]
		in, o1 := []spec.PortDecl{{Name: "in"}}, []spec.PortDecl{{Name: "out"}}
		s := &spec.Spec{Name: fmt.Sprintf("multicoresource%d", r), MaxTasks: max, Sources: map[string]string{}}
		src := &spec.Proc{Name: "src", Kind: spec.KFileSource}
		for k := 0; k < 6; k++ {
			f := fmt.Sprintf("m%02d.txt", k)
			src.Files = append(src.Files, f)
			s.Sources[f] = f + "\n"
		}
		s.Procs = append(s.Procs, src, &spec.Proc{Name: "work", Kind: spec.KCmd, Cmd: spec.BuildCmd("work", in, o1, nil, nil, map[string]string{"sleep": "120"})},
			&spec.Proc{Name: "sim1", Kind: spec.KCmd, Cores: max, Cmd: spec.BuildCmd("sim1", nil, o1, nil, nil, map[string]string{"sleep": "300"})},
			&spec.Proc{Name: "sim2", Kind: []string{spec.KCmd, spec.KGoFunc}[r%2], Cores: max - r%2, Cmd: spec.BuildCmd("sim2", nil, o1, nil, nil, map[string]string{"sleep": "300"})})
		s.Conns = append(s.Conns, &spec.Conn{From: "src.out", To: "work.in"})
		jobs = append(jobs, &slotJob{s, nil, Cfg{Buf: 128, Procs: 4, NoHooks: r%2 == 1}, "multi-core-source"})
	}
	// a command whose shell is killed by a signal while the pool is saturated and one-core tasks are queued: whatever the
	// library does about the kill (the unchanged one stops the workflow), no command runs outside the limit
	for r := 0; r < c.Pick(2, 4); r++ {
		in, o1 := []spec.PortDecl{{Name: "in"}}, []spec.PortDecl{{Name: "out"}}
		s := &spec.Spec{Name: fmt.Sprintf("killedcommand%d", r), MaxTasks: 2, Sources: map[string]string{"big.txt": "big\n"}}
		src := &spec.Proc{Name: "src", Kind: spec.KFileSource}
		for k := 0; k < 8; k++ {
			f := fmt.Sprintf("k%02d.txt", k)
			src.Files = append(src.Files, f)
			s.Sources[f] = f + "\n"
		}
		s.Procs = append(s.Procs, src, &spec.Proc{Name: "bsrc", Kind: spec.KFileSource, Files: []string{"big.txt"}},
			&spec.Proc{Name: "late", Kind: spec.KRecorder, DelayMS: 300},
			&spec.Proc{Name: "work", Kind: spec.KCmd, Cmd: spec.BuildCmd("work", in, o1, nil, nil, map[string]string{"sleep": "900"})},
			&spec.Proc{Name: "big", Kind: spec.KCmd, Cores: 2, Cmd: spec.BuildCmd("big", in, o1, nil, nil, map[string]string{"sleep": "500", "fail": []string{"sigkill-shell", "sigterm-shell"}[r%2]})})
		s.Conns = append(s.Conns, &spec.Conn{From: "src.out", To: "late.in"}, &spec.Conn{From: "late.out", To: "work.in"}, &spec.Conn{From: "bsrc.out", To: "big.in"})
		jobs = append(jobs, &slotJob{s, nil, Cfg{Buf: 128, Procs: 4, NoHooks: true}, "killed-command"})
	}
	run.Parallel(len(jobs), func(i int) {
		j := jobs[i]
		root := c.CaseDir()
		defer c.Drop(root)
		res := execSpec(c, root, j.s, j.cfg, j.bh, false, 0)
		if j.label == "killed-command" {
			ov, wit, n := mon.Overlap(res.Trace, coresOfSpec(j.s))
			c.Count("command_intervals", n)
			if ov > j.s.MaxTasks {
				c.Violation("overlap-exceeds-max", fmt.Sprintf("after a command was killed by a signal: commands with CoresPerTask sum %d executed simultaneously, maxConcurrentTasks=%d: %v (exit %d)", ov, j.s.MaxTasks, wit, res.Exit),
					map[string]interface{}{"spec": j.s, "cfg": j.cfg, "witness": wit, "overlap": ov})
				return
			}
			if res.Hang != "" && !strings.HasPrefix(res.Hang, "deadlock") {
				c.Inconclusive(res.Hang)
				return
			}
			if n == 0 {
				c.Inconclusive("killed-command: no command interval observed")
				return
			}
			c.Max(fmt.Sprintf("max_overlap_seen_at_max_%d", j.s.MaxTasks), ov)
			c.Nontrivial(fmt.Sprintf("killedcommand|%d|exit%v", i, res.Exit != 0))
			return
		}
		if res.Hang != "" {
			if ov, wit, _ := mon.Overlap(res.Trace, coresOfSpec(j.s)); ov > j.s.MaxTasks {
				c.Violation("overlap-exceeds-max", fmt.Sprintf("commands with CoresPerTask sum %d executed simultaneously, maxConcurrentTasks=%d: %v (the run then hung: %s)", ov, j.s.MaxTasks, wit, res.Hang),
					map[string]interface{}{"spec": j.s, "cfg": j.cfg, "behav": j.bh, "witness": wit, "overlap": ov})
				return
			}
			if strings.HasPrefix(res.Hang, "deadlock") {
				c.Violation("hang-"+res.Hang, "contention workload did not terminate: "+res.Hang+"\n"+res.HangInfo, map[string]interface{}{"spec": j.s, "cfg": j.cfg})
			} else {
				c.Inconclusive(res.Hang)
			}
			return
		}
		if res.Exit != 0 || !res.Returned {
			c.Violation("exit-nonzero", fmt.Sprintf("contention workload exited %d: %s", res.Exit, tail(res.Output(), 800)), map[string]interface{}{"spec": j.s, "cfg": j.cfg})
			return
		}
		max := j.s.MaxTasks
		ov, wit, n := mon.Overlap(res.Trace, coresOfSpec(j.s))
		c.Count("command_intervals", n)
		if ov > max {
			c.Violation("overlap-exceeds-max", fmt.Sprintf("commands with CoresPerTask sum %d executed simultaneously, maxConcurrentTasks=%d: %v", ov, max, wit),
				map[string]interface{}{"spec": j.s, "cfg": j.cfg, "behav": j.bh, "witness": wit, "overlap": ov})
			return
		}
		sh, at, acq := mon.ShadowMax(res.Events)
		c.Count("slot_acquisitions", acq)
		if len(j.s.Also) > 0 {
			// the hook-based shadow counter and the semaphore history are per program, not per workflow: with two
			// workflows in one program only the sweep over the judged workflow's commands applies
			c.Max(fmt.Sprintf("max_overlap_seen_at_max_%d", max), ov)
			if ov == max {
				c.Nontrivial(fmt.Sprintf("twowf|%d|%s", max, mon.InterleavingSig(res.Events)))
			}
			return
		}
		if sh > max {
			c.Violation("shadow-counter-exceeds-max", fmt.Sprintf("shadow slot counter reached %d > max %d at %+v", sh, max, at), map[string]interface{}{"spec": j.s, "cfg": j.cfg, "event": at})
			return
		}
		if acq == 0 && n > 0 && !j.cfg.NoHooks {
			c.Inconclusive("hook task.slots_acquired never reached")
		}
		// a task that executes without having taken slots
		took := map[string]bool{}
		for _, e := range res.Events {
			if e.Pt == "task.slots_acquired" {
				took[e.Tmp] = true
			}
		}
		for _, e := range res.Events {
			if e.Pt == "task.cmd_start" && !took[e.Tmp] {
				c.Violation("command-without-slots", "task "+e.Who+" ("+e.Tmp+") started its command without a preceding slot acquisition", map[string]interface{}{"spec": j.s, "cfg": j.cfg, "event": e})
				return
			}
		}
		if c.Thorough() || i%4 == 0 {
			r, nops := mon.SemaphoreLinearizable(res.Events, max, 60*time.Second)
			c.Count("porcupine_ops", nops)
			switch r {
			case porcupine.Illegal:
				c.Violation("semaphore-history-illegal", fmt.Sprintf("Acquire/Release history of %d operations is not linearizable w.r.t. a counting semaphore of capacity %d", nops, max), map[string]interface{}{"spec": j.s, "cfg": j.cfg})
				return
			case porcupine.Unknown:
				c.Inconclusive("porcupine timeout")
			default:
				c.Count("porcupine_histories_ok", 1)
			}
		}
		c.Max(fmt.Sprintf("max_overlap_seen_at_max_%d", max), ov)
		if ov == max {
			mix := ""
			for _, p := range j.s.Procs {
				if p.Cores > 0 {
					mix += fmt.Sprint(p.Cores)
				}
			}
			c.Nontrivial(fmt.Sprintf("%d|%s|%s", max, mix, mon.InterleavingSig(res.Events)))
		}
		c.Sample(map[string]interface{}{"workload": j.label, "max": max, "procs": gen.Describe(j.s), "cfg": j.cfg, "max_weighted_overlap": ov, "shadow_max": sh, "acquisitions": acq})
	})
	// the exported task API: every task has a core count of its own
	{
		specs := taskAPISpecs(c.Rand("c06-taskapi"), c.Pick(6, 24))
		run.Parallel(len(specs), func(i int) {
			s := specs[i]
			res, ov, wit, ps := runTaskAPI(c, s, []int{2, 4}[i%2])
			desc := map[string]interface{}{"task_api_workload": s, "witness": wit, "overlap": ov}
			if ov > s.Max {
				c.Violation("overlap-exceeds-max", fmt.Sprintf("task API: commands with cores sum %d executed simultaneously, maxConcurrentTasks=%d: %v", ov, s.Max, wit), desc)
				return
			}
			if res.Hang != "" {
				if !strings.HasPrefix(res.Hang, "deadlock") {
					c.Inconclusive("task api: " + res.Hang)
				}
				return // a hang is C07's matter
			}
			if len(ps) > 0 {
				return // failures are judged by C07
			}
			c.Max(fmt.Sprintf("max_overlap_seen_at_max_%d", s.Max), ov)
			c.Count("task_api_workloads", 1)
			if ov == s.Max {
				c.Nontrivial(fmt.Sprintf("taskapi|%d|%d", s.Max, len(s.Tasks)))
			}
		})
	}
	c.Finish()
}
