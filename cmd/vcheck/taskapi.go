package main

import (
	"encoding/json"
	"fmt"
	"math/rand"
	"os"
	"path/filepath"
	"strings"

	"verif/internal/chk"
	"verif/internal/mon"
	"verif/internal/run"
)

// Workloads driven through the exported task API (NewTask, Task.Execute, Task.Done) the way a custom scheduler
// would use it: every task has a core count of its own (the process's CoresPerTask is something else), all tasks
// are started at once. Subject mode 'taskapi'.

type taskAPITask struct {
	Cores int `json:"cores"`
	MS    int `json:"ms"`
}

type taskAPISpec struct {
	Max       int           `json:"max"`
	ProcCores int           `json:"proc_cores"`
	Tasks     []taskAPITask `json:"tasks"`
}

func taskAPISpecs(rng *rand.Rand, n int) []*taskAPISpec {
	var out []*taskAPISpec
	for i := 0; i < n; i++ {
		max := []int{2, 3, 4, 6}[i%4]
		s := &taskAPISpec{Max: max, ProcCores: []int{1, 1, max}[i%3]}
		nt := 6 + rng.Intn(5)
		for k := 0; k < nt; k++ {
			s.Tasks = append(s.Tasks, taskAPITask{Cores: 1 + rng.Intn(max), MS: 15 + rng.Intn(40)})
		}
		// the last task needs every slot: it can only run if all the others gave back exactly what they took
		s.Tasks = append(s.Tasks, taskAPITask{Cores: max, MS: 10})
		out = append(out, s)
	}
	return out
}

// runTaskAPI executes one such workload; ps holds what both C06 and C07 judge.
func runTaskAPI(c *chk.Ctx, s *taskAPISpec, procs int) (res *run.Result, overlap int, witness []string, problems []mon.Problem) {
	root := c.CaseDir()
	defer c.Drop(root)
	os.MkdirAll(filepath.Join(root, "meta"), 0777)
	sf := filepath.Join(root, "meta", "taskapi.json")
	b, _ := json.Marshal(s)
	os.WriteFile(sf, b, 0644)
	cs := &run.Case{Root: root, Bin: c.Bin, Mode: "taskapi", Args: []string{sf}, Env: map[string]string{"GOMAXPROCS": fmt.Sprint(procs)}}
	c.Eval(1)
	res = cs.Run()
	cores := func(id string) int {
		var k int
		if _, err := fmt.Sscanf(id, "API%d", &k); err == nil && k < len(s.Tasks) {
			return s.Tasks[k].Cores
		}
		return 1
	}
	overlap, witness, _ = mon.Overlap(res.Trace, cores)
	if res.Hang != "" {
		return
	}
	if res.Exit != 0 || !res.Returned {
		problems = append(problems, mon.Problem{Sig: "task-api-run-failed", Msg: fmt.Sprintf("exit %d: %s", res.Exit, tail(res.Output(), 400))})
		return
	}
	for k := range s.Tasks {
		if _, err := os.Stat(filepath.Join(res.Wd, fmt.Sprintf("api_%02d.out", k))); err != nil {
			problems = append(problems, mon.Problem{Sig: "task-api-output-missing", Msg: fmt.Sprintf("task %d finished (Done) but its output is not there", k)})
		}
	}
	for _, l := range run.Snap(res.Wd).Leftovers() {
		if !strings.HasPrefix(l, "log") {
			problems = append(problems, mon.Problem{Sig: "task-api-leftover", Msg: l})
		}
	}
	return
}
