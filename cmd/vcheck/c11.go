package main

import (
	"encoding/json"
	"fmt"
	"os"
	"os/exec"
	"path/filepath"
	"reflect"
	"sort"
	"strings"
	"time"

	"verif/internal/chk"
	"verif/internal/gen"
	"verif/internal/mon"
	"verif/internal/ref"
	"verif/internal/run"
	"verif/internal/spec"
	"verif/internal/vproto"
)

func init() { checks["C11"] = c11 }

// auditsOf loads the audit record of every expected task output below wd.
func auditsOf(wd string, exp *ref.Result) (map[string]*mon.AuditJSON, []mon.Problem) {
	out := map[string]*mon.AuditJSON{}
	var ps []mon.Problem
	for p := range exp.AuditFor {
		if filepath.IsAbs(p) {
			continue
		}
		a, err := mon.LoadAudit(filepath.Join(wd, p+".audit.json"))
		if err != nil {
			ps = append(ps, mon.Problem{Sig: "audit-file-unreadable", Msg: err.Error()})
			continue
		}
		out[p] = a
	}
	return out, ps
}

// ancestorIdentity: every embedded upstream record equals the ancestor's own file on disk.
func ancestorIdentity(wd string, auds map[string]*mon.AuditJSON) []mon.Problem {
	var ps []mon.Problem
	var walk func(where string, a *mon.AuditJSON)
	walk = func(where string, a *mon.AuditJSON) {
		for k, u := range a.Upstream {
			b, err := os.ReadFile(filepath.Join(wd, k+".audit.json"))
			if err == nil {
				var disk, emb interface{}
				json.Unmarshal(b, &disk)
				eb, _ := json.Marshal(u)
				json.Unmarshal(eb, &emb)
				var dj mon.AuditJSON
				json.Unmarshal(b, &dj)
				db, _ := json.Marshal(&dj)
				json.Unmarshal(db, &disk)
				if !reflect.DeepEqual(disk, emb) {
					ps = append(ps, mon.Problem{Sig: "ancestor-record-differs-from-disk", Msg: fmt.Sprintf("%s > Upstream[%s] is not identical to %s.audit.json", where, k, k)})
				}
			} else if u.ProcessName != "" {
				// an ancestor produced by a task must have its own file
				ps = append(ps, mon.Problem{Sig: "ancestor-audit-file-missing", Msg: fmt.Sprintf("%s > Upstream[%s] names process %s but %s.audit.json does not exist", where, k, u.ProcessName, k)})
			}
			walk(where+" > Upstream["+k+"]", u)
		}
	}
	keys := []string{}
	for p := range auds {
		keys = append(keys, p)
	}
	sort.Strings(keys)
	for _, p := range keys {
		walk(p, auds[p])
	}
	return ps
}

func copyDir(src, dst string) error {
	os.MkdirAll(filepath.Dir(dst), 0777)
	return exec.Command("cp", "-a", src, dst).Run()
}

// roundTrip loads and rewrites every audit file through the library in a copy of wd.
func roundTrip(c *chk.Ctx, wd string, exp *ref.Result) ([]mon.Problem, int) {
	root := c.CaseDir()
	defer c.Drop(root)
	if err := copyDir(wd, filepath.Join(root, "wd")); err != nil {
		return []mon.Problem{{Sig: "harness-copy-failed", Msg: err.Error()}}, 0
	}
	var paths []string
	for p := range exp.AuditFor {
		if !filepath.IsAbs(p) {
			if _, err := os.Stat(filepath.Join(root, "wd", p+".audit.json")); err == nil {
				paths = append(paths, p)
			}
		}
	}
	sort.Strings(paths)
	os.MkdirAll(filepath.Join(root, "meta"), 0777)
	list := filepath.Join(root, "meta", "list.txt")
	os.WriteFile(list, []byte(strings.Join(paths, "\n")+"\n"), 0644)
	cs := &run.Case{Root: root, Bin: c.Bin, Mode: "auditrt", Args: []string{list, "-"}, KeepWd: true}
	c.Eval(1)
	res := cs.Run()
	var ps []mon.Problem
	if res.Exit != 0 || !strings.Contains(res.Output(), "AUDITRT-DONE") || strings.Contains(res.Output(), "AUDITRT-ERROR") {
		return []mon.Problem{{Sig: "audit-roundtrip-failed", Msg: fmt.Sprintf("exit %d: %s", res.Exit, tail(res.Output(), 400))}}, 0
	}
	n := 0
	for _, p := range paths {
		ob, err1 := os.ReadFile(filepath.Join(root, "wd", p+".audit.json.orig"))
		nb, err2 := os.ReadFile(filepath.Join(root, "wd", p+".audit.json"))
		if err1 != nil || err2 != nil {
			ps = append(ps, mon.Problem{Sig: "audit-roundtrip-failed", Msg: "missing file after round trip of " + p})
			continue
		}
		var o, w interface{}
		if json.Unmarshal(ob, &o) != nil || json.Unmarshal(nb, &w) != nil {
			ps = append(ps, mon.Problem{Sig: "audit-roundtrip-invalid-json", Msg: p})
			continue
		}
		if !reflect.DeepEqual(o, w) {
			ps = append(ps, mon.Problem{Sig: "audit-roundtrip-lossy", Msg: "writing the loaded record of " + p + " back changed it"})
		}
		n++
	}
	return ps, n
}

type c11Job struct {
	kind   string // runto | delete | delete-keep-audit | crash
	s      *spec.Spec
	tc     *topoCase
	label  string
	crash  *gen.CrashPoint
	strace string // crash histories: kill injected by strace ("<syscalls>:<n>") instead of a hook crash point
	target []string
	del    []int // task indices whose outputs are deleted
	cfg    Cfg
}

func c11(args []string) {
	c := chk.New("C11", "fault_enumeration", args)
	c.Build(false)
	c.Rule("(a third of the commands carry printf-style verbs or JSON-escape look-alikes (\\u0026) in an argument, a quarter are indented multi-line strings) [a chain whose first step's valid output is an empty file and an 11-level ladder whose last audit file has 8190 ancestor records are among the workflows] histories that split an execution into several runs: RunTo(prefix) then Run; complete run, delete a downstream-closed set of outputs (with or without their audit files; the first run slow so that rewritten records are shorter), re-run; run killed at enumerated hook crash points - and, under strace, before the n-th rename / unlink of any thread of the library -, cleanup, resume; oracle: for every output the audit tree after the history equals the tree of an uninterrupted run of the same workflow (ids and times excluded), every embedded ancestor record is identical (ids included) to the ancestor's own .audit.json on disk, and loading every audit file through the library and writing it back loses nothing (in-process round trip in a copy of the directory); directed topologies with a directory output and with a gathering task that has an ordinary and a joined in-port (repeated, map order), with two differently tagged branches zipped by one process, and with a file that is tagged, processed and tagged again. distinct_nontrivial = distinct (workflow, history) in which >= 1 task was taken from disk and >= 1 task was executed in the last run")
	c.Assume("histories whose recovery does not converge (C03's known finding: kill between the renames of a multi-file task) are not judged here", "ids and absolute times of re-executed tasks are excluded from the comparison with the uninterrupted run")
	rng := c.Rand("c11")
	var jobs []*c11Job
	// generated graphs: RunTo splits and delete/re-run histories
	ng := c.Pick(14, 150)
	for g := 0; g < ng; g++ {
		b := []int{1, 3, 128}[rng.Intn(3)]
		o := gen.GraphOpts{MaxProcs: 6, Lens: []int{1, 2, 3}, Buf: b, FanIn: true, Params: true, GoFunc: true, MultiOut: true, SubDirs: true,
			Cores: 2, MaxTasks: 4, MapTags: true, NoUnequal: true}
		s := gen.Graph(rng, fmt.Sprintf("g%d", g), o)
		for k, p := range s.Procs {
			if p.Kind != spec.KCmd {
				continue
			}
			// commands as they are written in workflow code: format verbs in an argument (awk, printf, date), a command
			// given as an indented multi-line string
			if (g+k)%3 == 0 {
				p.Cmd += []string{" note=%d%s-100%", " note=q\\u0026lang\\u003cen\\u003e"}[(g+k)/3%2]
			}
			if (g+k)%4 == 1 {
				p.Cmd = "\n      " + p.Cmd + "   "
			}
		}
		exp := evalRef(s, nil)
		if exp.Err != "" || len(exp.Tasks) < 2 {
			continue
		}
		cfg := func() Cfg {
			return Cfg{Buf: b, Procs: []int{1, 2, 4}[rng.Intn(3)], Sched: fmt.Sprintf("%d,200,400", rng.Intn(1<<30))}
		}
		var names []string
		for _, p := range s.Procs {
			if p.Kind == spec.KCmd || p.Kind == spec.KGoFunc {
				names = append(names, p.Name)
			}
		}
		for k := 0; k < c.Pick(2, 4); k++ {
			jobs = append(jobs, &c11Job{kind: "runto", s: s, target: []string{names[rng.Intn(len(names))]}, cfg: cfg(), label: "RunTo then Run"})
		}
		for k := 0; k < c.Pick(1, 3); k++ {
			// an ancestor's audit file truncated to 0 bytes (what a kill between the truncating open and the write of a
			// re-written audit file leaves behind), then resume: refusing is fine, silently losing the lineage is not
			jobs = append(jobs, &c11Job{kind: "truncated-audit", s: s, target: []string{names[rng.Intn(len(names))]}, cfg: cfg(), label: "RunTo, ancestor audit file truncated to 0 bytes, Run"})
		}
		for k := 0; k < c.Pick(3, 6); k++ {
			// downstream-closed deletion set
			seed := exp.Tasks[rng.Intn(len(exp.Tasks))]
			deps := dependants(exp, seed)
			var del []int
			for i, t := range exp.Tasks {
				if t == seed || deps[t.Key] {
					del = append(del, i)
				}
			}
			kind := "delete"
			if k%2 == 1 {
				kind = "delete-keep-audit"
			}
			jobs = append(jobs, &c11Job{kind: kind, s: s, del: del, cfg: cfg(), label: kind})
		}
	}
	// a task whose (valid) output is an empty file, in the middle of the lineage: complete run, delete the last step's
	// outputs, re-run; and RunTo the second step, then Run
	for rep := 0; rep < c.Pick(2, 6); rep++ {
		in, o1 := []spec.PortDecl{{Name: "in"}}, []spec.PortDecl{{Name: "out"}}
		s := &spec.Spec{Name: "emptymid", MaxTasks: 3, Sources: map[string]string{"e0.txt": "e0\n", "e1.txt": "e1\n"}}
		s.Procs = append(s.Procs, &spec.Proc{Name: "src", Kind: spec.KFileSource, Files: []string{"e0.txt", "e1.txt"}},
			&spec.Proc{Name: "A", Kind: []string{spec.KCmd, spec.KGoFunc}[rep%2], Cmd: spec.BuildCmd("A", in, o1, nil, nil, map[string]string{"size": "-1"})},
			&spec.Proc{Name: "B", Kind: spec.KCmd, Cmd: spec.BuildCmd("B", in, o1, nil, nil, nil)},
			&spec.Proc{Name: "C", Kind: spec.KCmd, Cmd: spec.BuildCmd("C", in, o1, nil, nil, nil)})
		s.Conns = append(s.Conns, &spec.Conn{From: "src.out", To: "A.in"}, &spec.Conn{From: "A.out", To: "B.in"}, &spec.Conn{From: "B.out", To: "C.in"})
		exp := evalRef(s, nil)
		if exp.Err != "" {
			c.Broken("reference cannot evaluate the empty-output chain: " + exp.Err)
		}
		var del []int
		for i, t := range exp.Tasks {
			if t.Proc == "C" {
				del = append(del, i)
			}
		}
		jobs = append(jobs, &c11Job{kind: []string{"delete", "delete-keep-audit"}[rep%2], s: s, del: del, cfg: Cfg{Buf: 3, Procs: 2}, label: "delete the last step's outputs, re-run (an ancestor's output is an empty file)"},
			&c11Job{kind: "runto", s: s, target: []string{"B"}, cfg: Cfg{Buf: 3, Procs: 2}, label: "RunTo B then Run (an ancestor's output is an empty file)"})
	}
	// a large lineage: an 11-level, two-wide, fully cross-connected ladder (every task reads both outputs of the level
	// before; the last record holds 8190 ancestor records, its audit file is several megabytes); the last step's output
	// and record are deleted and recomputed from the records on disk
	{
		levels := 11
		ab := []spec.PortDecl{{Name: "a"}, {Name: "b"}}
		o1 := []spec.PortDecl{{Name: "out"}}
		s := &spec.Spec{Name: "ladder", MaxTasks: 4, Sources: map[string]string{"seed.txt": "seed\n"}}
		s.Procs = append(s.Procs, &spec.Proc{Name: "src", Kind: spec.KFileSource, Files: []string{"seed.txt"}})
		for _, side := range []string{"a", "b"} {
			pn := "l1" + side
			s.Procs = append(s.Procs, &spec.Proc{Name: pn, Kind: spec.KCmd, Cmd: spec.BuildCmd(pn, []spec.PortDecl{{Name: "in"}}, o1, nil, nil, nil), Outs: []*spec.Out{{Port: "out", Pattern: pn + ".txt"}}})
			s.Conns = append(s.Conns, &spec.Conn{From: "src.out", To: pn + ".in"})
		}
		for l := 2; l <= levels; l++ {
			for _, side := range []string{"a", "b"} {
				pn := fmt.Sprintf("l%d%s", l, side)
				s.Procs = append(s.Procs, &spec.Proc{Name: pn, Kind: spec.KCmd, Cmd: spec.BuildCmd(pn, ab, o1, nil, nil, nil), Outs: []*spec.Out{{Port: "out", Pattern: pn + ".txt"}}})
				s.Conns = append(s.Conns, &spec.Conn{From: fmt.Sprintf("l%da.out", l-1), To: pn + ".a"}, &spec.Conn{From: fmt.Sprintf("l%db.out", l-1), To: pn + ".b"})
			}
		}
		s.Procs = append(s.Procs, &spec.Proc{Name: "fin", Kind: spec.KCmd, Cmd: spec.BuildCmd("fin", ab, o1, nil, nil, nil), Outs: []*spec.Out{{Port: "out", Pattern: "fin.txt"}}})
		s.Conns = append(s.Conns, &spec.Conn{From: fmt.Sprintf("l%da.out", levels), To: "fin.a"}, &spec.Conn{From: fmt.Sprintf("l%db.out", levels), To: "fin.b"})
		exp := evalRef(s, nil)
		if exp.Err != "" {
			c.Broken("reference cannot evaluate the ladder: " + exp.Err)
		}
		var del []int
		for i, t := range exp.Tasks {
			if t.Proc == "fin" {
				del = append(del, i)
			}
		}
		jobs = append(jobs, &c11Job{kind: "delete", s: s, del: del, cfg: Cfg{Buf: 3, Procs: 4}, label: "delete the last output of an 11-level ladder (audit files of several megabytes), re-run"})
	}
	// directed topologies with outputs relative to the parent directory: RunTo a prefix, then Run
	for _, k := range []string{"chain", "twoout", "diamond"} {
		for _, g := range []bool{false, true} {
			tc := topoCase{k, gen.ShapeParent, g, 2}
			target := map[string]string{"chain": "B", "twoout": "A", "diamond": "A"}[k]
			jobs = append(jobs, &c11Job{kind: "runto", tc: &tc, target: []string{target}, cfg: Cfg{Buf: 3, Procs: 2}, label: "RunTo then Run (outputs in ../ directories)"})
		}
	}
	// directed topologies: a task whose output is a directory, and a gathering task with an ordinary and a joined
	// in-port (which in-port the library looks at first is a matter of map order, so that one is repeated)
	for _, k := range []string{"dirout", "gather", "tagzip", "tagtwice"} {
		for r := 0; r < map[string]int{"dirout": 2, "gather": c.Pick(8, 24), "tagzip": c.Pick(4, 12), "tagtwice": 2}[k]; r++ {
			tc := topoCase{k, gen.ShapePlain, false, 2 + r%2}
			jobs = append(jobs, &c11Job{kind: "runto", tc: &tc, target: []string{"A"}, cfg: Cfg{Buf: 3, Procs: 2}, label: "RunTo A then Run (" + k + ")"})
		}
	}
	// directed topologies: crash, cleanup, resume
	var tcs []topoCase
	for _, k := range []string{"chain", "diamond", "twoout", "params", "dirout"} {
		for _, g := range []bool{false, true} {
			tcs = append(tcs, topoCase{k, gen.ShapePlain, g, 3})
		}
	}
	// kills between any two file-system mutations of the library itself: strace kills the thread that is about to make
	// its n-th rename / unlink (no hook point needed; covers the instants inside the writing of an audit file)
	for _, k := range []string{"tagzip", "tagtwice", "twoout", "chain"} {
		for n := 1; n <= c.Pick(6, 20); n++ {
			if !c.Thorough() && (k == "twoout" || k == "chain") && n%3 != 0 {
				continue
			}
			tc := topoCase{k, gen.ShapePlain, n%4 == 3 && k != "tagzip", 2 + n%2}
			jobs = append(jobs, &c11Job{kind: "crash", tc: &tc, strace: []string{"renameat,renameat2,rename", "unlinkat,unlink,renameat,rename"}[n%2] + ":" + fmt.Sprint(n), cfg: Cfg{Buf: 128, Procs: 2}, label: "killed before the n-th rename / unlink of a thread (strace), cleanup, resume"})
		}
	}
	type dry struct{ points []gen.CrashPoint }
	dries := make([]*dry, len(tcs))
	run.Parallel(len(tcs), func(i int) {
		root := c.CaseDir()
		defer c.Drop(root)
		s := gen.Topo(tcs[i].kind, tcs[i].shape, tcs[i].gof, root, tcs[i].n)
		res := execSpec(c, root, s, Cfg{Buf: 128, Procs: 4}, nil, false, 0)
		if res.Exit == 0 {
			dries[i] = &dry{gen.CrashPoints(res.Events)}
		}
	})
	for i := range tcs {
		if dries[i] == nil {
			continue
		}
		tc := tcs[i]
		for _, p := range dries[i].points {
			imp := strings.HasPrefix(p.Point, "fin.") || strings.HasPrefix(p.Point, "audit.") || p.Point == "task.cmd_done" || p.Point == "task.finalized" || p.Point == "task.audit_written" || p.Point == "proc.outputs_sent"
			if !imp {
				continue
			}
			if !c.Thorough() && rng.Intn(5) != 0 {
				continue
			}
			pp := p
			jobs = append(jobs, &c11Job{kind: "crash", tc: &tc, crash: &pp, label: "crash@" + p.Point + ", cleanup, resume", cfg: Cfg{Buf: 128, Procs: 4}})
		}
	}
	run.Parallel(len(jobs), func(i int) {
		j := jobs[i]
		root := c.CaseDir()
		refRoot := c.CaseDir()
		defer c.Drop(root)
		defer c.Drop(refRoot)
		s := j.s
		if j.tc != nil {
			s = gen.Topo(j.tc.kind, j.tc.shape, j.tc.gof, root, j.tc.n)
			if j.tc.shape == gen.ShapeParent {
				// only the first processing step writes outside the working directory; its consumers use plain paths
				plain := gen.Topo(j.tc.kind, gen.ShapePlain, j.tc.gof, root, j.tc.n)
				for _, p := range s.Procs {
					if p.Name != "A" {
						p.Outs = plain.Proc(p.Name).Outs
					}
				}
			}
		}
		exp := evalRef(s, nil)
		desc := map[string]interface{}{"history": j.label, "spec": s, "cfg": j.cfg, "crash": j.crash, "strace_kill": j.strace, "runto": j.target}
		// uninterrupted run
		rr := execSpec(c, refRoot, s, Cfg{Buf: 128, Procs: 4}, nil, false, 0)
		if rr.Exit != 0 || !rr.Returned {
			c.Inconclusive("uninterrupted run failed")
			return
		}
		want, wps := auditsOf(rr.Wd, exp)
		if len(wps) > 0 {
			c.Violation("uninterrupted:"+wps[0].Sig, strings.Join(mon.Summarize(wps, 4), "\n  "), desc)
			return
		}
		// the history
		lastStarts := 0
		fromDisk := 0
		switch j.kind {
		case "runto":
			s1 := s.Clone()
			s1.Run = spec.Run{Mode: "runto", Targets: j.target}
			r1 := execSpec(c, root, s1, j.cfg, nil, false, 0)
			if r1.Exit != 0 {
				if r1.Hang != "" && !strings.HasPrefix(r1.Hang, "deadlock") {
					c.Inconclusive(r1.Hang)
					return
				}
				c.Violation("runto-failed", fmt.Sprintf("RunTo(%v) exited %d: %s", j.target, r1.Exit, tail(r1.Output(), 400)), desc)
				return
			}
			fromDisk = len(mon.Index(r1.Trace).Starts)
			r2 := execSpec(c, root, s, j.cfg, nil, true, 1)
			if r2.Exit != 0 || !r2.Returned {
				c.Violation("resume-failed", fmt.Sprintf("Run after RunTo exited %d: %s", r2.Exit, tail(r2.Output(), 400)), desc)
				return
			}
			lastStarts = len(mon.Index(r2.Trace).Starts)
		case "truncated-audit":
			s1 := s.Clone()
			s1.Run = spec.Run{Mode: "runto", Targets: j.target}
			r1 := execSpec(c, root, s1, j.cfg, nil, false, 0)
			if r1.Exit != 0 {
				c.Inconclusive("RunTo prefix failed")
				return
			}
			exp1 := evalRef(s1, nil)
			var cand []string
			for p := range exp1.AuditFor {
				if !filepath.IsAbs(p) {
					cand = append(cand, p)
				}
			}
			sort.Strings(cand)
			if len(cand) == 0 {
				return
			}
			victim := cand[i%len(cand)]
			os.Truncate(filepath.Join(r1.Wd, victim+".audit.json"), 0)
			desc["truncated"] = victim + ".audit.json"
			fromDisk = len(mon.Index(r1.Trace).Starts)
			r2 := execSpec(c, root, s, j.cfg, nil, true, 1)
			if r2.Exit != 0 || !r2.Returned {
				c.Count("resume_refused_damaged_audit_file", 1)
				c.Nontrivial(fmt.Sprintf("%s|truncated-refused|%s", gen.ShapeHash(s), victim))
				return
			}
			lastStarts = len(mon.Index(r2.Trace).Starts)
		case "delete", "delete-keep-audit":
			bh := vproto.Behaviours{}
			for _, ti := range j.del {
				bh[exp.Tasks[ti].Key] = map[string]string{"sleep": "1100"} // slow first execution: a later, faster execution writes a shorter record
			}
			r1 := execSpec(c, root, s, j.cfg, bh, false, 0)
			if r1.Exit != 0 || !r1.Returned {
				c.Inconclusive("first run of delete history failed")
				return
			}
			for _, ti := range j.del {
				t := exp.Tasks[ti]
				for port, p := range t.Outs {
					if t.DirOut[port] {
						os.RemoveAll(filepath.Join(r1.Wd, p))
					} else {
						os.Remove(filepath.Join(r1.Wd, p))
					}
					if j.kind == "delete" {
						os.Remove(filepath.Join(r1.Wd, p+".audit.json"))
					}
				}
			}
			if i%2 == 1 {
				// the kept outputs were copied / restored / touched in the meantime: their modification times are now later than
				// those of their audit files (a file's record does not expire)
				del := map[string]bool{}
				for _, ti := range j.del {
					for _, p := range exp.Tasks[ti].Outs {
						del[p] = true
					}
				}
				future := time.Now().Add(3 * time.Second)
				for _, t := range exp.Tasks {
					for port, p := range t.Outs {
						if !del[p] && !t.DirOut[port] {
							os.Chtimes(filepath.Join(r1.Wd, p), future, future)
						}
					}
				}
				desc["kept_outputs_touched"] = true
			}
			fromDisk = len(exp.Tasks) - len(j.del)
			r2 := execSpec(c, root, s, j.cfg, nil, true, 1)
			if r2.Exit != 0 || !r2.Returned {
				if r2.Hang != "" && !strings.HasPrefix(r2.Hang, "deadlock") {
					c.Inconclusive(r2.Hang)
					return
				}
				c.Violation("rerun-after-delete-failed", fmt.Sprintf("re-run after deleting outputs exited %d: %s", r2.Exit, tail(r2.Output(), 500)), desc)
				return
			}
			lastStarts = len(mon.Index(r2.Trace).Starts)
		case "crash":
			cfg := j.cfg
			if j.strace != "" {
				cfg.StraceKill = j.strace
			} else {
				cfg.Crash = j.crash.Env()
			}
			r1 := execSpec(c, root, s, cfg, nil, false, 0)
			if r1.Signal == "" {
				c.Count("faults_not_fired", 1)
				return
			}
			cleanLeftovers(root)
			s1 := mon.SnapRoot(root)
			for _, t := range exp.Tasks {
				n := 0
				fs := taskFiles(root, t)
				for _, f := range fs {
					if _, ok := s1[f]; ok {
						n++
					}
				}
				if n == len(fs) && n > 0 {
					fromDisk++
				}
			}
			r2 := execSpec(c, root, s, Cfg{Buf: 128, Procs: 4}, nil, true, 1)
			if r2.Exit != 0 || !r2.Returned {
				c.Count("recoveries_not_converged_(C03)", 1)
				return
			}
			lastStarts = len(mon.Index(r2.Trace).Starts)
		}
		wd := filepath.Join(root, "wd")
		got, gps := auditsOf(wd, exp)
		var ps []mon.Problem
		ps = append(ps, gps...)
		for p, w := range want {
			g := got[p]
			if g == nil {
				continue
			}
			if g.NormalizedJSON() != w.NormalizedJSON() {
				ps = append(ps, mon.Problem{Sig: "lineage-differs-from-uninterrupted-run", Msg: fmt.Sprintf("audit of %s after the history: %s\n    uninterrupted run: %s", p, clip(g.NormalizedJSON(), 700), clip(w.NormalizedJSON(), 700))})
			}
		}
		ps = append(ps, ancestorIdentity(wd, got)...)
		// whatever the history: the record of an output names every input of its task (also the members of a joined port)
		for _, t := range exp.Tasks {
			for port, out := range t.Outs {
				g := got[out]
				if g == nil || t.Streams[port] {
					continue
				}
				for _, it := range t.In {
					var need []string
					if len(it.Sub) > 0 {
						for _, m := range it.Sub {
							need = append(need, m.Path)
						}
					} else if !it.Stream {
						need = append(need, it.Path)
					}
					for _, np := range need {
						if _, ok := g.Upstream[np]; !ok {
							ps = append(ps, mon.Problem{Sig: "upstream-incomplete", Msg: fmt.Sprintf("audit of %s (task %s) has no Upstream entry for its input %s", out, t.Key, np)})
						}
					}
				}
			}
		}
		rps, nrt := roundTrip(c, wd, exp)
		ps = append(ps, rps...)
		if len(ps) > 0 {
			for _, sig := range sigSet(ps) {
				desc["problems"] = mon.Summarize(ps, 12)
				c.Violation(sig+"|"+j.kind, j.label+":\n  "+strings.Join(mon.Summarize(ps, 4), "\n  "), desc)
			}
			return
		}
		c.Count("audit_trees_compared", len(want))
		c.Count("audit_roundtrips", nrt)
		c.Count("history_"+j.kind, 1)
		if fromDisk >= 1 && lastStarts >= 1 {
			who := ""
			if j.crash != nil {
				who = fmt.Sprintf("%s#%d", j.crash.Who, j.crash.N)
			}
			c.Nontrivial(fmt.Sprintf("%s|%s|%v|%v|%s", gen.ShapeHash(s), j.kind, j.target, j.del, who))
		}
		if i%12 == 0 {
			c.Sample(map[string]interface{}{"history": j.label, "workflow": gen.Describe(s), "crash": j.crash, "runto": j.target, "tasks_taken_from_disk": fromDisk, "tasks_executed_in_last_run": lastStarts, "audit_trees_compared": len(want)})
		}
	})
	c.Finish()
}

func clip(s string, n int) string {
	if len(s) > n {
		return s[:n] + "..."
	}
	return s
}
