package main

import (
	"fmt"
	"os"
	"path/filepath"
	"sort"
	"strings"
	"syscall"

	"verif/internal/chk"
	"verif/internal/gen"
	"verif/internal/mon"
	"verif/internal/ref"
	"verif/internal/run"
	"verif/internal/spec"
	"verif/internal/vproto"
)

func init() { checks["C02"] = c02 }

// statChanges compares the entries of `paths` in two snapshots.
func statChanges(before, after run.Snapshot, paths []string) []mon.Problem {
	var ps []mon.Problem
	for _, p := range paths {
		b, ok1 := before[p]
		a, ok2 := after[p]
		switch {
		case !ok1:
			continue
		case !ok2:
			ps = append(ps, mon.Problem{Sig: "existing-output-removed", Msg: "pre-existing output " + p + " no longer exists"})
		case a.Sha != b.Sha:
			ps = append(ps, mon.Problem{Sig: "existing-output-bytes-changed", Msg: "pre-existing output " + p + " has different bytes after the run"})
		case a.Ino != b.Ino:
			ps = append(ps, mon.Problem{Sig: "existing-output-inode-changed", Msg: "pre-existing output " + p + " was replaced (inode changed)"})
		case a.Mtime != b.Mtime:
			ps = append(ps, mon.Problem{Sig: "existing-output-mtime-changed", Msg: "pre-existing output " + p + " has a new modification time"})
		}
	}
	return ps
}

func c02(args []string) {
	c := chk.New("C02", "exploration", args)
	c.Build(false)
	c.Rule("[sources gone] complete run, the raw source files removed (archived) while every output stays, run again: nothing runs, nothing changes, the run succeeds; [partial re-runs] complete run, an upstream intermediate removed, RunTo / RunToRegex a process further down whose own outputs exist: only the removed file's task runs; [reserved-looking names] outputs named <another output>.fifo, log/*.log and prov/<name>.audit.json through a complete run and twelve re-runs; [old modification times] in every second complete-run / re-run history the tools set the modification time of their outputs to the year 2001; [changed wrapper] complete run, then the same workflow with another Prepend (different command lines, same output paths): nothing runs, nothing changes; [gathered files] a task with a joined in-port whose output exists while parts of it are computed in the same run (file placed by the user; one part deleted after a complete run): not executed, file untouched; [interrupted runs] the run is killed inside a task's finalization (hook points after a declared output was renamed, temp directory still there) and re-run in place without cleanup: outputs already at their final paths keep inode/mtime/bytes and no command of their tasks runs; [links and pass-through] histories: complete run, an intermediate output that has a consumer is moved away and linked back (relative and absolute link), run again twice: no command runs, no file appears, every entry keeps inode/mtime/bytes; a process whose out-port path is its input path ({i:in}), file there before the first run: its command never runs and the file is never touched. generated non-streaming graphs of command / Go-function processes and sources; for each graph subsets of its tasks (all subsets when <= 5 tasks, else random ones) get all their outputs pre-placed (bytes of an earlier complete run incl. audit files / arbitrary user bytes / empty files), and the history 'complete run, run again in place' (also: 4-16 independent chains that end in the sink and fan into one merging process, also a process whose out-port is declared through SetOut only; chains / two-output tasks / diamonds with outputs in nested, parent-relative and absolute directories, re-run completely and after deleting the last process's outputs; 4-16 independent chains re-run 25-60 times in place as separate processes and 60-150 times inside one process, so that every process finishes at the same moment); oracle = no start event of a skipped task, (inode, size, mtime_ns, sha256) of every pre-existing output unchanged, downstream tasks executed exactly once on the pre-existing bytes (reference evaluation), re-run executes nothing. distinct_nontrivial = distinct (graph shape, subset, content kind) with >= 1 skipped and >= 1 executed task, plus re-run histories")
	c.Assume("subsets are subsets of tasks (all outputs of a task present), as the property quantifies; partial presence is C03's subject", ".audit.json files, log/ and atime are not judged")
	rng := c.Rand("c02")
	ngraphs := c.Pick(14, 120)
	maxSub := c.Pick(20, 64)
	type job struct {
		s       *spec.Spec
		exp0    *ref.Result
		subset  []int // indices into exp0.Tasks
		kind    string
		cfg     Cfg
		rerun   bool
		label   string
		partial []string // ports of task subset[0] that are pre-placed (a proper subset of its outputs)
		strace  bool     // also observe the run at syscall level
	}
	var jobs []*job
	for g := 0; g < ngraphs; g++ {
		b := []int{1, 2, 3, 5}[rng.Intn(4)]
		mt := []int{1, 2, 4, 8}[rng.Intn(4)]
		o := gen.GraphOpts{MaxProcs: 5, Lens: []int{1, 2, 3, b + 1}, Buf: b, FanIn: true, Params: true, GoFunc: true, MultiOut: true, Portless: true, SubDirs: true,
			Cores: mt, MaxTasks: mt, SleepMax: 30, NoUnequal: true, DirOut: g%2 == 0, Join: g%2 == 1}
		s := gen.Graph(rng, fmt.Sprintf("g%d", g), o)
		exp0 := evalRef(s, nil)
		if exp0.Err != "" || len(exp0.Tasks) == 0 {
			c.Count("generator_rejects", 1)
			continue
		}
		cfg := Cfg{Buf: b, Procs: []int{1, 2, 4}[rng.Intn(3)], Sched: fmt.Sprintf("%d,300,600", rng.Intn(1<<30))}
		jobs = append(jobs, &job{s: s, exp0: exp0, rerun: true, cfg: cfg, label: "rerun"})
		nt := len(exp0.Tasks)
		var subsets [][]int
		if nt <= 5 {
			for m := 1; m < 1<<uint(nt); m++ {
				var ss []int
				for i := 0; i < nt; i++ {
					if m&(1<<uint(i)) != 0 {
						ss = append(ss, i)
					}
				}
				subsets = append(subsets, ss)
			}
		} else {
			seen := map[string]bool{}
			for tries := 0; len(subsets) < maxSub && tries < maxSub*4; tries++ {
				var ss []int
				p := 1 + rng.Intn(3)
				for i := 0; i < nt; i++ {
					if rng.Intn(4) < p {
						ss = append(ss, i)
					}
				}
				k := fmt.Sprint(ss)
				if len(ss) == 0 || seen[k] {
					continue
				}
				seen[k] = true
				subsets = append(subsets, ss)
			}
		}
		if len(subsets) > maxSub {
			rng.Shuffle(len(subsets), func(i, j int) { subsets[i], subsets[j] = subsets[j], subsets[i] })
			subsets = subsets[:maxSub]
		}
		// partial presence: some but not all outputs of a multi-output task exist
		npart := 0
		for ti, t := range exp0.Tasks {
			if len(t.Outs) < 2 || npart >= 6 {
				continue
			}
			var ports []string
			for pt := range t.Outs {
				ports = append(ports, pt)
			}
			sort.Strings(ports)
			for _, pt := range ports {
				cfg := Cfg{Buf: b, Procs: []int{1, 2, 4}[rng.Intn(3)], Sched: fmt.Sprintf("%d,300,600", rng.Intn(1<<30))}
				jobs = append(jobs, &job{s: s, exp0: exp0, subset: []int{ti}, partial: []string{pt}, kind: []string{"golden", "user"}[npart%2], cfg: cfg, label: "partial"})
				npart++
			}
		}
		for k, ss := range subsets {
			kind := []string{"golden", "user", "empty"}[k%3]
			cfg := Cfg{Buf: b, Procs: []int{1, 2, 4}[rng.Intn(3)], Sched: fmt.Sprintf("%d,300,600", rng.Intn(1<<30))}
			jobs = append(jobs, &job{s: s, exp0: exp0, subset: ss, kind: kind, cfg: cfg, label: "subset", strace: k == 0 && (c.Thorough() || g%4 == 0)})
		}
	}
	run.Parallel(len(jobs), func(i int) {
		j := jobs[i]
		root := c.CaseDir()
		defer c.Drop(root)
		if j.rerun {
			var bh1 vproto.Behaviours
			if i%2 == 1 {
				// the tools restore an old modification time on what they write (tar x, cp -p, rsync -a): outputs older
				// than their inputs are outputs all the same
				bh1 = vproto.Behaviours{}
				for _, p := range j.s.Procs {
					if p.Kind == spec.KCmd || p.Kind == spec.KGoFunc {
						bh1[p.Name] = map[string]string{"mtime": "old"}
					}
				}
			}
			res1 := execSpec(c, root, j.s, j.cfg, bh1, false, 0)
			ps, hang := judgeRun(res1, j.s, j.exp0)
			if hang != "" {
				c.Inconclusive("first run: " + hang)
				return
			}
			if len(ps) > 0 {
				c.Violation("first-run:"+sigSet(ps)[0], strings.Join(mon.Summarize(ps, 6), "\n  "), map[string]interface{}{"spec": j.s, "cfg": j.cfg, "problems": mon.Summarize(ps, 30)})
				return
			}
			before := run.Snap(res1.Wd)
			res2 := execSpec(c, root, j.s, j.cfg, bh1, true, 1)
			if res2.Hang != "" && !strings.HasPrefix(res2.Hang, "deadlock") {
				c.Inconclusive("re-run: " + res2.Hang)
				return
			}
			var rp []mon.Problem
			if res2.Hang != "" {
				rp = append(rp, mon.Problem{Sig: "rerun-hang", Msg: res2.Hang + "\n" + res2.HangInfo})
			} else if res2.Exit != 0 || !res2.Returned {
				rp = append(rp, mon.Problem{Sig: "rerun-failed", Msg: fmt.Sprintf("re-run of a completed workflow exited %d (returned=%v): %s", res2.Exit, res2.Returned, tail(res2.Output(), 600))})
			}
			for _, e := range res2.Trace {
				if e.Ev == "start" {
					rp = append(rp, mon.Problem{Sig: "rerun-executed-command", Msg: "re-run of a completed workflow executed task " + e.Key})
				}
			}
			after := run.Snap(res2.Wd)
			var outs []string
			for p := range j.exp0.Files {
				outs = append(outs, filepath.Clean(p))
			}
			sort.Strings(outs)
			rp = append(rp, statChanges(before, after, outs)...)
			for _, p := range after.Files() {
				if _, ok := before[p]; !ok && !mon.IsHarnessFile(p) {
					rp = append(rp, mon.Problem{Sig: "rerun-new-file", Msg: "re-run created " + p})
				}
			}
			for _, p := range after.Leftovers() {
				rp = append(rp, mon.Problem{Sig: "rerun-leftover", Msg: "re-run left " + p})
			}
			if len(rp) > 0 {
				for _, sig := range sigSet(rp) {
					c.Violation(sig, strings.Join(mon.Summarize(rp, 6), "\n  "), map[string]interface{}{"spec": j.s, "cfg": j.cfg, "history": "complete run, run again", "problems": mon.Summarize(rp, 30)})
				}
				return
			}
			c.Nontrivial("rerun|" + gen.ShapeHash(j.s))
			c.Count("rerun_histories", 1)
			c.Count("outputs_stat_compared", len(outs))
			return
		}
		if j.partial != nil {
			t := j.exp0.Tasks[j.subset[0]]
			s := j.s.Clone()
			var prePaths []string
			for _, port := range j.partial {
				path := t.Outs[port]
				content := t.Content[port]
				if j.kind == "user" {
					content = []byte(fmt.Sprintf("user placed content for %s case %d\n", path, i))
				}
				if t.DirOut[port] {
					path += "/data"
				}
				s.Sources[path] = string(content)
				prePaths = append(prePaths, filepath.Clean(path))
			}
			cs := &run.Case{Root: root, Spec: s}
			wd, _, _ := cs.Prepare()
			before := run.Snap(wd)
			res := execSpec(c, root, s, j.cfg, nil, true, 0)
			if res.Hang != "" && !strings.HasPrefix(res.Hang, "deadlock") {
				c.Inconclusive("partial-presence run: " + res.Hang)
				return
			}
			after := run.Snap(res.Wd)
			var ps []mon.Problem
			for _, e := range res.Trace {
				if e.Ev == "start" && e.Key == t.Key {
					ps = append(ps, mon.Problem{Sig: "partially-present-task-executed", Msg: fmt.Sprintf("task %s was executed although its declared output(s) %v already existed", t.Key, j.partial)})
				}
			}
			ps = append(ps, statChanges(before, after, prePaths)...)
			if len(ps) > 0 {
				for _, sig := range sigSet(ps) {
					c.Violation(sig, strings.Join(mon.Summarize(ps, 6), "\n  "), map[string]interface{}{"spec": j.s, "cfg": j.cfg, "task": t.Key, "preexisting_ports": j.partial, "content_kind": j.kind, "problems": mon.Summarize(ps, 30)})
				}
				return
			}
			c.Count("partial_presence_cases", 1)
			c.Nontrivial(fmt.Sprintf("partial|%s|%s|%v|%s", gen.ShapeHash(j.s), t.Key, j.partial, j.kind))
			return
		}
		// subset case: pre-place all outputs of the chosen tasks
		s := j.s.Clone()
		pre := sourcesOf(j.s)
		var prePaths []string
		skipKeys := map[string]bool{}
		// golden bytes are produced by evaluating the reference (identical to a complete run, as C04 checks);
		// golden audit files are taken from a real complete run only in C11 - here they are not judged.
		for _, ti := range j.subset {
			t := j.exp0.Tasks[ti]
			if len(t.Outs) == 0 {
				continue
			}
			skipKeys[t.Key] = true
			for port, path := range t.Outs {
				var content []byte
				switch j.kind {
				case "golden":
					content = t.Content[port]
				case "user":
					content = []byte(fmt.Sprintf("user placed content for %s case %d\n", path, i))
				case "empty":
					content = []byte{}
				}
				if t.DirOut[port] {
					path = path + "/data"
				}
				s.Sources[path] = string(content)
				pre[path] = content
				prePaths = append(prePaths, filepath.Clean(path))
			}
		}
		if len(prePaths) == 0 {
			return
		}
		exp := ref.Eval(&ref.Input{Spec: j.s, Files: pre})
		if exp.Err != "" {
			c.Count("generator_rejects", 1)
			return
		}
		cs := &run.Case{Root: root, Spec: s}
		wd, _, _ := cs.Prepare()
		before := run.Snap(wd)
		var res *run.Result
		var stLog string
		if j.strace {
			os.MkdirAll(filepath.Join(root, "meta"), 0777)
			stLog = filepath.Join(root, "meta", "strace.log")
			cs2 := &run.Case{Root: root, Bin: c.Bin, Spec: s, Env: j.cfg.env(), KeepWd: true,
				Wrap: []string{"strace", "-f", "-y", "-qq", "-s", "4096", "-e", "trace=%file,%process", "-o", stLog}}
			c.Eval(1)
			res = cs2.Run()
		} else {
			res = execSpec(c, root, s, j.cfg, nil, true, 0)
		}
		ps, hang := judgeRun(res, s, exp)
		if hang != "" {
			c.Inconclusive("subset run: " + hang)
			return
		}
		if j.strace {
			pre := map[string]bool{}
			for _, p := range prePaths {
				pre[filepath.Join(wd, p)] = true
			}
			sps, st := mon.StraceSpec(stLog, wd, nil, pre)
			ps = append(ps, sps...)
			c.Count("strace_lines_checked", st.Lines)
			c.Count("strace_runs", 1)
		}
		after := run.Snap(res.Wd)
		sort.Strings(prePaths)
		ps = append(ps, statChanges(before, after, prePaths)...)
		if len(ps) > 0 {
			var names []string
			for _, ti := range j.subset {
				names = append(names, j.exp0.Tasks[ti].Key)
			}
			for _, sig := range sigSet(ps) {
				c.Violation(sig, strings.Join(mon.Summarize(ps, 6), "\n  "), map[string]interface{}{"spec": j.s, "cfg": j.cfg, "preexisting_tasks": names, "content_kind": j.kind, "problems": mon.Summarize(ps, 30)})
			}
			return
		}
		nskip, nexec := 0, 0
		for _, t := range exp.Tasks {
			if t.Skipped {
				nskip++
			} else {
				nexec++
			}
		}
		c.Count("tasks_skipped", nskip)
		c.Count("tasks_executed", nexec)
		c.Count("outputs_stat_compared", len(prePaths))
		if nskip >= 1 && nexec >= 1 {
			c.Nontrivial(fmt.Sprintf("%s|%v|%s", gen.ShapeHash(j.s), j.subset, j.kind))
		}
		c.Sample(map[string]interface{}{"graph": gen.Describe(j.s), "preexisting_task_indices": j.subset, "content_kind": j.kind, "skipped": nskip, "executed": nexec, "cfg": j.cfg})
	})
	c02rerunMany(c)
	c02pathShapes(c)
	c02setOutOnly(c)
	c02linksAndPassThrough(c)
	c02interrupted(c)
	c02joined(c)
	c02changedWrapper(c)
	c02reservedNames(c)
	c02runToHistory(c)
	c02sourceGone(c)
	c.Finish()
}

// c02rerunMany: history 'complete run, then the completed workflow is built and run again N times in
// place (inside one process)': k independent two-step chains end in the sink and also fan into one merging
// process, so on every re-run all tasks are skipped within microseconds and all processes finish at once.
func c02rerunMany(c *chk.Ctx) {
	rng := c.Rand("c02rerun")
	type job struct {
		k, n, iters int
		cfg         Cfg
	}
	var jobs []*job
	for r := 0; r < c.Pick(8, 32); r++ {
		jobs = append(jobs, &job{k: []int{4, 8, 16}[r%3], n: 1 + r%2, iters: c.Pick(60, 150), cfg: Cfg{Buf: []int{1, 3, 128}[rng.Intn(3)], Procs: []int{2, 4, 8, 16}[r%4], NoHooks: r%4 != 3}})
	}
	run.Parallel(len(jobs), func(i int) {
		j := jobs[i]
		root := c.CaseDir()
		defer c.Drop(root)
		s := &spec.Spec{Name: fmt.Sprintf("rerun%d", j.k), MaxTasks: 4, Sources: map[string]string{}}
		in, o1 := []spec.PortDecl{{Name: "in"}}, []spec.PortDecl{{Name: "out"}}
		for u := 0; u < j.k; u++ {
			src := &spec.Proc{Name: fmt.Sprintf("src%d", u), Kind: spec.KFileSource}
			for x := 0; x < j.n; x++ {
				f := fmt.Sprintf("s%d_%d.txt", u, x)
				src.Files = append(src.Files, f)
				s.Sources[f] = f + "\n"
			}
			a, b := fmt.Sprintf("a%d", u), fmt.Sprintf("b%d", u)
			s.Procs = append(s.Procs, src, &spec.Proc{Name: a, Kind: spec.KCmd, Cmd: spec.BuildCmd(a, in, o1, nil, nil, nil)}, &spec.Proc{Name: b, Kind: spec.KCmd, Cmd: spec.BuildCmd(b, in, o1, nil, nil, nil)})
			s.Conns = append(s.Conns, &spec.Conn{From: src.Name + ".out", To: a + ".in"}, &spec.Conn{From: a + ".out", To: b + ".in"}, &spec.Conn{From: a + ".out", To: "M.in"})
		}
		s.Procs = append(s.Procs, &spec.Proc{Name: "M", Kind: spec.KCmd, Cmd: spec.BuildCmd("M", in, o1, nil, nil, nil)})
		exp := evalRef(s, nil)
		if exp.Err != "" {
			c.Broken("reference cannot evaluate the re-run shape: " + exp.Err)
		}
		desc := map[string]interface{}{"spec": s, "cfg": j.cfg, "chains": j.k, "reruns_in_one_process": j.iters, "history": "complete run, then N re-runs in place"}
		res := execSpec(c, root, s, j.cfg, nil, false, 0)
		ps, hang := judgeRun(res, s, exp)
		if hang != "" {
			c.Inconclusive("first run: " + hang)
			return
		}
		if len(ps) > 0 {
			for _, sig := range sigSet(ps) {
				c.Violation(sig, strings.Join(mon.Summarize(ps, 6), "\n  "), desc)
			}
			return
		}
		before := run.Snap(res.Wd)
		var outs []string
		for _, t := range exp.Tasks {
			for _, o := range t.Outs {
				outs = append(outs, filepath.Clean(o))
			}
		}
		var rp []mon.Problem
		// re-runs as separate processes
		nsep := c.Pick(25, 60)
		for x := 1; x <= nsep && len(rp) == 0; x++ {
			rx := execSpec(c, root, s, j.cfg, nil, true, x)
			if rx.Hang != "" {
				if !strings.HasPrefix(rx.Hang, "deadlock") {
					c.Inconclusive("re-run: " + rx.Hang)
					return
				}
				rp = append(rp, mon.Problem{Sig: "rerun-hang", Msg: fmt.Sprintf("re-run %d of the completed workflow did not terminate: %s\n%s", x, rx.Hang, clip(rx.HangInfo, 800))})
			} else if rx.Exit != 0 || !rx.Returned {
				rp = append(rp, mon.Problem{Sig: "rerun-failed", Msg: fmt.Sprintf("re-run %d of the completed workflow exited %d: %s", x, rx.Exit, tail(rx.Output(), 600))})
			}
			for _, e := range rx.Trace {
				if e.Ev == "start" {
					rp = append(rp, mon.Problem{Sig: "rerun-executed-command", Msg: fmt.Sprintf("re-run %d executed %s", x, e.Key)})
				}
			}
		}
		if len(rp) > 0 {
			rp = append(rp, statChanges(before, run.Snap(res.Wd), outs)...)
			for _, sig := range sigSet(rp) {
				desc["problems"] = mon.Summarize(rp, 12)
				c.Violation(sig, strings.Join(mon.Summarize(rp, 4), "\n  "), desc)
			}
			return
		}
		c.Count("reruns_in_place", nsep)
		s2 := s.Clone()
		s2.Run.Repeat = j.iters
		s2.LogFile = "/dev/null"
		r2 := execSpec(c, root, s2, j.cfg, nil, true, nsep+1)
		if r2.Hang != "" {
			if !strings.HasPrefix(r2.Hang, "deadlock") {
				c.Inconclusive("re-runs: " + r2.Hang)
				return
			}
			rp = append(rp, mon.Problem{Sig: "rerun-hang", Msg: "re-running the completed workflow did not terminate: " + r2.Hang + "\n" + clip(r2.HangInfo, 800)})
		} else if r2.Exit != 0 || !r2.Returned {
			rp = append(rp, mon.Problem{Sig: "rerun-failed", Msg: fmt.Sprintf("re-running the completed workflow (%d times in place) exited %d: %s", j.iters, r2.Exit, tail(r2.Output(), 600))})
		}
		nstart := 0
		for _, e := range r2.Trace {
			if e.Ev == "start" {
				nstart++
			}
		}
		if nstart > 0 {
			rp = append(rp, mon.Problem{Sig: "rerun-executed-command", Msg: fmt.Sprintf("%d commands were executed while re-running the completed workflow", nstart)})
		}
		rp = append(rp, statChanges(before, run.Snap(r2.Wd), outs)...)
		if len(rp) > 0 {
			for _, sig := range sigSet(rp) {
				desc["problems"] = mon.Summarize(rp, 12)
				c.Violation(sig, strings.Join(mon.Summarize(rp, 4), "\n  "), desc)
			}
			return
		}
		c.Count("reruns_in_place", j.iters)
		c.Count("tasks_skipped", j.iters*len(exp.Tasks))
		c.Count("outputs_stat_compared", len(outs))
		c.Nontrivial(fmt.Sprintf("rerun-many|%d|%d|%v", j.k, j.n, j.cfg))
	})
}

func tail(s string, n int) string {
	if len(s) > n {
		return s[len(s)-n:]
	}
	return s
}

// c02pathShapes: 'complete run, run again in place' and 'outputs of a task subset already on disk' for output
// paths in nested, parent-relative and absolute directories (the existence check must look at the declared path).
func c02pathShapes(c *chk.Ctx) {
	type job struct {
		kind  string
		shape gen.PathShape
		gof   bool
		part  bool // second run after deleting the outputs of the last process only
	}
	var jobs []*job
	for _, k := range []string{"chain", "twoout", "diamond"} {
		for _, sh := range []gen.PathShape{gen.ShapeNested, gen.ShapeParent, gen.ShapeAbs} {
			for _, part := range []bool{false, true} {
				if !c.Thorough() && (len(jobs)%3 == 2) {
					jobs = append(jobs, nil)
					continue
				}
				jobs = append(jobs, &job{k, sh, len(jobs)%4 == 1, part})
			}
		}
	}
	run.Parallel(len(jobs), func(i int) {
		j := jobs[i]
		if j == nil {
			return
		}
		root := c.CaseDir()
		defer c.Drop(root)
		s := gen.Topo(j.kind, j.shape, j.gof, root, 2)
		exp := evalRef(s, nil)
		if exp.Err != "" {
			c.Broken("reference cannot evaluate " + s.Name + ": " + exp.Err)
		}
		desc := map[string]interface{}{"spec": s, "topology": j.kind, "path_shape": j.shape, "gofunc": j.gof, "history": "complete run, run again in place"}
		res := execSpec(c, root, s, Cfg{Buf: 3, Procs: 2}, nil, false, 0)
		if res.Hang != "" && !strings.HasPrefix(res.Hang, "deadlock") {
			c.Inconclusive("first run: " + res.Hang)
			return
		}
		var ps []mon.Problem
		if res.Hang != "" || res.Exit != 0 || !res.Returned {
			ps = append(ps, mon.Problem{Sig: "exit-nonzero", Msg: fmt.Sprintf("first run: exit %d %s: %s", res.Exit, res.Hang, tail(res.Output(), 400))})
		} else {
			ps = converged(root, mon.SnapRoot(root), exp, preRootSet(root, s))
		}
		if len(ps) > 0 {
			for _, sig := range sigSet(ps) {
				c.Violation(sig, strings.Join(mon.Summarize(ps, 6), "\n  "), desc)
			}
			return
		}
		// root-relative keys of all outputs
		rel := func(p string) string {
			if filepath.IsAbs(p) {
				r, _ := filepath.Rel(root, p)
				return filepath.Clean(r)
			}
			return filepath.Clean(filepath.Join("wd", p))
		}
		var outs []string
		lastProc := exp.Tasks[len(exp.Tasks)-1].Proc
		for _, t := range exp.Tasks {
			for _, o := range t.Outs {
				if j.part && t.Proc == lastProc {
					os.Remove(filepath.Join(root, rel(o)))
					os.Remove(filepath.Join(root, rel(o)+".audit.json"))
					continue
				}
				outs = append(outs, rel(o))
			}
		}
		if j.part {
			desc["history"] = "complete run, outputs of the last process deleted, run again"
		}
		before := mon.SnapRoot(root)
		r2 := execSpec(c, root, s, Cfg{Buf: 3, Procs: 2}, nil, true, 1)
		var rp []mon.Problem
		if r2.Hang != "" {
			if !strings.HasPrefix(r2.Hang, "deadlock") {
				c.Inconclusive("re-run: " + r2.Hang)
				return
			}
			rp = append(rp, mon.Problem{Sig: "rerun-hang", Msg: r2.Hang})
		} else if r2.Exit != 0 || !r2.Returned {
			rp = append(rp, mon.Problem{Sig: "rerun-failed", Msg: fmt.Sprintf("exit %d: %s", r2.Exit, tail(r2.Output(), 400))})
		}
		for _, e := range r2.Trace {
			if e.Ev == "start" && !(j.part && strings.HasPrefix(e.Key, lastProc+"|")) {
				rp = append(rp, mon.Problem{Sig: "rerun-executed-command", Msg: "the second run executed " + e.Key + " although its outputs exist"})
			}
		}
		rp = append(rp, statChanges(before, mon.SnapRoot(root), outs)...)
		if len(rp) > 0 {
			for _, sig := range sigSet(rp) {
				desc["problems"] = mon.Summarize(rp, 12)
				c.Violation(sig, fmt.Sprintf("%s, %s paths: %s", j.kind, j.shape, strings.Join(mon.Summarize(rp, 4), "\n  ")), desc)
			}
			return
		}
		c.Count("outputs_stat_compared", len(outs))
		c.Count("path_shape_histories", 1)
		c.Nontrivial(fmt.Sprintf("pathshape|%s|%s|%v|%v", j.kind, j.shape, j.gof, j.part))
	})
}

// c02setOutOnly: a process whose out-port exists only through SetOut (the command names its result file itself, no
// {o:...} placeholder): its existing outputs count like any other. History: complete run, run again (twice).
func c02setOutOnly(c *chk.Ctx) {
	run.Parallel(c.Pick(3, 9), func(i int) {
		root := c.CaseDir()
		defer c.Drop(root)
		s := &spec.Spec{Name: "setoutonly", MaxTasks: 2, Sources: map[string]string{"u0.txt": "u0\n", "u1.txt": "u1\n"}}
		pat := []string{"sd/{i:in|basename}.w.res", "{i:in|basename}.w.res", "sd/deep/er/{i:in|basename}.w.res"}[i%3]
		s.Procs = append(s.Procs, &spec.Proc{Name: "src", Kind: spec.KFileSource, Files: []string{"u0.txt", "u1.txt"}},
			&spec.Proc{Name: "W", Kind: spec.KCmd, Cmd: spec.VcmdPath + " run id=W i=in:{i:in} o=res:" + pat, Outs: []*spec.Out{{Port: "res", Pattern: pat}}},
			&spec.Proc{Name: "D", Kind: spec.KCmd, Cmd: spec.BuildCmd("D", []spec.PortDecl{{Name: "in"}}, []spec.PortDecl{{Name: "out"}}, nil, nil, nil)})
		s.Conns = append(s.Conns, &spec.Conn{From: "src.out", To: "W.in"}, &spec.Conn{From: "W.res", To: "D.in"})
		desc := map[string]interface{}{"spec": s, "history": "complete run, run again twice", "port": "declared through SetOut only"}
		res := execSpec(c, root, s, Cfg{Buf: 3, Procs: 2}, nil, false, 0)
		if res.Hang != "" && !strings.HasPrefix(res.Hang, "deadlock") {
			c.Inconclusive(res.Hang)
			return
		}
		starts := func(tr []vproto.Event) int {
			n := 0
			for _, e := range tr {
				if e.Ev == "start" {
					n++
				}
			}
			return n
		}
		if res.Exit != 0 || !res.Returned || starts(res.Trace) != 4 {
			c.Violation("exit-nonzero", fmt.Sprintf("first run: exit %d, %d commands: %s", res.Exit, starts(res.Trace), tail(res.Output(), 400)), desc)
			return
		}
		before := run.Snap(res.Wd)
		var outs []string
		for p, e := range before {
			if e.Mode == "f" && (strings.HasSuffix(p, ".w.res") || strings.HasSuffix(p, ".out")) {
				outs = append(outs, p)
			}
		}
		var rp []mon.Problem
		for x := 1; x <= 2 && len(rp) == 0; x++ {
			rx := execSpec(c, root, s, Cfg{Buf: 3, Procs: 2}, nil, true, x)
			if rx.Hang != "" && !strings.HasPrefix(rx.Hang, "deadlock") {
				c.Inconclusive(rx.Hang)
				return
			}
			if rx.Hang != "" || rx.Exit != 0 || !rx.Returned {
				rp = append(rp, mon.Problem{Sig: "rerun-failed", Msg: fmt.Sprintf("re-run %d: exit %d %s: %s", x, rx.Exit, rx.Hang, tail(rx.Output(), 400))})
			}
			for _, e := range rx.Trace {
				if e.Ev == "start" {
					rp = append(rp, mon.Problem{Sig: "rerun-executed-command", Msg: fmt.Sprintf("re-run %d executed %s although its output exists", x, e.Key)})
				}
			}
			rp = append(rp, statChanges(before, run.Snap(res.Wd), outs)...)
		}
		if len(rp) > 0 {
			for _, sig := range sigSet(rp) {
				desc["problems"] = mon.Summarize(rp, 10)
				c.Violation(sig, "out-port declared through SetOut only: "+strings.Join(mon.Summarize(rp, 4), "\n  "), desc)
			}
			return
		}
		c.Count("outputs_stat_compared", len(outs))
		c.Nontrivial(fmt.Sprintf("setoutonly|%d", i))
	})
}

// c02linksAndPassThrough: (a) history 'complete run, an intermediate output (which has a consumer) is moved away and
// linked back, run again': the link is an existing output like any other; (b) a process whose out-port path is the
// path of its input ("{i:in}"): the file is there before the first run, so its task never runs and the file is never
// touched, in the first and in the second run.
func c02linksAndPassThrough(c *chk.Ctx) {
	starts := func(tr []vproto.Event, proc string) int {
		n := 0
		for _, e := range tr {
			if e.Ev == "start" && (proc == "" || e.ID == proc) {
				n++
			}
		}
		return n
	}
	run.Parallel(c.Pick(6, 16), func(i int) {
		root := c.CaseDir()
		defer c.Drop(root)
		link := i%2 == 0
		s := &spec.Spec{Name: "linkpass", MaxTasks: 3, Sources: map[string]string{"data/n0.txt": "n0\n", "data/n1.txt": "n1\n"}, Dirs: []string{"archive"}}
		in := []spec.PortDecl{{Name: "in"}}
		first := &spec.Proc{Name: "UP", Kind: spec.KCmd, Cmd: spec.BuildCmd("UP", in, []spec.PortDecl{{Name: "out"}}, nil, nil, nil)}
		first.Outs = []*spec.Out{{Port: "out", Pattern: "{i:in}.up.out"}}
		if !link {
			first.Outs = []*spec.Out{{Port: "out", Pattern: "{i:in}"}}
		}
		s.Procs = append(s.Procs, &spec.Proc{Name: "src", Kind: spec.KFileSource, Files: []string{"data/n0.txt", "data/n1.txt"}}, first,
			// the consumers name their outputs after the full path of their input
			&spec.Proc{Name: "CNT", Kind: spec.KCmd, Cmd: spec.BuildCmd("CNT", in, []spec.PortDecl{{Name: "out"}}, nil, nil, nil), Outs: []*spec.Out{{Port: "out", Pattern: "{i:in}.cnt.out"}}},
			&spec.Proc{Name: "FIN", Kind: spec.KCmd, Cmd: spec.BuildCmd("FIN", in, []spec.PortDecl{{Name: "out"}}, nil, nil, nil), Outs: []*spec.Out{{Port: "out", Pattern: "{i:in}.fin.out"}}})
		s.Conns = append(s.Conns, &spec.Conn{From: "src.out", To: "UP.in"}, &spec.Conn{From: "UP.out", To: "CNT.in"}, &spec.Conn{From: "CNT.out", To: "FIN.in"})
		cfg := Cfg{Buf: []int{1, 3, 128}[i%3], Procs: 2}
		desc := map[string]interface{}{"spec": s, "cfg": cfg}
		wd := filepath.Join(root, "wd")
		var pre run.Snapshot
		if !link {
			desc["history"] = "the pass-through output (= the input file) exists before the first run; run, run again"
			// the source files are made by Prepare; snapshot them through a dry preparation
			cs := &run.Case{Root: root, Spec: s}
			if _, _, err := cs.Prepare(); err != nil {
				c.Inconclusive("prepare: " + err.Error())
				return
			}
			pre = run.Snap(wd)
		}
		res := execSpec(c, root, s, cfg, nil, !link, 0)
		if res.Hang != "" && !strings.HasPrefix(res.Hang, "deadlock") {
			c.Inconclusive(res.Hang)
			return
		}
		var ps []mon.Problem
		wantStarts := 6
		if !link {
			wantStarts = 4
		}
		if res.Hang != "" || res.Exit != 0 || !res.Returned {
			ps = append(ps, mon.Problem{Sig: "exit-nonzero", Msg: fmt.Sprintf("first run: exit %d %s: %s", res.Exit, res.Hang, tail(res.Output(), 400))})
		} else if !link {
			if n := starts(res.Trace, "UP"); n != 0 {
				ps = append(ps, mon.Problem{Sig: "executed-command-of-existing-output", Msg: fmt.Sprintf("the first run executed %d commands of UP, whose output files (its input files) all existed", n)})
			}
			ps = append(ps, statChanges(pre, run.Snap(wd), []string{"data/n0.txt", "data/n1.txt"})...)
		}
		if len(ps) == 0 && starts(res.Trace, "") != wantStarts {
			ps = append(ps, mon.Problem{Sig: "exit-nonzero", Msg: fmt.Sprintf("first run executed %d commands, expected %d", starts(res.Trace, ""), wantStarts)})
		}
		if len(ps) > 0 {
			for _, sig := range sigSet(ps) {
				desc["problems"] = mon.Summarize(ps, 10)
				c.Violation(sig, strings.Join(mon.Summarize(ps, 4), "\n  "), desc)
			}
			return
		}
		if link {
			desc["history"] = "complete run; the outputs of the first process are moved to another directory and linked back; run again"
			for k, n := range []string{"data/n0.txt.up.out", "data/n1.txt.up.out"} {
				if _, err := os.Stat(filepath.Join(wd, n)); err != nil {
					c.Violation("exit-nonzero", "expected output of UP is not there after the first run: "+err.Error(), desc)
					return
				}
				os.Rename(filepath.Join(wd, n), filepath.Join(wd, "archive", filepath.Base(n)))
				target := "../archive/" + filepath.Base(n)
				if (i/2+k)%2 == 1 {
					target = filepath.Join(wd, "archive", filepath.Base(n))
				}
				if err := os.Symlink(target, filepath.Join(wd, n)); err != nil {
					c.Inconclusive("symlink: " + err.Error())
					return
				}
			}
		}
		before := run.Snap(wd)
		var outs []string
		for p, e := range before {
			if e.Mode != "d" && !mon.IsAuditFile(p) {
				outs = append(outs, p)
			}
		}
		var rp []mon.Problem
		for x := 1; x <= 2 && len(rp) == 0; x++ {
			rx := execSpec(c, root, s, cfg, nil, true, x)
			if rx.Hang != "" && !strings.HasPrefix(rx.Hang, "deadlock") {
				c.Inconclusive(rx.Hang)
				return
			}
			if rx.Hang != "" || rx.Exit != 0 || !rx.Returned {
				rp = append(rp, mon.Problem{Sig: "rerun-failed", Msg: fmt.Sprintf("re-run %d: exit %d %s: %s", x, rx.Exit, rx.Hang, tail(rx.Output(), 400))})
			}
			for _, e := range rx.Trace {
				if e.Ev == "start" {
					rp = append(rp, mon.Problem{Sig: "rerun-executed-command", Msg: fmt.Sprintf("re-run %d executed %s although its output exists", x, e.Key)})
				}
			}
			after := run.Snap(wd)
			rp = append(rp, statChanges(before, after, outs)...)
			for p, e := range after {
				if _, ok := before[p]; !ok && e.Mode != "d" {
					rp = append(rp, mon.Problem{Sig: "rerun-new-file", Msg: fmt.Sprintf("re-run %d created %s", x, p)})
				}
			}
		}
		if len(rp) > 0 {
			for _, sig := range sigSet(rp) {
				desc["problems"] = mon.Summarize(rp, 10)
				c.Violation(sig, fmt.Sprintf("%v: %s", desc["history"], strings.Join(mon.Summarize(rp, 4), "\n  ")), desc)
			}
			return
		}
		c.Count("outputs_stat_compared", len(outs))
		c.Nontrivial(fmt.Sprintf("linkpass|%v|%d", link, i))
	})
}

// c02interrupted: outputs left by an interrupted run. The run is killed inside the finalization of a task - after a
// declared output was renamed to its final path, while the task's temp directory still exists (further outputs or
// additional files to move) - and the workflow is run again in place without any cleanup. Whatever the re-run does
// (the library stops with "existing temp folders"), the outputs that were at their final paths keep inode, mtime and
// bytes, and no command of a task with such an output is executed.
func c02interrupted(c *chk.Ctx) {
	type ij struct {
		kind string
		gof  bool
		cp   gen.CrashPoint
	}
	var jobs []ij
	for _, k := range []string{"twoout", "extra"} {
		for _, g := range []bool{false, true} {
			root := c.CaseDir()
			s := gen.Topo(k, gen.ShapeNested, g, root, 2)
			res := execSpec(c, root, s, Cfg{Buf: 128, Procs: 4}, gen.TopoBehav(k, evalRef(s, nil)), false, 0)
			n := 0
			for _, p := range gen.CrashPoints(res.Events) {
				if p.Point == "fin.renamed" || p.Point == "fin.extra_moved" || p.Point == "fin.before_rmtemp" {
					if c.Thorough() || n%3 == 0 {
						jobs = append(jobs, ij{k, g, p})
					}
					n++
				}
			}
			c.Drop(root)
		}
	}
	run.Parallel(len(jobs), func(i int) {
		j := jobs[i]
		root := c.CaseDir()
		defer c.Drop(root)
		s := gen.Topo(j.kind, gen.ShapeNested, j.gof, root, 2)
		exp := evalRef(s, nil)
		bh := gen.TopoBehav(j.kind, exp)
		desc := map[string]interface{}{"topology": j.kind, "gofunc": j.gof, "crash": j.cp, "history": "run killed inside a task's finalization, run again in place without cleanup", "spec": s}
		res := execSpec(c, root, s, Cfg{Buf: 128, Procs: 4, Crash: j.cp.Env()}, bh, false, 0)
		if res.Signal == "" {
			c.Count("interrupted_crash_point_not_hit", 1)
			return
		}
		before := mon.SnapRoot(root)
		// declared outputs that are at their final path now, and the tasks they belong to
		var outs []string
		owner := map[string]bool{}
		for _, t := range exp.Tasks {
			for _, o := range t.Outs {
				fp := mon.RootRel(root, o)
				if e, ok := before[fp]; ok && e.Mode == "f" {
					outs = append(outs, fp)
					owner[t.Key] = true
				}
			}
		}
		if len(outs) == 0 {
			c.Count("interrupted_nothing_finalized_yet", 1)
			return
		}
		r2 := execSpec(c, root, s, Cfg{Buf: 128, Procs: 4}, bh, true, 1)
		if r2.Hang != "" && !strings.HasPrefix(r2.Hang, "deadlock") {
			c.Inconclusive("re-run: " + r2.Hang)
			return
		}
		var rp []mon.Problem
		for _, e := range r2.Trace {
			if e.Ev == "start" && owner[e.Key] {
				rp = append(rp, mon.Problem{Sig: "rerun-executed-command", Msg: "the re-run executed " + e.Key + " although an output of that task was at its final path"})
			}
		}
		rp = append(rp, statChanges(before, mon.SnapRoot(root), outs)...)
		if len(rp) > 0 {
			for _, sig := range sigSet(rp) {
				desc["problems"] = mon.Summarize(rp, 10)
				c.Violation(sig, fmt.Sprintf("killed at %s, re-run without cleanup (exit %d): %s", j.cp.Point, r2.Exit, strings.Join(mon.Summarize(rp, 4), "\n  ")), desc)
			}
			return
		}
		c.Count("outputs_stat_compared", len(outs))
		c.Count("interrupted_histories", 1)
		c.Nontrivial(fmt.Sprintf("interrupted|%s|%v|%s#%d", j.kind, j.gof, j.cp.Point, j.cp.N))
	})
}

// c02joined: a gathering task ({i:x|join:SEP} behind StreamToSubStream) whose output is on disk while (some of) its
// parts are not: the parts are (re)computed - and are then newer than the gathered file -, the gathering task is not
// executed and its file keeps inode, mtime and bytes. Histories: the gathered file placed by the user before the first
// run; complete run, one part deleted, run again.
func c02joined(c *chk.Ctx) {
	run.Parallel(c.Pick(4, 12), func(i int) {
		root := c.CaseDir()
		defer c.Drop(root)
		in, o1 := []spec.PortDecl{{Name: "in"}}, []spec.PortDecl{{Name: "out"}}
		s := &spec.Spec{Name: "joinedexisting", MaxTasks: 3, Sources: map[string]string{"j0.txt": "j0\n", "j1.txt": "j1\n", "j2.txt": "j2\n"}}
		s.Procs = append(s.Procs, &spec.Proc{Name: "src", Kind: spec.KFileSource, Files: []string{"j0.txt", "j1.txt", "j2.txt"}},
			&spec.Proc{Name: "U", Kind: spec.KCmd, Cmd: spec.BuildCmd("U", in, o1, nil, nil, nil), Outs: []*spec.Out{{Port: "out", Pattern: "parts/{i:in|basename}.U.out"}}},
			&spec.Proc{Name: "SS", Kind: spec.KSubStream},
			&spec.Proc{Name: "JN", Kind: []string{spec.KCmd, spec.KGoFunc}[i%2], Cmd: spec.BuildCmd("JN", []spec.PortDecl{{Name: "in", Join: "space"}}, o1, nil, nil, nil), Outs: []*spec.Out{{Port: "out", Pattern: "merged.out"}}},
			&spec.Proc{Name: "D", Kind: spec.KCmd, Cmd: spec.BuildCmd("D", in, o1, nil, nil, nil)})
		s.Conns = append(s.Conns, &spec.Conn{From: "src.out", To: "U.in"}, &spec.Conn{From: "U.out", To: "SS.in"}, &spec.Conn{From: "SS.substream", To: "JN.in"}, &spec.Conn{From: "JN.out", To: "D.in"})
		cfg := Cfg{Buf: []int{1, 128}[i%2], Procs: 2}
		desc := map[string]interface{}{"spec": s, "cfg": cfg}
		preplaced := i%2 == 0
		if preplaced {
			desc["history"] = "the gathered file is placed by the user before the first run (its parts do not exist yet)"
			s.Sources["merged.out"] = "a gathered file the user brought along\n"
		} else {
			desc["history"] = "complete run, one part deleted, run again"
			r0 := execSpec(c, root, s, cfg, nil, false, 0)
			if r0.Hang != "" || r0.Exit != 0 || !r0.Returned {
				if r0.Hang != "" && !strings.HasPrefix(r0.Hang, "deadlock") {
					c.Inconclusive(r0.Hang)
					return
				}
				c.Violation("exit-nonzero", fmt.Sprintf("first run: exit %d %s: %s", r0.Exit, r0.Hang, tail(r0.Output(), 400)), desc)
				return
			}
			os.Remove(filepath.Join(r0.Wd, "parts/j1.txt.U.out"))
			os.Remove(filepath.Join(r0.Wd, "parts/j1.txt.U.out.audit.json"))
		}
		wd := filepath.Join(root, "wd")
		if preplaced {
			cs := &run.Case{Root: root, Spec: s}
			cs.Prepare()
		}
		before := run.Snap(wd)
		res := execSpec(c, root, s, cfg, nil, true, 1)
		if res.Hang != "" && !strings.HasPrefix(res.Hang, "deadlock") {
			c.Inconclusive(res.Hang)
			return
		}
		var ps []mon.Problem
		if res.Hang != "" || res.Exit != 0 || !res.Returned {
			ps = append(ps, mon.Problem{Sig: "exit-nonzero", Msg: fmt.Sprintf("exit %d %s: %s", res.Exit, res.Hang, tail(res.Output(), 400))})
		}
		nU := 0
		for _, e := range res.Trace {
			if e.Ev == "start" && e.ID == "JN" {
				ps = append(ps, mon.Problem{Sig: "skipped-task-executed", Msg: "the gathering task was executed although merged.out existed"})
			}
			if e.Ev == "start" && e.ID == "U" {
				nU++
			}
		}
		ps = append(ps, statChanges(before, run.Snap(wd), []string{"merged.out"})...)
		if len(ps) > 0 {
			for _, sig := range sigSet(ps) {
				desc["problems"] = mon.Summarize(ps, 10)
				c.Violation(sig, fmt.Sprintf("%v: %s", desc["history"], strings.Join(mon.Summarize(ps, 4), "\n  ")), desc)
			}
			return
		}
		if nU == 0 {
			c.Inconclusive("joined-existing: no part was computed in the judged run")
			return
		}
		c.Count("outputs_stat_compared", 1)
		c.Nontrivial(fmt.Sprintf("joinedexisting|%v|%d", preplaced, i))
	})
}

// c02changedWrapper: history 'complete run, then the same workflow again with another Prepend (time limit, niceness -
// the command lines differ, the output paths do not)': existing outputs are existing outputs, whatever their audit
// record says about how they were made.
func c02changedWrapper(c *chk.Ctx) {
	run.Parallel(c.Pick(3, 9), func(i int) {
		root := c.CaseDir()
		defer c.Drop(root)
		mk := func(prepend string) *spec.Spec {
			in, o1 := []spec.PortDecl{{Name: "in"}}, []spec.PortDecl{{Name: "out"}}
			s := &spec.Spec{Name: "wrapper", MaxTasks: 2, Sources: map[string]string{"w0.txt": "w0\n", "w1.txt": "w1\n"}}
			s.Procs = append(s.Procs, &spec.Proc{Name: "src", Kind: spec.KFileSource, Files: []string{"w0.txt", "w1.txt"}},
				&spec.Proc{Name: "A", Kind: spec.KCmd, Prepend: prepend, Cmd: spec.BuildCmd("A", in, o1, nil, nil, nil)},
				&spec.Proc{Name: "B", Kind: []string{spec.KCmd, spec.KGoFunc}[i%2], Prepend: prepend, Cmd: spec.BuildCmd("B", in, o1, nil, nil, nil)})
			s.Conns = append(s.Conns, &spec.Conn{From: "src.out", To: "A.in"}, &spec.Conn{From: "A.out", To: "B.in"})
			return s
		}
		first := []string{"env VERIF_WRAPPED=1", "", "env VERIF_LIMIT=10m"}[i%3]
		second := []string{"env VERIF_WRAPPED=2 nice -n 5", "env VERIF_WRAPPED=1", ""}[i%3]
		s1, s2 := mk(first), mk(second)
		cfg := Cfg{Buf: 3, Procs: 2}
		desc := map[string]interface{}{"first_run": s1, "second_run": s2, "history": fmt.Sprintf("complete run with Prepend %q, run again with Prepend %q", first, second)}
		r1 := execSpec(c, root, s1, cfg, nil, false, 0)
		if r1.Hang != "" && !strings.HasPrefix(r1.Hang, "deadlock") {
			c.Inconclusive(r1.Hang)
			return
		}
		if r1.Hang != "" || r1.Exit != 0 || !r1.Returned {
			c.Violation("exit-nonzero", fmt.Sprintf("first run: exit %d %s: %s", r1.Exit, r1.Hang, tail(r1.Output(), 400)), desc)
			return
		}
		before := run.Snap(r1.Wd)
		var outs []string
		for p, e := range before {
			if e.Mode == "f" && strings.HasSuffix(p, ".out") {
				outs = append(outs, p)
			}
		}
		r2 := execSpec(c, root, s2, cfg, nil, true, 1)
		if r2.Hang != "" && !strings.HasPrefix(r2.Hang, "deadlock") {
			c.Inconclusive(r2.Hang)
			return
		}
		var rp []mon.Problem
		if r2.Hang != "" || r2.Exit != 0 || !r2.Returned {
			rp = append(rp, mon.Problem{Sig: "rerun-failed", Msg: fmt.Sprintf("exit %d %s: %s", r2.Exit, r2.Hang, tail(r2.Output(), 400))})
		}
		for _, e := range r2.Trace {
			if e.Ev == "start" {
				rp = append(rp, mon.Problem{Sig: "rerun-executed-command", Msg: "the second run executed " + e.Key + " although its output exists"})
			}
		}
		rp = append(rp, statChanges(before, run.Snap(r1.Wd), outs)...)
		if len(rp) > 0 || len(outs) != 4 {
			for _, sig := range sigSet(append(rp, mon.Problem{Sig: "wrapper-history", Msg: fmt.Sprint(len(outs), " outputs after the first run")})) {
				if sig == "wrapper-history" && len(outs) == 4 {
					continue
				}
				desc["problems"] = mon.Summarize(rp, 10)
				c.Violation(sig, fmt.Sprintf("%v: %s", desc["history"], strings.Join(mon.Summarize(rp, 4), "\n  ")), desc)
			}
			return
		}
		c.Count("outputs_stat_compared", len(outs))
		c.Nontrivial(fmt.Sprintf("wrapper|%d", i%3))
	})
}

// c02reservedNames: outputs whose names look like files the library keeps for itself - "<another output>.fifo", and
// "*.log" files in the log/ directory - are outputs like any other. History: complete run, then twelve re-runs in place
// (the library writes one log file per run): nothing runs, nothing changes.
func c02reservedNames(c *chk.Ctx) {
	run.Parallel(c.Pick(2, 6), func(i int) {
		root := c.CaseDir()
		defer c.Drop(root)
		in, o1 := []spec.PortDecl{{Name: "in"}}, []spec.PortDecl{{Name: "out"}}
		s := &spec.Spec{Name: "reserved", MaxTasks: 2, Sources: map[string]string{"n0.txt": "n0\n", "n1.txt": "n1\n"}}
		s.Procs = append(s.Procs, &spec.Proc{Name: "src", Kind: spec.KFileSource, Files: []string{"n0.txt", "n1.txt"}},
			&spec.Proc{Name: "A", Kind: spec.KCmd, Cmd: spec.BuildCmd("A", in, o1, nil, nil, nil), Outs: []*spec.Out{{Port: "out", Pattern: "{i:in}.a"}}},
			&spec.Proc{Name: "B", Kind: []string{spec.KCmd, spec.KGoFunc}[i%2], Cmd: spec.BuildCmd("B", in, o1, nil, nil, nil), Outs: []*spec.Out{{Port: "out", Pattern: "{i:in}.fifo"}}},
			&spec.Proc{Name: "C", Kind: spec.KCmd, Cmd: spec.BuildCmd("C", in, o1, nil, nil, nil), Outs: []*spec.Out{{Port: "out", Pattern: "log/{i:in|basename}.check.log"}}})
		s.Conns = append(s.Conns, &spec.Conn{From: "src.out", To: "A.in"}, &spec.Conn{From: "A.out", To: "B.in"}, &spec.Conn{From: "A.out", To: "C.in"})
		// an output that is itself named like an audit file and kept away from any data file (a provenance collection)
		s.Procs = append(s.Procs, &spec.Proc{Name: "D", Kind: spec.KCmd, Cmd: spec.BuildCmd("D", in, o1, nil, nil, nil), Outs: []*spec.Out{{Port: "out", Pattern: "prov/{i:in|basename}.audit.json"}}})
		s.Conns = append(s.Conns, &spec.Conn{From: "A.out", To: "D.in"})
		// the log files of a dozen earlier runs of this workflow are still there
		for k := 0; k < 12; k++ {
			s.Sources[fmt.Sprintf("log/scipipe-202401%02d-101500-reserved.log", k+1)] = "AUDIT   old log\n"
		}
		cfg := Cfg{Buf: 3, Procs: 2, NoHooks: true}
		desc := map[string]interface{}{"spec": s, "history": "complete run, twelve re-runs in place (a dozen older log files in log/)"}
		r1 := execSpec(c, root, s, cfg, nil, false, 0)
		if r1.Hang != "" && !strings.HasPrefix(r1.Hang, "deadlock") {
			c.Inconclusive(r1.Hang)
			return
		}
		if r1.Hang != "" || r1.Exit != 0 || !r1.Returned {
			c.Violation("exit-nonzero", fmt.Sprintf("first run: exit %d %s: %s", r1.Exit, r1.Hang, tail(r1.Output(), 400)), desc)
			return
		}
		// the log directory is part of the working directory here (run.Snap leaves "log" out: stat by hand)
		stat := func() map[string]string {
			m := map[string]string{}
			for _, f := range []string{"n0.txt.a", "n1.txt.a", "n0.txt.a.fifo", "n1.txt.a.fifo", "log/n0.txt.a.check.log", "log/n1.txt.a.check.log", "prov/n0.txt.a.audit.json", "prov/n1.txt.a.audit.json"} {
				fi, err := os.Stat(filepath.Join(r1.Wd, f))
				if err != nil {
					m[f] = "missing"
					continue
				}
				b, _ := os.ReadFile(filepath.Join(r1.Wd, f))
				m[f] = fmt.Sprintf("%d|%d|%s", fi.Sys().(*syscall.Stat_t).Ino, fi.ModTime().UnixNano(), vproto.Sha(b))
			}
			return m
		}
		before := stat()
		for f, v := range before {
			if v == "missing" {
				c.Violation("exit-nonzero", "first run did not produce "+f, desc)
				return
			}
		}
		var rp []mon.Problem
		for x := 1; x <= 12 && len(rp) == 0; x++ {
			rx := execSpec(c, root, s, cfg, nil, true, x)
			if rx.Hang != "" && !strings.HasPrefix(rx.Hang, "deadlock") {
				c.Inconclusive(rx.Hang)
				return
			}
			if rx.Hang != "" || rx.Exit != 0 || !rx.Returned {
				rp = append(rp, mon.Problem{Sig: "rerun-failed", Msg: fmt.Sprintf("re-run %d: exit %d %s", x, rx.Exit, rx.Hang)})
			}
			for _, e := range rx.Trace {
				if e.Ev == "start" {
					rp = append(rp, mon.Problem{Sig: "rerun-executed-command", Msg: fmt.Sprintf("re-run %d executed %s although its output existed", x, e.Key)})
				}
			}
			for f, v := range stat() {
				if v != before[f] {
					rp = append(rp, mon.Problem{Sig: "existing-output-inode-changed", Msg: fmt.Sprintf("re-run %d: %s changed (inode|mtime|sha %s -> %s)", x, f, clip(before[f], 40), clip(v, 40))})
				}
			}
		}
		if len(rp) > 0 {
			for _, sig := range sigSet(rp) {
				desc["problems"] = mon.Summarize(rp, 10)
				c.Violation(sig, "outputs named <output>.fifo and log/*.log: "+strings.Join(mon.Summarize(rp, 4), "\n  "), desc)
			}
			return
		}
		c.Count("outputs_stat_compared", 8*12)
		c.Nontrivial(fmt.Sprintf("reserved|%d", i))
	})
}

// c02runToHistory: history "complete run; an upstream intermediate is removed; RunTo(a process further down whose own
// outputs still exist)". The targets of a partial run are tasks like any other: their existing outputs are not
// re-made because something upstream of them ran again.
func c02runToHistory(c *chk.Ctx) {
	run.Parallel(c.Pick(4, 12), func(i int) {
		root := c.CaseDir()
		defer c.Drop(root)
		in, o1 := []spec.PortDecl{{Name: "in"}}, []spec.PortDecl{{Name: "out"}}
		s := &spec.Spec{Name: "runtohistory", MaxTasks: 2, Sources: map[string]string{"h0.txt": "h0\n", "h1.txt": "h1\n"}}
		s.Procs = append(s.Procs, &spec.Proc{Name: "src", Kind: spec.KFileSource, Files: []string{"h0.txt", "h1.txt"}},
			&spec.Proc{Name: "prep", Kind: spec.KCmd, Cmd: spec.BuildCmd("prep", in, o1, nil, nil, nil)},
			&spec.Proc{Name: "norm", Kind: []string{spec.KCmd, spec.KGoFunc}[i%2], Cmd: spec.BuildCmd("norm", in, o1, nil, nil, nil)},
			&spec.Proc{Name: "stats", Kind: spec.KCmd, Cmd: spec.BuildCmd("stats", in, o1, nil, nil, nil)},
			&spec.Proc{Name: "plot", Kind: spec.KCmd, Cmd: spec.BuildCmd("plot", in, o1, nil, nil, nil)})
		s.Conns = append(s.Conns, &spec.Conn{From: "src.out", To: "prep.in"}, &spec.Conn{From: "prep.out", To: "norm.in"}, &spec.Conn{From: "norm.out", To: "stats.in"}, &spec.Conn{From: "stats.out", To: "plot.in"})
		exp := evalRef(s, nil)
		if exp.Err != "" {
			c.Broken("reference cannot evaluate runtohistory: " + exp.Err)
		}
		cfg := Cfg{Buf: 3, Procs: 2, NoHooks: i%2 == 0}
		target := []string{"stats", "plot", "norm", "stats"}[i%4]
		mode := []string{"runto", "runtoregex"}[(i/4)%2]
		removeOf := []string{"prep", "norm", "prep", "prep"}[i%4]
		desc := map[string]interface{}{"spec": s, "cfg": cfg, "history": fmt.Sprintf("complete run; every output of %s removed; %s(%s)", removeOf, mode, target)}
		r1 := execSpec(c, root, s, cfg, nil, false, 0)
		if r1.Hang != "" && !strings.HasPrefix(r1.Hang, "deadlock") {
			c.Inconclusive(r1.Hang)
			return
		}
		if r1.Hang != "" || r1.Exit != 0 || !r1.Returned {
			c.Violation("exit-nonzero", fmt.Sprintf("first run: exit %d %s: %s", r1.Exit, r1.Hang, tail(r1.Output(), 400)), desc)
			return
		}
		removed := map[string]bool{}
		var kept []string
		for _, t := range exp.Tasks {
			for _, path := range t.Outs {
				if t.Proc == removeOf {
					os.Remove(filepath.Join(r1.Wd, path))
					os.Remove(filepath.Join(r1.Wd, path+".audit.json"))
					removed[t.Key] = true
				} else {
					kept = append(kept, filepath.Clean(path))
				}
			}
		}
		if len(removed) == 0 || len(kept) == 0 {
			c.Broken("runtohistory: nothing removed / nothing kept")
		}
		before := run.Snap(r1.Wd)
		s2 := s.Clone()
		s2.Run = spec.Run{Mode: mode, Targets: []string{target}}
		if mode == "runtoregex" {
			s2.Run.Targets = []string{"^" + target[:3] + ".*"}
		}
		r2 := execSpec(c, root, s2, cfg, nil, true, 1)
		if r2.Hang != "" && !strings.HasPrefix(r2.Hang, "deadlock") {
			c.Inconclusive(r2.Hang)
			return
		}
		var rp []mon.Problem
		if r2.Hang != "" || r2.Exit != 0 {
			rp = append(rp, mon.Problem{Sig: "rerun-failed", Msg: fmt.Sprintf("partial re-run: exit %d %s: %s", r2.Exit, r2.Hang, tail(r2.Output(), 400))})
		}
		for _, e := range r2.Trace {
			if e.Ev == "start" && !removed[e.Key] {
				rp = append(rp, mon.Problem{Sig: "rerun-executed-command", Msg: fmt.Sprintf("the partial re-run executed %s although its output existed", e.Key)})
			}
		}
		rp = append(rp, statChanges(before, run.Snap(r2.Wd), kept)...)
		if len(rp) > 0 {
			for _, sig := range sigSet(rp) {
				desc["problems"] = mon.Summarize(rp, 10)
				c.Violation(sig+"|partial-rerun", fmt.Sprintf("%v: %s", desc["history"], strings.Join(mon.Summarize(rp, 4), "\n  ")), desc)
			}
			return
		}
		c.Count("outputs_stat_compared", len(kept))
		c.Count("partial_rerun_histories", 1)
		c.Nontrivial(fmt.Sprintf("runtohistory|%s|%s|%s", removeOf, mode, target))
	})
}

// c02sourceGone: history "complete run; the raw source files are removed (archived, cleaned up) while every output
// stays; run again". Every task's outputs exist, so no command runs, nothing changes and the run completes.
func c02sourceGone(c *chk.Ctx) {
	run.Parallel(c.Pick(2, 6), func(i int) {
		root := c.CaseDir()
		defer c.Drop(root)
		in, o1 := []spec.PortDecl{{Name: "in"}}, []spec.PortDecl{{Name: "out"}}
		s := &spec.Spec{Name: "sourcegone", MaxTasks: 2, Sources: map[string]string{"raw0.txt": "r0\n", "raw1.txt": "r1\n"}}
		s.Procs = append(s.Procs, &spec.Proc{Name: "src", Kind: spec.KFileSource, Files: []string{"raw0.txt", "raw1.txt"}},
			&spec.Proc{Name: "up", Kind: []string{spec.KCmd, spec.KGoFunc}[i%2], Cmd: spec.BuildCmd("up", in, o1, nil, nil, nil)},
			&spec.Proc{Name: "down", Kind: spec.KCmd, Cmd: spec.BuildCmd("down", in, o1, nil, nil, nil)})
		s.Conns = append(s.Conns, &spec.Conn{From: "src.out", To: "up.in"}, &spec.Conn{From: "up.out", To: "down.in"})
		cfg := Cfg{Buf: 3, Procs: 2, NoHooks: i%2 == 1}
		desc := map[string]interface{}{"spec": s, "cfg": cfg, "history": "complete run; source files removed; run again"}
		r1 := execSpec(c, root, s, cfg, nil, false, 0)
		if r1.Hang != "" && !strings.HasPrefix(r1.Hang, "deadlock") {
			c.Inconclusive(r1.Hang)
			return
		}
		if r1.Hang != "" || r1.Exit != 0 || !r1.Returned {
			c.Violation("exit-nonzero", fmt.Sprintf("first run: exit %d %s: %s", r1.Exit, r1.Hang, tail(r1.Output(), 400)), desc)
			return
		}
		os.Remove(filepath.Join(r1.Wd, "raw0.txt"))
		os.Remove(filepath.Join(r1.Wd, "raw1.txt"))
		before := run.Snap(r1.Wd)
		var kept []string
		for p, e := range before {
			if e.Mode == "f" && !mon.IsAuditFile(p) && !mon.IsHarnessFile(p) {
				kept = append(kept, p)
			}
		}
		r2 := execSpec(c, root, s, cfg, nil, true, 1)
		if r2.Hang != "" && !strings.HasPrefix(r2.Hang, "deadlock") {
			c.Inconclusive(r2.Hang)
			return
		}
		var rp []mon.Problem
		if r2.Hang != "" || r2.Exit != 0 || !r2.Returned {
			rp = append(rp, mon.Problem{Sig: "rerun-failed", Msg: fmt.Sprintf("re-run without the source files: exit %d %s: %s", r2.Exit, r2.Hang, tail(r2.Output(), 400))})
		}
		for _, e := range r2.Trace {
			if e.Ev == "start" {
				rp = append(rp, mon.Problem{Sig: "rerun-executed-command", Msg: "the re-run executed " + e.Key + " although its output existed"})
			}
		}
		rp = append(rp, statChanges(before, run.Snap(r2.Wd), kept)...)
		if len(rp) > 0 {
			for _, sig := range sigSet(rp) {
				desc["problems"] = mon.Summarize(rp, 10)
				c.Violation(sig+"|sources-gone", strings.Join(mon.Summarize(rp, 4), "\n  "), desc)
			}
			return
		}
		c.Count("outputs_stat_compared", len(kept))
		c.Nontrivial(fmt.Sprintf("sourcegone|%d", i))
	})
}
