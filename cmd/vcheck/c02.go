package main

import (
	"fmt"
	"os"
	"path/filepath"
	"sort"
	"strings"

	"verif/internal/chk"
	"verif/internal/gen"
	"verif/internal/mon"
	"verif/internal/ref"
	"verif/internal/run"
	"verif/internal/spec"
)

func init() { checks["C02"] = c02 }

// statChanges compares the entries of `paths` in two snapshots.
func statChanges(before, after run.Snapshot, paths []string) []mon.Problem {
	var ps []mon.Problem
	for _, p := range paths {
		b, ok1 := before[p]
		a, ok2 := after[p]
		switch {
		case !ok1:
			continue
		case !ok2:
			ps = append(ps, mon.Problem{Sig: "existing-output-removed", Msg: "pre-existing output " + p + " no longer exists"})
		case a.Sha != b.Sha:
			ps = append(ps, mon.Problem{Sig: "existing-output-bytes-changed", Msg: "pre-existing output " + p + " has different bytes after the run"})
		case a.Ino != b.Ino:
			ps = append(ps, mon.Problem{Sig: "existing-output-inode-changed", Msg: "pre-existing output " + p + " was replaced (inode changed)"})
		case a.Mtime != b.Mtime:
			ps = append(ps, mon.Problem{Sig: "existing-output-mtime-changed", Msg: "pre-existing output " + p + " has a new modification time"})
		}
	}
	return ps
}

func c02(args []string) {
	c := chk.New("C02", "exploration", args)
	c.Build(false)
	c.Rule("generated non-streaming graphs of command / Go-function processes and sources; for each graph subsets of its tasks (all subsets when <= 5 tasks, else random ones) get all their outputs pre-placed (bytes of an earlier complete run incl. audit files / arbitrary user bytes / empty files), and the history 'complete run, run again in place'; oracle = no start event of a skipped task, (inode, size, mtime_ns, sha256) of every pre-existing output unchanged, downstream tasks executed exactly once on the pre-existing bytes (reference evaluation), re-run executes nothing. distinct_nontrivial = distinct (graph shape, subset, content kind) with >= 1 skipped and >= 1 executed task, plus re-run histories")
	c.Assume("subsets are subsets of tasks (all outputs of a task present), as the property quantifies; partial presence is C03's subject", ".audit.json files, log/ and atime are not judged")
	rng := c.Rand("c02")
	ngraphs := c.Pick(14, 120)
	maxSub := c.Pick(20, 64)
	type job struct {
		s       *spec.Spec
		exp0    *ref.Result
		subset  []int // indices into exp0.Tasks
		kind    string
		cfg     Cfg
		rerun   bool
		label   string
		partial []string // ports of task subset[0] that are pre-placed (a proper subset of its outputs)
		strace  bool     // also observe the run at syscall level
	}
	var jobs []*job
	for g := 0; g < ngraphs; g++ {
		b := []int{1, 2, 3, 5}[rng.Intn(4)]
		mt := []int{1, 2, 4, 8}[rng.Intn(4)]
		o := gen.GraphOpts{MaxProcs: 5, Lens: []int{1, 2, 3, b + 1}, Buf: b, FanIn: true, Params: true, GoFunc: true, MultiOut: true, Portless: true, SubDirs: true,
			Cores: mt, MaxTasks: mt, SleepMax: 30, NoUnequal: true, DirOut: true}
		s := gen.Graph(rng, fmt.Sprintf("g%d", g), o)
		exp0 := evalRef(s, nil)
		if exp0.Err != "" || len(exp0.Tasks) == 0 {
			c.Count("generator_rejects", 1)
			continue
		}
		cfg := Cfg{Buf: b, Procs: []int{1, 2, 4}[rng.Intn(3)], Sched: fmt.Sprintf("%d,300,600", rng.Intn(1<<30))}
		jobs = append(jobs, &job{s: s, exp0: exp0, rerun: true, cfg: cfg, label: "rerun"})
		nt := len(exp0.Tasks)
		var subsets [][]int
		if nt <= 5 {
			for m := 1; m < 1<<uint(nt); m++ {
				var ss []int
				for i := 0; i < nt; i++ {
					if m&(1<<uint(i)) != 0 {
						ss = append(ss, i)
					}
				}
				subsets = append(subsets, ss)
			}
		} else {
			seen := map[string]bool{}
			for tries := 0; len(subsets) < maxSub && tries < maxSub*4; tries++ {
				var ss []int
				p := 1 + rng.Intn(3)
				for i := 0; i < nt; i++ {
					if rng.Intn(4) < p {
						ss = append(ss, i)
					}
				}
				k := fmt.Sprint(ss)
				if len(ss) == 0 || seen[k] {
					continue
				}
				seen[k] = true
				subsets = append(subsets, ss)
			}
		}
		if len(subsets) > maxSub {
			rng.Shuffle(len(subsets), func(i, j int) { subsets[i], subsets[j] = subsets[j], subsets[i] })
			subsets = subsets[:maxSub]
		}
		// partial presence: some but not all outputs of a multi-output task exist
		npart := 0
		for ti, t := range exp0.Tasks {
			if len(t.Outs) < 2 || npart >= 6 {
				continue
			}
			var ports []string
			for pt := range t.Outs {
				ports = append(ports, pt)
			}
			sort.Strings(ports)
			for _, pt := range ports {
				cfg := Cfg{Buf: b, Procs: []int{1, 2, 4}[rng.Intn(3)], Sched: fmt.Sprintf("%d,300,600", rng.Intn(1<<30))}
				jobs = append(jobs, &job{s: s, exp0: exp0, subset: []int{ti}, partial: []string{pt}, kind: []string{"golden", "user"}[npart%2], cfg: cfg, label: "partial"})
				npart++
			}
		}
		for k, ss := range subsets {
			kind := []string{"golden", "user", "empty"}[k%3]
			cfg := Cfg{Buf: b, Procs: []int{1, 2, 4}[rng.Intn(3)], Sched: fmt.Sprintf("%d,300,600", rng.Intn(1<<30))}
			jobs = append(jobs, &job{s: s, exp0: exp0, subset: ss, kind: kind, cfg: cfg, label: "subset", strace: k == 0 && (c.Thorough() || g%4 == 0)})
		}
	}
	run.Parallel(len(jobs), func(i int) {
		j := jobs[i]
		root := c.CaseDir()
		defer c.Drop(root)
		if j.rerun {
			res1 := execSpec(c, root, j.s, j.cfg, nil, false, 0)
			ps, hang := judgeRun(res1, j.s, j.exp0)
			if hang != "" {
				c.Inconclusive("first run: " + hang)
				return
			}
			if len(ps) > 0 {
				c.Violation("first-run:"+sigSet(ps)[0], strings.Join(mon.Summarize(ps, 6), "\n  "), map[string]interface{}{"spec": j.s, "cfg": j.cfg, "problems": mon.Summarize(ps, 30)})
				return
			}
			before := run.Snap(res1.Wd)
			res2 := execSpec(c, root, j.s, j.cfg, nil, true, 1)
			if res2.Hang != "" && !strings.HasPrefix(res2.Hang, "deadlock") {
				c.Inconclusive("re-run: " + res2.Hang)
				return
			}
			var rp []mon.Problem
			if res2.Hang != "" {
				rp = append(rp, mon.Problem{Sig: "rerun-hang", Msg: res2.Hang + "\n" + res2.HangInfo})
			} else if res2.Exit != 0 || !res2.Returned {
				rp = append(rp, mon.Problem{Sig: "rerun-failed", Msg: fmt.Sprintf("re-run of a completed workflow exited %d (returned=%v): %s", res2.Exit, res2.Returned, tail(res2.Output(), 600))})
			}
			for _, e := range res2.Trace {
				if e.Ev == "start" {
					rp = append(rp, mon.Problem{Sig: "rerun-executed-command", Msg: "re-run of a completed workflow executed task " + e.Key})
				}
			}
			after := run.Snap(res2.Wd)
			var outs []string
			for p := range j.exp0.Files {
				outs = append(outs, filepath.Clean(p))
			}
			sort.Strings(outs)
			rp = append(rp, statChanges(before, after, outs)...)
			for _, p := range after.Files() {
				if _, ok := before[p]; !ok && !mon.IsHarnessFile(p) {
					rp = append(rp, mon.Problem{Sig: "rerun-new-file", Msg: "re-run created " + p})
				}
			}
			for _, p := range after.Leftovers() {
				rp = append(rp, mon.Problem{Sig: "rerun-leftover", Msg: "re-run left " + p})
			}
			if len(rp) > 0 {
				for _, sig := range sigSet(rp) {
					c.Violation(sig, strings.Join(mon.Summarize(rp, 6), "\n  "), map[string]interface{}{"spec": j.s, "cfg": j.cfg, "history": "complete run, run again", "problems": mon.Summarize(rp, 30)})
				}
				return
			}
			c.Nontrivial("rerun|" + gen.ShapeHash(j.s))
			c.Count("rerun_histories", 1)
			c.Count("outputs_stat_compared", len(outs))
			return
		}
		if j.partial != nil {
			t := j.exp0.Tasks[j.subset[0]]
			s := j.s.Clone()
			var prePaths []string
			for _, port := range j.partial {
				path := t.Outs[port]
				content := t.Content[port]
				if j.kind == "user" {
					content = []byte(fmt.Sprintf("user placed content for %s case %d\n", path, i))
				}
				if t.DirOut[port] {
					path += "/data"
				}
				s.Sources[path] = string(content)
				prePaths = append(prePaths, filepath.Clean(path))
			}
			cs := &run.Case{Root: root, Spec: s}
			wd, _, _ := cs.Prepare()
			before := run.Snap(wd)
			res := execSpec(c, root, s, j.cfg, nil, true, 0)
			if res.Hang != "" && !strings.HasPrefix(res.Hang, "deadlock") {
				c.Inconclusive("partial-presence run: " + res.Hang)
				return
			}
			after := run.Snap(res.Wd)
			var ps []mon.Problem
			for _, e := range res.Trace {
				if e.Ev == "start" && e.Key == t.Key {
					ps = append(ps, mon.Problem{Sig: "partially-present-task-executed", Msg: fmt.Sprintf("task %s was executed although its declared output(s) %v already existed", t.Key, j.partial)})
				}
			}
			ps = append(ps, statChanges(before, after, prePaths)...)
			if len(ps) > 0 {
				for _, sig := range sigSet(ps) {
					c.Violation(sig, strings.Join(mon.Summarize(ps, 6), "\n  "), map[string]interface{}{"spec": j.s, "cfg": j.cfg, "task": t.Key, "preexisting_ports": j.partial, "content_kind": j.kind, "problems": mon.Summarize(ps, 30)})
				}
				return
			}
			c.Count("partial_presence_cases", 1)
			c.Nontrivial(fmt.Sprintf("partial|%s|%s|%v|%s", gen.ShapeHash(j.s), t.Key, j.partial, j.kind))
			return
		}
		// subset case: pre-place all outputs of the chosen tasks
		s := j.s.Clone()
		pre := sourcesOf(j.s)
		var prePaths []string
		skipKeys := map[string]bool{}
		// golden bytes are produced by evaluating the reference (identical to a complete run, as C04 checks);
		// golden audit files are taken from a real complete run only in C11 - here they are not judged.
		for _, ti := range j.subset {
			t := j.exp0.Tasks[ti]
			if len(t.Outs) == 0 {
				continue
			}
			skipKeys[t.Key] = true
			for port, path := range t.Outs {
				var content []byte
				switch j.kind {
				case "golden":
					content = t.Content[port]
				case "user":
					content = []byte(fmt.Sprintf("user placed content for %s case %d\n", path, i))
				case "empty":
					content = []byte{}
				}
				if t.DirOut[port] {
					path = path + "/data"
				}
				s.Sources[path] = string(content)
				pre[path] = content
				prePaths = append(prePaths, filepath.Clean(path))
			}
		}
		if len(prePaths) == 0 {
			return
		}
		exp := ref.Eval(&ref.Input{Spec: j.s, Files: pre})
		if exp.Err != "" {
			c.Count("generator_rejects", 1)
			return
		}
		cs := &run.Case{Root: root, Spec: s}
		wd, _, _ := cs.Prepare()
		before := run.Snap(wd)
		var res *run.Result
		var stLog string
		if j.strace {
			os.MkdirAll(filepath.Join(root, "meta"), 0777)
			stLog = filepath.Join(root, "meta", "strace.log")
			cs2 := &run.Case{Root: root, Bin: c.Bin, Spec: s, Env: j.cfg.env(), KeepWd: true,
				Wrap: []string{"strace", "-f", "-y", "-qq", "-s", "4096", "-e", "trace=%file,%process", "-o", stLog}}
			c.Eval(1)
			res = cs2.Run()
		} else {
			res = execSpec(c, root, s, j.cfg, nil, true, 0)
		}
		ps, hang := judgeRun(res, s, exp)
		if hang != "" {
			c.Inconclusive("subset run: " + hang)
			return
		}
		if j.strace {
			pre := map[string]bool{}
			for _, p := range prePaths {
				pre[filepath.Join(wd, p)] = true
			}
			sps, st := mon.StraceSpec(stLog, wd, nil, pre)
			ps = append(ps, sps...)
			c.Count("strace_lines_checked", st.Lines)
			c.Count("strace_runs", 1)
		}
		after := run.Snap(res.Wd)
		sort.Strings(prePaths)
		ps = append(ps, statChanges(before, after, prePaths)...)
		if len(ps) > 0 {
			var names []string
			for _, ti := range j.subset {
				names = append(names, j.exp0.Tasks[ti].Key)
			}
			for _, sig := range sigSet(ps) {
				c.Violation(sig, strings.Join(mon.Summarize(ps, 6), "\n  "), map[string]interface{}{"spec": j.s, "cfg": j.cfg, "preexisting_tasks": names, "content_kind": j.kind, "problems": mon.Summarize(ps, 30)})
			}
			return
		}
		nskip, nexec := 0, 0
		for _, t := range exp.Tasks {
			if t.Skipped {
				nskip++
			} else {
				nexec++
			}
		}
		c.Count("tasks_skipped", nskip)
		c.Count("tasks_executed", nexec)
		c.Count("outputs_stat_compared", len(prePaths))
		if nskip >= 1 && nexec >= 1 {
			c.Nontrivial(fmt.Sprintf("%s|%v|%s", gen.ShapeHash(j.s), j.subset, j.kind))
		}
		c.Sample(map[string]interface{}{"graph": gen.Describe(j.s), "preexisting_task_indices": j.subset, "content_kind": j.kind, "skipped": nskip, "executed": nexec, "cfg": j.cfg})
	})
	c.Finish()
}

func tail(s string, n int) string {
	if len(s) > n {
		return s[len(s)-n:]
	}
	return s
}

