package main

import (
	"fmt"
	"os"
	"path/filepath"
	"sort"
	"strings"
	"time"

	"verif/internal/chk"
	"verif/internal/gen"
	"verif/internal/mon"
	"verif/internal/ref"
	"verif/internal/run"
	"verif/internal/spec"
	"verif/internal/vproto"
)

func init() { checks["C01"] = c01 }

// topoCase prepares one directed topology in a fresh case root.
type topoCase struct {
	kind  string
	shape gen.PathShape
	gof   bool
	n     int
}

// probesFor makes every task stat its own final paths while it runs.
func probesFor(root string, exp *ref.Result, bh vproto.Behaviours) {
	for _, t := range exp.Tasks {
		m := bh[t.Key]
		if m == nil {
			m = map[string]string{}
			bh[t.Key] = m
		}
		for port, p := range t.Outs {
			if !t.Streams[port] {
				m["probe."+port] = p
			}
		}
	}
}

func preRootSet(root string, s *spec.Spec) map[string]bool {
	m := map[string]bool{}
	for p := range s.Sources {
		m[mon.RootRel(root, p)] = true
	}
	return m
}

type faultCase struct {
	tc      topoCase
	label   string
	key     string            // task the fault is aimed at ("" = none)
	opts    map[string]string // behaviour options for that task
	crash   *gen.CrashPoint
	kline   int
	cfg     Cfg
	rerun   bool   // after the fault: run again in place without cleanup and judge the state after that
	visible bool   // kill the group the instant the target task's final path becomes visible
	xdev    bool   // the absolute output area is on another file system
	execCmd bool   // process A is a Go function that runs the formatted command through the library's ExecCmd helper
	cmdTail string // appended to the command pattern of process A (a script whose later lines fail after the tool has written everything)
}

func c01(args []string) {
	c := chk.New("C01", "fault_enumeration", args)
	c.Build(false)
	c.Rule("directed topologies (single task; 2-output task feeding two consumers; 6 parallel tasks with fan-in; task with additional files; task whose declared output is a directory of three files; task with a streaming output beside two file outputs) x output-path shapes (plain, nested new directories, ../, absolute) x {command, Go function}; faults: every command failure mode on tasks in turn (exit non-zero before/mid/after writing, SIGKILL, SIGSEGV, shell killed, output omitted / misplaced), the process group killed by the command itself before / in the middle of / after writing, the group killed at hook crash points of every task (enumerated from the event log of a crash-free dry run), kills at logical instants (k-th line of the command trace); oracle after every terminated run: a file at a declared final path implies a successful end event of that task and the complete reference bytes; commands stat their own final path while running (must not exist); every other new file lies inside a _scipipe_tmp.* directory; commands whose output is written by a helper that outlives them (no failure at all: nothing may be visible before the helper is done); Go-function tasks also fail by panicking (after half / all of the output is written); commands that are scripts of several lines in which a line after the tool's successful end fails; faults injected by strace into the library's own write(2) of a Go function's OutIP().Write() (ENOSPC / EDQUOT / EIO on the first or second write to the temp file); a command that leaves a relative symbolic link to its 32 MiB input as its output (group killed the instant the final path exists: never a partial regular file); commands that run two tools side by side ('tool1 & tool2; wait', three spellings, second tool also failing): both tools stat the final paths of both outputs while they run; six tasks failing at once with long error reports on a slowly read error stream (the failures overlap in time). distinct_nontrivial = distinct (topology, path shape, kind, fault, target) whose fault really fired (kill observed / failing command ran)")
	c.Assume("working directory, ../ targets and absolute targets are on one file system", "destination directories of ../ and absolute outputs exist before the run (as the property allows)", "<path>.audit.json files and empty directories are not judged")
	rng := c.Rand("c01")
	var tcs []topoCase
	for _, k := range []string{"single", "twoout", "fanin", "extra", "dirout"} {
		for _, sh := range gen.Shapes {
			if k == "dirout" && sh != gen.ShapePlain && sh != gen.ShapeNested {
				continue
			}
			for _, g := range []bool{false, true} {
				n := 2
				if k == "twoout" {
					n = 3
				}
				tcs = append(tcs, topoCase{k, sh, g, n})
			}
		}
	}
	// a streaming output beside two file outputs (commands only)
	for _, sh := range []gen.PathShape{gen.ShapePlain, gen.ShapeNested} {
		tcs = append(tcs, topoCase{"streamtwo", sh, false, 2})
	}
	var cases []*faultCase
	// a dry run per topology to enumerate crash points and tasks
	type dry struct {
		exp    *ref.Result
		points []gen.CrashPoint
		ntrace int
	}
	dries := make([]*dry, len(tcs))
	run.Parallel(len(tcs), func(i int) {
		root := c.CaseDir()
		defer c.Drop(root)
		tc := tcs[i]
		s := gen.Topo(tc.kind, tc.shape, tc.gof, root, tc.n)
		exp := evalRef(s, nil)
		if exp.Err != "" {
			c.Broken("reference cannot evaluate topology " + s.Name + ": " + exp.Err)
		}
		bh := gen.TopoBehav(tc.kind, exp)
		probesFor(root, exp, bh)
		exp = ref.Eval(&ref.Input{Spec: s, Files: sourcesOf(s), Behav: bh})
		res := execSpec(c, root, s, Cfg{Buf: 128, Procs: 4}, bh, false, 0)
		ti := mon.Index(res.Trace)
		ps := mon.Atomicity(root, mon.SnapRoot(root), exp, ti, preRootSet(root, s))
		if res.Exit != 0 || !res.Returned {
			ps = append(ps, mon.Problem{Sig: "dry-run-failed", Msg: fmt.Sprintf("fault-free run of %s exited %d: %s", s.Name, res.Exit, tail(res.Output(), 500))})
		}
		for _, t := range exp.Tasks {
			for port, p := range t.Outs {
				if t.Streams[port] {
					continue // nothing stays at the path of a streamed output
				}
				fp := mon.RootRel(root, p)
				if t.DirOut[port] {
					fp += "/data"
				}
				if _, ok := mon.SnapRoot(root)[fp]; !ok && res.Exit == 0 {
					ps = append(ps, mon.Problem{Sig: "output-not-at-declared-path", Msg: "fault-free run: output " + p + " missing"})
				}
			}
		}
		if len(ps) > 0 {
			c.Violation("fault-free:"+ps[0].Sig, strings.Join(mon.Summarize(ps, 5), "\n  "), map[string]interface{}{"spec": s, "problems": mon.Summarize(ps, 20)})
			return
		}
		dries[i] = &dry{exp, gen.CrashPoints(res.Events), len(res.Trace)}
		c.Count("probe_events", len(ti.Probes))
	})
	for i, tc := range tcs {
		d := dries[i]
		if d == nil {
			continue
		}
		var tasks []*ref.Task
		for _, t := range d.exp.Tasks {
			if len(t.Outs) > 0 {
				tasks = append(tasks, t)
			}
		}
		cfg := func() Cfg {
			return Cfg{Buf: []int{1, 128}[rng.Intn(2)], Procs: []int{1, 2, 4}[rng.Intn(3)], Sched: fmt.Sprintf("%d,200,400", rng.Intn(1<<30))}
		}
		// failure modes and in-command group kills
		ntargets := c.Pick(2, len(tasks))
		// multi-output tasks first: which of their outputs gets finalized depends on map order
		sort.SliceStable(tasks, func(a, b int) bool { return len(tasks[a].Outs) > len(tasks[b].Outs) })
		for k := 0; k < ntargets && k < len(tasks); k++ {
			t := tasks[k]
			if k > 0 {
				t = tasks[(k*7+i)%len(tasks)]
			}
			modes := cmdFailModes
			if t.InProc {
				modes = goFailModes
			}
			for _, m := range modes {
				always := k == 0 && (m == "omit-output" || m == "wrong-place" || m == "sigkill-shell" || m == "exit-after-write" || strings.HasPrefix(m, "panic-"))
				if !c.Thorough() && !always && rng.Intn(2) == 0 {
					continue
				}
				reps := 1
				if len(t.Outs) > 1 && (m == "omit-output" || m == "wrong-place") {
					reps = 4 // the order in which outputs are checked / finalized is a map order
				}
				for r := 0; r < reps; r++ {
					cases = append(cases, &faultCase{tc: tc, label: "fail=" + m, key: t.Key, opts: map[string]string{"fail": m}, cfg: cfg()})
				}
			}
			for _, ph := range []string{"start", "mid", "end"} {
				cases = append(cases, &faultCase{tc: tc, label: "killgroup=" + ph, key: t.Key, opts: map[string]string{"killgroup": ph, "size": "9000"}, cfg: cfg()})
			}
		}
		// history: the group is killed in the middle of a write of a command that appends to its output; then the
		// workflow is run again in place without any cleanup
		for k := 0; k < c.Pick(1, 3) && len(tasks) > 0; k++ {
			t := tasks[rng.Intn(len(tasks))]
			if t.InProc {
				continue
			}
			cases = append(cases, &faultCase{tc: tc, label: "killgroup=mid+rerun-without-cleanup", key: t.Key, opts: map[string]string{"killgroup": "mid", "append": "1", "size": "5000"}, rerun: true, cfg: cfg()})
		}
		// kill at the instant a final path becomes visible (large outputs)
		for k := 0; k < c.Pick(1, 4) && len(tasks) > 0; k++ {
			t := tasks[rng.Intn(len(tasks))]
			cases = append(cases, &faultCase{tc: tc, label: "kill@final-path-visible", key: t.Key, opts: map[string]string{"size": "6000000"}, visible: true, cfg: cfg()})
		}
		// hook crash points
		pts := d.points
		npts := c.Pick(14, len(pts))
		if npts > len(pts) {
			npts = len(pts)
		}
		perm := rng.Perm(len(pts))
		// always include the finalization points of some task
		var chosen []gen.CrashPoint
		for _, p := range pts {
			if strings.HasPrefix(p.Point, "fin.") || p.Point == "audit.written" || p.Point == "task.cmd_done" || p.Point == "task.outputs_checked" {
				if c.Thorough() || rng.Intn(3) == 0 {
					chosen = append(chosen, p)
				}
			}
		}
		for _, pi := range perm[:npts] {
			chosen = append(chosen, pts[pi])
		}
		for _, p := range chosen {
			pp := p
			cases = append(cases, &faultCase{tc: tc, label: "crash@" + p.Point, crash: &pp, cfg: Cfg{Buf: 128, Procs: 4}})
		}
		// logical-instant kills
		nk := c.Pick(2, 8)
		for k := 0; k < nk && d.ntrace > 0; k++ {
			cases = append(cases, &faultCase{tc: tc, label: "kill@trace-line", kline: 1 + rng.Intn(d.ntrace), cfg: cfg()})
		}
	}
	// absolute outputs on another file system (rename cannot work there; whatever the library does instead
	// must not expose partial files): plain run and kill at first visibility of a final path
	if st1, e1 := os.Stat("/dev/shm"); e1 == nil && st1.IsDir() {
		for _, k := range []string{"single", "twoout"} {
			for _, g := range []bool{false, true} {
				for _, vis := range []bool{false, true} {
					for r := 0; r < c.Pick(1, 3); r++ {
						fcx := &faultCase{tc: topoCase{k, gen.ShapeAbs, g, 2}, label: "cross-device", xdev: true, visible: vis, cfg: Cfg{Buf: 128, Procs: 4}}
						if vis {
							fcx.label = "cross-device+kill@final-path-visible"
							fcx.opts = map[string]string{"size": "30000000"}
						}
						cases = append(cases, fcx)
					}
				}
			}
		}
	}
	// a command whose output is written by a helper that outlives it (background job, process substitution): the
	// command exits 0 at once, the helper - which holds the command's stdout - writes half of the output, pauses
	// 1.5 s and writes the rest. Nothing may appear at the final path before the helper is done.
	for _, k := range []string{"single", "chain", "twoout"} {
		for r := 0; r < c.Pick(1, 3); r++ {
			cases = append(cases, &faultCase{tc: topoCase{k, []gen.PathShape{gen.ShapePlain, gen.ShapeNested}[r%2], false, 2}, label: "background-writer", opts: map[string]string{"bgwrite": "1", "pause": "1500", "size": "3000"}, cfg: Cfg{Buf: 128, Procs: 4}})
		}
	}
	// a Go function that runs its tool through the library's ExecCmd helper: the tool fails while / after writing
	for r, sh := range []gen.PathShape{gen.ShapePlain, gen.ShapeNested} {
		for k, m := range []string{"exit-mid-write", "exit-after-write", "sigkill-self"} {
			if !c.Thorough() && (r+k)%2 == 1 {
				continue
			}
			cases = append(cases, &faultCase{tc: topoCase{"twoout", sh, false, 2}, label: "fail=" + m + "(tool run through ExecCmd)", execCmd: true, opts: map[string]string{"fail": m}, cfg: Cfg{Buf: 128, Procs: 2}})
		}
	}
	// the command is a script of several lines: the tool writes its outputs completely and exits 0, a later line fails
	for _, k := range []string{"single", "twoout", "extra"} {
		for r, sh := range []gen.PathShape{gen.ShapePlain, gen.ShapeNested, gen.ShapeParent, gen.ShapeAbs} {
			if !c.Thorough() && (r+len(k))%2 == 1 {
				continue
			}
			cases = append(cases, &faultCase{tc: topoCase{k, sh, false, 2}, label: "fail=script-later-line", key: "A",
				cmdTail: []string{"\necho verifying\ntest -e /nonexistent/marker", "\nfalse", " ;\n( exit 7 )"}[r%3], cfg: Cfg{Buf: 128, Procs: 2}})
		}
	}
	// failures that overlap in time: all six parallel tasks of A fail in the middle of writing, each with a 4 MB
	// error report; error messages go to a stream of their own (the library's InitLogError) that is read slowly, so the
	// report of the first failure is still being written when the others fail
	for _, sh := range []gen.PathShape{gen.ShapePlain, gen.ShapeNested, gen.ShapeParent, gen.ShapeAbs} {
		for r := 0; r < c.Pick(1, 3); r++ {
			cases = append(cases, &faultCase{tc: topoCase{"fanin", sh, false, 2}, label: "fail=overlapping-failures", key: "A",
				opts: map[string]string{"fail": []string{"exit-mid-write", "exit-after-write"}[r%2], "sleep": "60", "noise": "12000000"}, cfg: Cfg{Buf: 128, Procs: 4, Quiet: true, SlowErr: true, NoHooks: r%2 == 1}})
		}
	}
	run.Parallel(len(cases), func(i int) {
		fc := cases[i]
		root := c.CaseDir()
		defer c.Drop(root)
		if fc.xdev {
			xd := "/dev/shm/verif-xdev-" + filepath.Base(filepath.Dir(root)) + "-" + filepath.Base(root)
			os.MkdirAll(xd, 0777)
			defer os.RemoveAll(xd)
			os.Symlink(xd, filepath.Join(root, "abs"))
		}
		s := gen.Topo(fc.tc.kind, fc.tc.shape, fc.tc.gof, root, fc.tc.n)
		exp := evalRef(s, nil)
		if fc.cmdTail != "" {
			s.Proc("A").Cmd += fc.cmdTail // (the reference, taken before, describes the tool's part of the script)
		}
		if fc.execCmd {
			a := s.Proc("A")
			a.Kind, a.ExecCmd = spec.KGoFunc, true
			if fc.key == "" {
				fc.key = exp.ByProc["A"][0].Key
			}
		}
		bh := gen.TopoBehav(fc.tc.kind, exp)
		probesFor(root, exp, bh)
		if (fc.xdev || fc.label == "background-writer") && fc.key == "" {
			// target: the first task with outputs
			for _, t := range exp.Tasks {
				if len(t.Outs) > 0 {
					fc.key = t.Key
					break
				}
			}
		}
		if fc.key != "" {
			if bh[fc.key] == nil {
				bh[fc.key] = map[string]string{}
			}
			for k, v := range fc.opts {
				bh[fc.key][k] = v
			}
		}
		var killWhen []string
		if fc.visible {
			for _, t := range exp.Tasks {
				if t.Key == fc.key {
					for port, p := range t.Outs {
						if !t.Streams[port] {
							killWhen = append(killWhen, filepath.Join(root, mon.RootRel(root, p)))
						}
					}
				}
			}
		}
		// the reference content depends on size overrides
		exp = ref.Eval(&ref.Input{Spec: s, Files: sourcesOf(s), Behav: bh})
		cfg := fc.cfg
		if fc.crash != nil {
			cfg.Crash = fc.crash.Env()
		}
		sp := s
		cs := &run.Case{Root: root, Bin: c.Bin, Spec: sp, Env: cfg.env(), Behav: bh, KillAtTraceLine: fc.kline, KillWhenExists: killWhen, SlowStderr: cfg.SlowErr}
		c.Eval(1)
		res := cs.Run()
		if res.Hang != "" {
			if strings.HasPrefix(res.Hang, "deadlock") && fc.crash == nil && fc.kline == 0 && fc.opts["killgroup"] == "" {
				// a hang after a command failure belongs to C09; here only the file system is judged
				c.Count("hangs_after_failure", 1)
			} else if !strings.HasPrefix(res.Hang, "deadlock") {
				c.Inconclusive(fc.label + ": " + res.Hang)
				return
			}
		}
		allTrace := res.Trace
		if fc.rerun && res.Signal != "" {
			bh2 := vproto.Behaviours{}
			for k, v := range bh {
				m := map[string]string{}
				for kk, vv := range v {
					if kk != "killgroup" {
						m[kk] = vv
					}
				}
				bh2[k] = m
			}
			cs2 := &run.Case{Root: root, Bin: c.Bin, Spec: sp, Env: cfg.env(), Behav: bh2, KeepWd: true, RunNo: 1}
			c.Eval(1)
			r2 := cs2.Run()
			allTrace = append(allTrace, r2.Trace...)
		}
		ti := mon.Index(allTrace)
		snap := mon.SnapRoot(root)
		ps := mon.Atomicity(root, snap, exp, ti, preRootSet(root, s))
		if fc.tc.kind == "streamtwo" {
			// The consumer of a streamed item cannot know that its producer failed: its command sees end-of-file,
			// finishes successfully and its output - complete as far as this property goes - holds what it received.
			// Its content is therefore not compared with the fault-free reference.
			var keep []mon.Problem
			for _, p := range ps {
				if !strings.Contains(p.Msg, ".astream.B.out") {
					keep = append(keep, p)
				}
			}
			ps = keep
		}
		if fc.cmdTail != "" {
			// every command of A failed (its last line did): no output of A may be at its final path, although the
			// tool itself reported success
			for _, t := range exp.ByProc["A"] {
				for port, p := range t.Outs {
					if t.Streams[port] {
						continue
					}
					if e, ok := snap[mon.RootRel(root, p)]; ok && (e.Mode == "f" || e.Mode == "d") {
						ps = append(ps, mon.Problem{Sig: "final-path-without-successful-command", Msg: fmt.Sprintf("%s is at its final path although the command of %s (a script whose last line returns non-zero) failed", p, t.Key)})
					}
				}
			}
			if res.Exit == 0 {
				ps = append(ps, mon.Problem{Sig: "final-path-without-successful-command", Msg: "the workflow exited 0 although every command of A failed"})
			}
		}
		fired := false
		switch {
		case fc.cmdTail != "":
			fired = len(ti.Starts) > 0
		case fc.xdev:
			fired = len(ti.Starts[fc.key]) > 0
		case fc.crash != nil || fc.kline > 0 || fc.opts["killgroup"] != "" || fc.visible:
			fired = res.Signal != ""
		case fc.label == "fail=overlapping-failures":
			nf := 0
			for _, es := range ti.Ends {
				for _, e := range es {
					if e.ID == "A" && e.Status != 0 {
						nf++
					}
				}
			}
			fired = nf >= 2
			c.Count("overlapping_failures_observed", nf)
		case fc.key != "":
			fired = len(ti.Starts[fc.key]) > 0
		}
		if len(ps) > 0 {
			for _, sig := range sigSet(ps) {
				c.Violation(sig+"|"+faultClass(fc.label), fmt.Sprintf("%s, %s paths, gofunc=%v, fault %s on %s:\n  %s", fc.tc.kind, fc.tc.shape, fc.tc.gof, fc.label, fc.key, strings.Join(mon.Summarize(ps, 5), "\n  ")),
					map[string]interface{}{"topology": fc.tc.kind, "path_shape": fc.tc.shape, "gofunc": fc.tc.gof, "fault": fc.label, "target": fc.key, "crash": fc.crash, "kill_at_trace_line": fc.kline, "cfg": cfg, "spec": s, "behav": bh, "problems": mon.Summarize(ps, 20), "exit": res.Exit, "signal": res.Signal})
			}
			return
		}
		c.Count("probe_events", len(ti.Probes))
		if fired {
			who := fc.key
			if fc.crash != nil {
				who = fmt.Sprintf("%s#%d", fc.crash.Who, fc.crash.N)
			}
			if fc.kline > 0 {
				who = fmt.Sprint(fc.kline)
			}
			c.Nontrivial(fmt.Sprintf("%s|%s|%v|%s|%s", fc.tc.kind, fc.tc.shape, fc.tc.gof, fc.label, who))
			c.Count("faults_fired", 1)
			if fc.crash != nil {
				c.Count("crash_points_hit", 1)
			}
		} else {
			c.Count("faults_not_fired", 1)
		}
		if i%40 == 0 {
			nfin := 0
			for p := range snap {
				if !strings.Contains(p, "_scipipe_tmp") && !mon.IsAuditFile(p) {
					nfin++
				}
			}
			c.Sample(map[string]interface{}{"topology": fc.tc.kind, "path_shape": fc.tc.shape, "gofunc": fc.tc.gof, "fault": fc.label, "target": fc.key, "crash": fc.crash, "exit": res.Exit, "signal": res.Signal, "entries_outside_tempdirs": nfin})
		}
	})
	// syscall-level observation: final-path trace specification on strace logs, and kills injected by strace
	// before the N-th file-system mutating syscall of some thread
	{
		type stCase struct {
			tc   topoCase
			when int // 0 = no injected kill
			set  string
		}
		var scs []stCase
		for i, tc := range tcs {
			if !c.Thorough() && i%5 != 0 {
				continue
			}
			scs = append(scs, stCase{tc: tc})
			nk := c.Pick(2, 14)
			for k := 0; k < nk; k++ {
				set := []string{"renameat", "openat", "mkdirat,unlinkat,renameat", "renameat,openat"}[k%4]
				scs = append(scs, stCase{tc: tc, when: 1 + rng.Intn(c.Pick(6, 30)), set: set})
			}
		}
		run.ParallelN(8, len(scs), func(i int) {
			sc := scs[i]
			root := c.CaseDir()
			defer c.Drop(root)
			s := gen.Topo(sc.tc.kind, sc.tc.shape, sc.tc.gof, root, sc.tc.n)
			exp := evalRef(s, nil)
			bh := gen.TopoBehav(sc.tc.kind, exp)
			exp = ref.Eval(&ref.Input{Spec: s, Files: sourcesOf(s), Behav: bh})
			os.MkdirAll(filepath.Join(root, "meta"), 0777)
			log := filepath.Join(root, "meta", "strace.log")
			wrap := []string{"strace", "-f", "-y", "-qq", "-s", "4096", "-e", "trace=%file,%process", "-o", log}
			if sc.when > 0 {
				wrap = append(wrap, "-e", fmt.Sprintf("inject=%s:signal=SIGKILL:when=%d", sc.set, sc.when))
			}
			cs := &run.Case{Root: root, Bin: c.Bin, Spec: s, Env: Cfg{Buf: 128, Procs: 2}.env(), Behav: bh, Wrap: wrap, Soft: 60 * time.Second, Hard: 150 * time.Second}
			c.Eval(1)
			res := cs.Run()
			if res.Hang != "" && !strings.HasPrefix(res.Hang, "deadlock") {
				c.Inconclusive("strace run: " + res.Hang)
				return
			}
			finals := map[string]bool{}
			for _, t := range exp.Tasks {
				for port, p := range t.Outs {
					if !t.Streams[port] {
						finals[filepath.Join(root, mon.RootRel(root, p))] = true
					}
				}
			}
			sps, st := mon.StraceSpec(log, filepath.Join(root, "wd"), finals, nil)
			ti := mon.Index(res.Trace)
			sps = append(sps, mon.Atomicity(root, mon.SnapRoot(root), exp, ti, preRootSet(root, s))...)
			c.Count("strace_lines_checked", st.Lines)
			c.Count("strace_renames_onto_final_paths", st.RenamesFinal)
			c.Count("strace_runs", 1)
			if sc.when == 0 && (res.Exit != 0 || st.RenamesFinal == 0) {
				c.Inconclusive(fmt.Sprintf("strace observer run of %s saw %d renames onto final paths (exit %d)", s.Name, st.RenamesFinal, res.Exit))
				return
			}
			if len(sps) > 0 {
				for _, sig := range sigSet(sps) {
					c.Violation("syscall:"+sig, fmt.Sprintf("%s %s gofunc=%v under strace (injected kill: %s when=%d):\n  %s", sc.tc.kind, sc.tc.shape, sc.tc.gof, sc.set, sc.when, strings.Join(mon.Summarize(sps, 4), "\n  ")),
						map[string]interface{}{"spec": s, "inject": sc.set, "when": sc.when, "problems": mon.Summarize(sps, 20)})
				}
				return
			}
			if sc.when == 0 || res.Exit != 0 {
				c.Nontrivial(fmt.Sprintf("strace|%s|%s|%v|%s|%d", sc.tc.kind, sc.tc.shape, sc.tc.gof, sc.set, sc.when))
			}
		})
	}
	// documented Go-function API (docs/howtos/golang_components.md): task.OutIP(port).Write(bytes)
	{
		root := c.CaseDir()
		s := &spec.Spec{Name: "writeapi", MaxTasks: 2, Sources: map[string]string{"in.txt": "x\n"}}
		s.Procs = append(s.Procs, &spec.Proc{Name: "src", Kind: spec.KFileSource, Files: []string{"in.txt"}},
			&spec.Proc{Name: "W", Kind: spec.KGoFunc, WriteAPI: true, Cmd: spec.BuildCmd("W", []spec.PortDecl{{Name: "in"}}, []spec.PortDecl{{Name: "out"}}, nil, nil, nil)})
		s.Conns = append(s.Conns, &spec.Conn{From: "src.out", To: "W.in"})
		exp := evalRef(s, nil)
		res := execSpec(c, root, s, Cfg{Buf: 128, Procs: 2}, nil, false, 0)
		snap := mon.SnapRoot(root)
		out := exp.Tasks[0].Outs["out"]
		_, atFinal := snap[mon.RootRel(root, out)]
		if res.Exit != 0 && atFinal {
			c.Violation("documented-write-api-writes-final-path", fmt.Sprintf("Go function using the documented task.OutIP(port).Write(): the workflow failed (exit %d) and %s exists at its final path (written there directly, not through the temp directory)", res.Exit, out),
				map[string]interface{}{"spec": s, "output_tail": tail(res.Output(), 500)})
		} else if res.Exit == 0 {
			c.Count("write_api_ok", 1)
		}
		c.Drop(root)
		// the same with an out-port that is declared only through SetOut (not in the command pattern), in a nested directory
		root2 := c.CaseDir()
		s2 := &spec.Spec{Name: "writeapi_setout", MaxTasks: 2, Sources: map[string]string{"in.txt": "x\n"}}
		s2.Procs = append(s2.Procs, &spec.Proc{Name: "src", Kind: spec.KFileSource, Files: []string{"in.txt"}},
			&spec.Proc{Name: "W", Kind: spec.KGoFunc, WriteAPI: true, Cmd: spec.VcmdPath + " run id=W i=in:{i:in}", Outs: []*spec.Out{{Port: "res", Pattern: "wdir/{i:in|basename}.w.res"}}},
			&spec.Proc{Name: "after", Kind: spec.KCmd, Cmd: spec.BuildCmd("after", []spec.PortDecl{{Name: "in"}}, []spec.PortDecl{{Name: "out"}}, nil, nil, nil)})
		s2.Conns = append(s2.Conns, &spec.Conn{From: "src.out", To: "W.in"}, &spec.Conn{From: "W.res", To: "after.in"})
		res2 := execSpec(c, root2, s2, Cfg{Buf: 128, Procs: 2}, nil, false, 0)
		snap2 := mon.SnapRoot(root2)
		_, atFinal2 := snap2["wd/wdir/in.txt.w.res"]
		if res2.Exit != 0 && atFinal2 {
			c.Violation("documented-write-api-writes-final-path:setout-only-port", fmt.Sprintf("Go function writing an out-port declared with SetOut through task.OutIP(port).Write(): the workflow failed (exit %d) and the file exists at its final path", res2.Exit),
				map[string]interface{}{"spec": s2, "output_tail": tail(res2.Output(), 500)})
		} else if res2.Exit != 0 {
			c.Violation("documented-write-api-fails", fmt.Sprintf("Go function writing an out-port declared with SetOut through task.OutIP(port).Write() failed (exit %d): %s", res2.Exit, tail(res2.Output(), 400)), map[string]interface{}{"spec": s2})
		} else {
			c.Count("write_api_ok", 1)
			c.Nontrivial("writeapi-setout-only")
		}
		c.Drop(root2)
	}
	// FileSplitter writes its parts through a temp directory too: whatever exists at a part's final path after a
	// kill at a logical instant must be the complete part
	{
		var lines strings.Builder
		for i := 0; i < 1500; i++ {
			fmt.Fprintf(&lines, "line %04d of the big file\n", i)
		}
		nk := c.Pick(10, 60)
		run.Parallel(nk, func(i int) {
			root := c.CaseDir()
			defer c.Drop(root)
			s := &spec.Spec{Name: "splitkill", MaxTasks: 2, Sources: map[string]string{"big.txt": lines.String()}}
			s.Procs = append(s.Procs, &spec.Proc{Name: "src", Kind: spec.KFileSource, Files: []string{"big.txt"}}, &spec.Proc{Name: "SP", Kind: spec.KSplitter, Lines: 7},
				&spec.Proc{Name: "use", Kind: spec.KCmd, Cmd: spec.BuildCmd("use", []spec.PortDecl{{Name: "in"}}, []spec.PortDecl{{Name: "out"}}, nil, nil, nil)})
			s.Conns = append(s.Conns, &spec.Conn{From: "src.out", To: "SP.file"}, &spec.Conn{From: "SP.split_file", To: "use.in"})
			exp := evalRef(s, nil)
			cs := &run.Case{Root: root, Bin: c.Bin, Spec: s, Env: Cfg{Buf: []int{1, 3, 128}[i%3], Procs: 4}.env(), KillAtTraceLine: 1 + (i*7)%90}
			c.Eval(1)
			res := cs.Run()
			snap := mon.SnapRoot(root)
			var ps []mon.Problem
			nparts := 0
			for p, content := range exp.Files {
				if !strings.Contains(p, ".split_") || strings.Contains(p, ".use.") {
					continue
				}
				if e, ok := snap["wd/"+p]; ok {
					nparts++
					if e.Sha != vproto.Sha(content) {
						ps = append(ps, mon.Problem{Sig: "splitter-part-incomplete-at-final-path", Msg: fmt.Sprintf("%s exists at its final path with %d bytes, the complete part has %d", p, e.Size, len(content))})
					}
				}
			}
			ps = append(ps, mon.Atomicity(root, snap, exp, mon.Index(res.Trace), preRootSet(root, s))...)
			if len(ps) > 0 {
				c.Violation(ps[0].Sig+"|kill", strings.Join(mon.Summarize(ps, 4), "\n  "), map[string]interface{}{"spec_name": s.Name, "kill_at_trace_line": cs.KillAtTraceLine, "problems": mon.Summarize(ps, 10)})
				return
			}
			c.Count("splitter_parts_judged_after_kill", nparts)
			if res.Signal != "" && nparts > 0 {
				c.Nontrivial(fmt.Sprintf("splitkill|%d|%d", cs.KillAtTraceLine, nparts))
			}
		})
	}
	c01backgroundJobs(c)
	c01streamReaderStops(c)
	c01writeFaults(c)
	c01linkOutputs(c)
	c.Finish()
}

func faultClass(label string) string {
	switch {
	case strings.HasPrefix(label, "crash@fin."):
		return "crash-during-finalization"
	case strings.HasPrefix(label, "crash@"):
		return "crash"
	case strings.HasPrefix(label, "killgroup"), strings.HasPrefix(label, "kill@"):
		return "kill"
	case strings.HasPrefix(label, "fail="):
		return classOf(label[5:])
	}
	return label
}

// c01linkOutputs: a command leaves a relative symbolic link to its (large) input as its output. Whatever the library
// makes of it, no partially written regular file may ever be visible at the final path: the group is killed the
// instant something exists there.
func c01linkOutputs(c *chk.Ctx) {
	run.Parallel(c.Pick(3, 8), func(i int) {
		root := c.CaseDir()
		defer c.Drop(root)
		big := strings.Repeat("0123456789abcdef", 2<<20) // 32 MiB
		outPat := []string{"passed.bin", "lk/deep/passed.bin", "passed.bin"}[i%3]
		s := &spec.Spec{Name: "linkout", MaxTasks: 2, Sources: map[string]string{"big.bin": big}}
		s.Procs = append(s.Procs, &spec.Proc{Name: "src", Kind: spec.KFileSource, Files: []string{"big.bin"}},
			&spec.Proc{Name: "L", Kind: spec.KCmd, Cmd: spec.BuildCmd("L", []spec.PortDecl{{Name: "in"}}, []spec.PortDecl{{Name: "out"}}, nil, nil, map[string]string{"linkout": "1"}), Outs: []*spec.Out{{Port: "out", Pattern: outPat}}})
		s.Conns = append(s.Conns, &spec.Conn{From: "src.out", To: "L.in"})
		final := filepath.Join(root, "wd", outPat)
		var kill []string
		if i%3 != 2 {
			kill = []string{final}
		}
		cs := &run.Case{Root: root, Bin: c.Bin, Spec: s, Env: Cfg{Buf: 128, Procs: 2}.env(), KillWhenExists: kill}
		c.Eval(1)
		res := cs.Run()
		if res.Hang != "" {
			c.Inconclusive("link output: " + res.Hang)
			return
		}
		sd := s.Clone()
		sd.Sources["big.bin"] = "<32 MiB: 2097152 x '0123456789abcdef'>"
		desc := map[string]interface{}{"spec": sd, "killed_when_final_path_appeared": len(kill) > 0, "exit": res.Exit, "signal": res.Signal}
		fi, err := os.Lstat(final)
		switch {
		case err != nil:
			// nothing there
		case fi.Mode()&os.ModeSymlink != 0:
			// the link itself was moved: appears atomically
		case fi.Mode().IsRegular() && fi.Size() != int64(len(big)):
			c.Violation("final-path-partial-or-wrong|link-output", fmt.Sprintf("a command left a symbolic link to its 32 MiB input as output; at the final path there is a regular file of %d bytes (signal %q, exit %d)", fi.Size(), res.Signal, res.Exit), desc)
			return
		}
		c.Count("link_output_cases", 1)
		c.Nontrivial(fmt.Sprintf("linkout|%d|%v", i%3, res.Signal != ""))
	})
}

// c01writeFaults: faults in the library's own file writing. A Go function hands its result to task.OutIP(port).Write();
// strace makes the first / second write(2) to that file fail with ENOSPC or EDQUOT (a full disk, a quota): the
// function cannot know, so the library must fail the task - no file at the final path, exit status non-zero.
func c01writeFaults(c *chk.Ctx) {
	run.Parallel(c.Pick(4, 12), func(i int) {
		root := c.CaseDir()
		defer c.Drop(root)
		s := &spec.Spec{Name: "writefault", MaxTasks: 2, Sources: map[string]string{"in.txt": "x\n"}}
		outPat := []string{"w.out", "wd2/deep/w.out"}[i%2]
		s.Procs = append(s.Procs, &spec.Proc{Name: "src", Kind: spec.KFileSource, Files: []string{"in.txt"}},
			&spec.Proc{Name: "W", Kind: spec.KGoFunc, WriteAPI: true, Cmd: spec.BuildCmd("W", []spec.PortDecl{{Name: "in"}}, []spec.PortDecl{{Name: "out"}}, nil, nil, map[string]string{"size": "300000"}), Outs: []*spec.Out{{Port: "out", Pattern: outPat}}},
			&spec.Proc{Name: "after", Kind: spec.KCmd, Cmd: spec.BuildCmd("after", []spec.PortDecl{{Name: "in"}}, []spec.PortDecl{{Name: "out"}}, nil, nil, nil)})
		s.Conns = append(s.Conns, &spec.Conn{From: "src.out", To: "W.in"}, &spec.Conn{From: "W.out", To: "after.in"})
		exp := evalRef(s, nil)
		if exp.Err != "" || len(exp.ByProc["W"]) != 1 || exp.ByProc["W"][0].TempDir == "" {
			c.Broken("reference cannot evaluate the write-fault shape: " + exp.Err)
		}
		wd := filepath.Join(root, "wd")
		tmpFile := filepath.Join(wd, exp.ByProc["W"][0].TempDir, outPat)
		errno := []string{"ENOSPC", "EDQUOT", "EIO"}[i%3]
		os.MkdirAll(filepath.Join(root, "meta"), 0777)
		wrap := []string{"strace", "-f", "-qq", "-e", "trace=write,pwrite64,writev", "-P", tmpFile, "-o", filepath.Join(root, "meta", "strace.log"),
			"-e", fmt.Sprintf("inject=write,pwrite64,writev:error=%s:when=%d", errno, 1+(i/3)%2)}
		cs := &run.Case{Root: root, Bin: c.Bin, Spec: s, Env: Cfg{Buf: 128, Procs: 2}.env(), Wrap: wrap, Soft: 60 * time.Second, Hard: 150 * time.Second}
		c.Eval(1)
		res := cs.Run()
		desc := map[string]interface{}{"spec": s, "injected": errno + " on a write to " + tmpFile, "exit": res.Exit}
		if strings.HasPrefix(res.Hang, "inconclusive:environment") {
			res.Hang = "" // the "no space left on device" in the output is the injected fault, not the machine
		}
		if res.Hang != "" {
			c.Inconclusive("write fault: " + res.Hang)
			return
		}
		sl, _ := os.ReadFile(filepath.Join(root, "meta", "strace.log"))
		if !strings.Contains(string(sl), "(INJECTED)") {
			// a single small write, or the file was written in another way: the fault did not fire
			c.Count("write_faults_not_fired", 1)
			if res.Exit != 0 {
				c.Violation("fault-free:dry-run-failed", fmt.Sprintf("no write was failed, yet the workflow exited %d: %s", res.Exit, tail(res.Output(), 300)), desc)
			}
			return
		}
		var ps []mon.Problem
		snap := run.Snap(wd)
		if e, ok := snap[filepath.Clean(outPat)]; ok && e.Mode == "f" {
			ps = append(ps, mon.Problem{Sig: "final-path-without-successful-command", Msg: fmt.Sprintf("a write of the Go function's output failed with %s, yet %s is at its final path (%d bytes of 300000)", errno, outPat, e.Size)})
		}
		if res.Exit == 0 || res.Returned {
			ps = append(ps, mon.Problem{Sig: "final-path-without-successful-command", Msg: fmt.Sprintf("a write of the Go function's output failed with %s, yet the workflow reported success (exit %d)", errno, res.Exit)})
		}
		for _, e := range res.Trace {
			if e.Ev == "start" && e.ID == "after" {
				ps = append(ps, mon.Problem{Sig: "final-path-without-successful-command", Msg: "the consumer of the output whose write failed was executed"})
			}
		}
		if len(ps) > 0 {
			desc["problems"] = mon.Summarize(ps, 10)
			c.Violation(ps[0].Sig+"|write-fault", strings.Join(mon.Summarize(ps, 4), "\n  "), desc)
			return
		}
		c.Count("write_faults_fired", 1)
		c.Nontrivial(fmt.Sprintf("writefault|%s|%d|%s", errno, 1+(i/3)%2, outPat))
	})
}

// c01backgroundJobs: the command runs two tools side by side ("tool1 ... & tool2 ... ; wait"): both write to the
// placeholders the library gave them, so both must write inside the task's temp directory; nothing may be at a final
// path while they run, and after a failure nothing may be there at all.
func c01backgroundJobs(c *chk.Ctx) {
	run.Parallel(c.Pick(8, 24), func(i int) {
		root := c.CaseDir()
		defer c.Drop(root)
		in, o1 := []spec.PortDecl{{Name: "in"}}, []spec.PortDecl{{Name: "out"}}
		dir := []string{"", "bgout/", "bgout/deep/"}[i%3]
		fail := i%4 == 3
		s := &spec.Spec{Name: "background", MaxTasks: 2, Sources: map[string]string{"bg.txt": "bg\n"}}
		second := spec.VcmdPath + " run id=A2 o=res:{o:res} sleep=30" // (a tool that needs no input file: a report, a timestamp, a download)
		if fail {
			second += " fail=exit-mid-write"
		}
		form := []string{"%s & %s ; wait", "%s &\n%s\nwait", "( %s ) & ( %s ) ; wait"}[i%3]
		s.Procs = append(s.Procs, &spec.Proc{Name: "src", Kind: spec.KFileSource, Files: []string{"bg.txt"}},
			&spec.Proc{Name: "A", Kind: spec.KCmd, Cmd: fmt.Sprintf(form, spec.VcmdPath+" run id=A o=out:{o:out} i=in:{i:in} sleep=30", second),
				Outs: []*spec.Out{{Port: "out", Pattern: dir + "a.out"}, {Port: "res", Pattern: dir + "a.res"}}},
			&spec.Proc{Name: "B", Kind: spec.KCmd, Cmd: spec.BuildCmd("B", in, o1, nil, nil, nil)},
			&spec.Proc{Name: "C", Kind: spec.KCmd, Cmd: spec.BuildCmd("C", in, o1, nil, nil, nil)})
		s.Conns = append(s.Conns, &spec.Conn{From: "src.out", To: "A.in"}, &spec.Conn{From: "A.out", To: "B.in"}, &spec.Conn{From: "A.res", To: "C.in"})
		prepend := ""
		if (i/4)%2 == 1 && i%3 != 2 {
			// the same behind a Prepend wrapper (a scheduler or container prefix): it wraps the first tool only, both tools
			// still work in the task's temp directory
			prepend = "env BG_WRAPPED=1"
			s.Procs[1].Prepend = prepend
		}
		bh := vproto.Behaviours{"A": {"probe.out": dir + "a.out", "probe.res": dir + "a.res"}, "A2": {"probe.out": dir + "a.out", "probe.res": dir + "a.res"}}
		desc := map[string]interface{}{"spec": s, "behav": bh, "second_tool_fails": fail, "prepend": prepend}
		res := execSpec(c, root, s, Cfg{Buf: 128, Procs: 2}, bh, false, 0)
		if res.Hang != "" {
			c.Inconclusive(res.Hang)
			return
		}
		ti := mon.Index(res.Trace)
		var ps []mon.Problem
		for _, e := range ti.Probes {
			if e.Exists {
				ps = append(ps, mon.Problem{Sig: "final-path-visible-while-command-runs", Msg: fmt.Sprintf("while %s was running (%s) a file existed at the final path %s", e.ID, e.Phase, e.Path)})
			}
		}
		snap := run.Snap(res.Wd)
		nfinal := 0
		for _, f := range []string{dir + "a.out", dir + "a.res"} {
			if e, ok := snap[filepath.Clean(f)]; ok && e.Mode == "f" {
				nfinal++
			}
		}
		// the tools end with status 0 unless made to fail; "wait" hides the status of background jobs, so the task
		// itself succeeds whenever both files are where the library looks for them
		if res.Exit != 0 && nfinal > 0 {
			ps = append(ps, mon.Problem{Sig: "final-path-without-successful-command", Msg: fmt.Sprintf("the workflow failed (exit %d) and %d output(s) of the two-tool task are at their final paths: %s", res.Exit, nfinal, tail(res.Output(), 300))})
		}
		if res.Exit == 0 && nfinal != 2 {
			ps = append(ps, mon.Problem{Sig: "output-not-at-declared-path", Msg: fmt.Sprintf("the workflow succeeded and %d of the 2 outputs of the two-tool task are at their final paths", nfinal)})
		}
		for _, l := range snap.Files() {
			if !strings.Contains(l, "_scipipe_tmp") && !mon.IsAuditFile(l) && l != "bg.txt" && !strings.HasPrefix(filepath.Base(l), "a.") && !strings.HasSuffix(l, ".out") {
				ps = append(ps, mon.Problem{Sig: "unfinished-work-outside-tempdir", Msg: "unexpected file " + l})
			}
		}
		if len(ps) > 0 {
			for _, sig := range sigSet(ps) {
				desc["problems"] = mon.Summarize(ps, 10)
				c.Violation(sig+"|background-job", fmt.Sprintf("command of the form %q: %s", form, strings.Join(mon.Summarize(ps, 4), "\n  ")), desc)
			}
			return
		}
		c.Count("probe_events", len(ti.Probes))
		c.Nontrivial(fmt.Sprintf("background|%d|%v|%s", i%3, fail, prepend))
	})
}

// c01streamReaderStops: a task writes a file output and a streamed output at once ("seq ... | tee {o:nums} > {os:stream}")
// and the reader of the stream stops after a few lines (head): the writing command dies of SIGPIPE long before it has
// written everything. It did not finish successfully, so its file output must never be at the final path - whatever
// the library thinks of broken pipes, a partial file there is the refuting observation.
func c01streamReaderStops(c *chk.Ctx) {
	run.Parallel(c.Pick(3, 8), func(i int) {
		root := c.CaseDir()
		defer c.Drop(root)
		n := []int{400000, 900000, 250000}[i%3]
		dir := []string{"", "nums/"}[i%2]
		s := &spec.Spec{Name: "readerstops", MaxTasks: 4, Sources: map[string]string{"seed.txt": "s\n"}}
		writer := fmt.Sprintf("cat {i:in} > /dev/null; seq 1 %d | tee {o:nums} > {os:stream}", n)
		if i%3 == 2 {
			writer = fmt.Sprintf("cat {i:in} > /dev/null; seq 1 %d > {o:nums}; cat {o:nums} {o:nums} > {os:stream}", n) // the file is complete, the stream is not
		}
		s.Procs = append(s.Procs, &spec.Proc{Name: "src", Kind: spec.KFileSource, Files: []string{"seed.txt"}},
			&spec.Proc{Name: "W", Kind: spec.KCmd, Cmd: writer, Outs: []*spec.Out{{Port: "nums", Pattern: dir + "nums.txt"}, {Port: "stream", Pattern: dir + "stream.txt"}}},
			&spec.Proc{Name: "H", Kind: spec.KCmd, Cmd: "head -n 3 {i:in} > {o:out}", Outs: []*spec.Out{{Port: "out", Pattern: "head.txt"}}},
			&spec.Proc{Name: "N", Kind: spec.KRecorder})
		s.Conns = append(s.Conns, &spec.Conn{From: "src.out", To: "W.in"}, &spec.Conn{From: "W.stream", To: "H.in"}, &spec.Conn{From: "W.nums", To: "N.in"})
		desc := map[string]interface{}{"spec": s, "lines": n}
		res := execSpec(c, root, s, Cfg{Buf: 16, Procs: 4}, nil, false, 0)
		if res.Hang != "" {
			c.Inconclusive(res.Hang)
			return
		}
		b, err := os.ReadFile(filepath.Join(res.Wd, dir+"nums.txt"))
		lines := strings.Count(string(b), "\n")
		switch {
		case err == nil && res.Exit != 0:
			c.Violation("final-path-without-successful-command|stream-reader-stopped", fmt.Sprintf("the writer of a stream died of SIGPIPE (its reader stopped after 3 lines), the workflow failed (exit %d), and the writer's file output is at its final path with %d of %d lines", res.Exit, lines, n), desc)
		case err == nil && lines != n:
			c.Violation("partial-file-at-final-path|stream-reader-stopped", fmt.Sprintf("the writer of a stream died of SIGPIPE (its reader stopped after 3 lines); its file output is at the final path with %d of %d lines (workflow exit %d)", lines, n, res.Exit), desc)
		case err == nil:
			// all lines are there, but the command line still ended with the status of a tool killed by SIGPIPE (tee / cat
			// had far more to write than a pipe holds when head left)
			c.Violation("final-path-without-successful-command|stream-reader-stopped", fmt.Sprintf("the writer of a stream died of SIGPIPE (its reader stopped after 3 lines), yet its file output is at its final path (complete, workflow exit %d)", res.Exit), desc)
		default:
			c.Count("stream_reader_stopped_runs", 1)
			c.Nontrivial(fmt.Sprintf("readerstops|%d|exit%v", i, res.Exit != 0))
		}
	})
}
