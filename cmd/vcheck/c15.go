package main

import (
	"bufio"
	"encoding/json"
	"fmt"
	"os"
	"path/filepath"
	"strings"

	"verif/internal/chk"
	"verif/internal/gen"
	"verif/internal/run"
)

func init() { checks["C15"] = c15 }

type fmtResult struct {
	ID      int               `json:"id"`
	Attempt *int              `json:"attempt"`
	Command string            `json:"command"`
	Outs    map[string]string `json:"outs"`
	Again   bool              `json:"again"`
}

func c15(args []string) {
	c := chk.New("C15", "exploration", args)
	c.Build(false)
	c.Rule("in-process batches (subject mode 'fmt'): tasks are built through NewProc / SetOut / NewTask exactly as the library does at run time and Task.Command and the out-IP paths are compared with a reference implementation of docs/writing_workflows.md (placeholders replaced at every occurrence; basename, dirname, %suffix, s/a/b/ left to right; ../ rule for inputs; temp encoding of outputs; joined ports; Prepend) and of the README's default-name rule; exhaustive part: every guard-respecting modifier chain of length <= 2 over the value alphabets for i / p / t placeholders in commands and in output patterns; random part: 1-4 placeholders, repeated placeholders, chains <= 3, joined ports, two outputs; missing values (empty parameter, absent tag, absent input, empty tag) must end the child with non-zero status, one child per case; extensions that contain dots ({o:out|.txt.gz}), streaming {os:} placeholders, in-ports that receive a streamed file (the placeholder is the FIFO's path, modifiers apply to it), directory inputs spelled with a trailing slash (default names), SetOut patterns below absolute / parent-relative / nested directories. distinct_nontrivial = distinct (pattern, value) cases with at least one modifier or repeated placeholder whose result was compared")
	c.Assume("only what the documentation fixes is judged: s/a/b/ with <= 1 occurrence of a, %suffix shorter than the value, basename / dirname on values containing '/' without trailing '/'")
	rng := c.Rand("c15")
	var cases []*gen.FmtCase
	id := 0
	add := func(fc *gen.FmtCase) {
		fc.ID = id
		id++
		cases = append(cases, fc)
	}
	// exhaustive chains
	maxLen := 2
	inPaths := []string{"f.txt", "d/f.txt", "d/e/report.txt", "text.txt", "a-b_c/x.tar.gz", "../up/t.txt", "/abs/dir/g.txt", "data/s.in.txt", "d.x/f", "x/mat.txt", "../../pp/q.gz", "t.txt", "./.hid/in.txt", "./../o.txt"}
	vals := []string{"v", "x1", "a.b", "p-q", "s", "ttt", "rx.txt", "d/f", "0", "F_f", "text", "ext.txt"}
	nExh := 0
	for vi, v := range inPaths {
		chains := gen.AllChains(v, maxLen)
		for ci, ch := range chains {
			if !c.Thorough() && (ci+vi)%4 != 0 {
				continue
			}
			m := ""
			for _, x := range ch {
				m += "|" + x
			}
			add(&gen.FmtCase{Proc: "exh", Cmd: "tool {i:in1" + m + "} again={i:in1" + m + "} > {o:out}", Outs: map[string]string{"out": "o_{i:in1" + m + "}.x"}, In: map[string]string{"in1": v}})
			nExh++
		}
	}
	for vi, v := range vals {
		chains := gen.AllChains(v, maxLen)
		for ci, ch := range chains {
			if !c.Thorough() && (ci+vi)%4 != 0 {
				continue
			}
			m := ""
			for _, x := range ch {
				m += "|" + x
			}
			add(&gen.FmtCase{Proc: "exh", Cmd: "tool -p {p:k" + m + "} -t {t:in1.tg" + m + "} {i:in1} > {o:out|.txt}", Outs: map[string]string{"res": "r_{p:k" + m + "}_{t:in1.tg" + m + "}.y"},
				In: map[string]string{"in1": "d/f.txt"}, Params: map[string]string{"k": v}, Tags: map[string]string{"in1.tg": v}})
			nExh++
		}
	}
	// streamed in-ports: the placeholder stands for the FIFO's path and the modifiers apply to that; output patterns and
	// default names keep using the file's path
	for vi, v := range []string{"d/f.txt", "data/s.in.txt", "../up/t.txt", "x.dat"} {
		for ci, ch := range gen.AllChains(v+".fifo", maxLen) {
			if !c.Thorough() && (ci+vi)%3 != 0 {
				continue
			}
			m := ""
			for _, x := range ch {
				m += "|" + x
			}
			fc := &gen.FmtCase{Proc: "strm", Cmd: "tool {i:in1" + m + "} label={i:in1" + m + "} > {o:out|.txt}", Outs: map[string]string{}, In: map[string]string{"in1": v}, InStream: map[string]bool{"in1": true}}
			if ci%2 == 0 {
				fc.Outs["out"] = "o_{i:in1|basename}.x"
			}
			add(fc)
			nExh++
		}
	}
	// directory inputs spelled with a trailing slash: the default name starts with the directory's name
	for _, v := range []string{"indata/d1/", "indata/d2/", "d3/", "../up/dd/", "a/b.c/"} {
		add(&gen.FmtCase{Proc: "lister", Cmd: "ls {i:in1} > {o:listing|.txt}", Outs: map[string]string{}, In: map[string]string{"in1": v}})
		add(&gen.FmtCase{Proc: "lister", Cmd: "ls {i:in1} {i:in2} > {o:listing}", Outs: map[string]string{}, In: map[string]string{"in1": v, "in2": "x/" + v}, Params: map[string]string{}})
		nExh += 2
	}
	c.Set("exhaustive_chain_cases", nExh)
	if c.Thorough() {
		c.Set("exhaustive_part", "all guard-respecting modifier chains of length <= 2 over 12 input paths and 12 parameter/tag values")
	}
	nrand := c.Pick(6000, 100000)
	for i := 0; i < nrand; i++ {
		add(gen.FmtRandom(rng, 0))
	}
	// expected results
	type want struct {
		cmd  string
		outs map[string]string
		ok   bool
	}
	wants := make([]want, len(cases))
	for i, fc := range cases {
		cmd, outs, ok := gen.FmtExpected(fc)
		wants[i] = want{cmd, outs, ok}
	}
	// batches
	bs := 500
	nb := (len(cases) + bs - 1) / bs
	run.Parallel(nb, func(b int) {
		lo, hi := b*bs, (b+1)*bs
		if hi > len(cases) {
			hi = len(cases)
		}
		var batch []*gen.FmtCase
		for i := lo; i < hi; i++ {
			if wants[i].ok {
				batch = append(batch, cases[i])
			} else {
				c.Count("cases_outside_judged_domain", 1)
			}
		}
		root := c.CaseDir()
		defer c.Drop(root)
		os.MkdirAll(filepath.Join(root, "meta"), 0777)
		in := filepath.Join(root, "meta", "cases.json")
		out := filepath.Join(root, "meta", "results.jsonl")
		jb, _ := json.Marshal(batch)
		os.WriteFile(in, jb, 0644)
		cs := &run.Case{Root: root, Bin: c.Bin, Mode: "fmt", Args: []string{in, out}, KeepWd: true}
		res := cs.Run()
		if res.Exit != 0 || !strings.Contains(res.Output(), "FMT-DONE") {
			c.Violation("valid-pattern-rejected", fmt.Sprintf("batch %d: formatting valid patterns ended with status %d: %s", b, res.Exit, tail(res.Output(), 600)), map[string]interface{}{"batch_first_case": batch[0]})
			return
		}
		f, _ := os.Open(out)
		defer f.Close()
		sc := bufio.NewScanner(f)
		sc.Buffer(make([]byte, 1<<20), 1<<24)
		got := map[int]*fmtResult{}
		for sc.Scan() {
			var r fmtResult
			if json.Unmarshal(sc.Bytes(), &r) == nil && r.Attempt == nil {
				rr := r
				got[r.ID] = &rr
			}
		}
		for _, fc := range batch {
			c.Eval(1)
			w := wants[fc.ID]
			g := got[fc.ID]
			if g == nil {
				c.Violation("no-result", "no result for a valid case", map[string]interface{}{"case": fc})
				continue
			}
			bad := ""
			if g.Command != w.cmd {
				bad = fmt.Sprintf("Task.Command = %q, documented expansion = %q", g.Command, w.cmd)
			}
			for port, p := range w.outs {
				if g.Outs[port] != p {
					bad += fmt.Sprintf(" out-port %s path = %q, documented expansion = %q", port, g.Outs[port], p)
				}
			}
			if !g.Again {
				bad += " result differs between evaluations"
			}
			if bad != "" {
				sig := "expansion-differs"
				if g.Again == false {
					sig = "expansion-not-deterministic"
				}
				c.Violation(sig, fmt.Sprintf("pattern %q (outs %v) with in=%v params=%v tags=%v joined=%v: %s", fc.Cmd, fc.Outs, fc.In, fc.Params, fc.Tags, fc.Joined, bad), map[string]interface{}{"case": fc, "got": g, "want_command": w.cmd, "want_outs": w.outs})
				continue
			}
			if strings.Contains(fc.Cmd, "|") || strings.Count(fc.Cmd, "{p:") > 1 {
				c.Nontrivial(fmt.Sprintf("%s|%v|%v|%v|%v|%v", fc.Cmd, fc.Outs, fc.In, fc.Params, fc.Tags, fc.Joined))
			}
			if fc.ID%2500 == 0 {
				c.Sample(map[string]interface{}{"pattern": fc.Cmd, "out_patterns": fc.Outs, "in": fc.In, "params": fc.Params, "tags": fc.Tags, "joined": fc.Joined, "command": g.Command, "out_paths": g.Outs})
			}
		}
	})
	// missing values: one child per case, must die
	type miss struct {
		fc   *gen.FmtCase
		what string
	}
	var ms []miss
	base := func() *gen.FmtCase {
		return &gen.FmtCase{Proc: "m", Cmd: "tool {i:in1} {p:k} {t:in1.tg} > {o:out}", In: map[string]string{"in1": "d/f.txt"}, Params: map[string]string{"k": "v"}, Tags: map[string]string{"in1.tg": "w"}, Outs: map[string]string{}}
	}
	{
		a := base()
		a.Params["k"] = ""
		ms = append(ms, miss{a, "empty parameter value"})
		b := base()
		delete(b.Tags, "in1.tg")
		ms = append(ms, miss{b, "absent tag"})
		b2 := base()
		b2.Tags["in1.tg"] = ""
		ms = append(ms, miss{b2, "empty tag value"})
		d := base()
		d.Cmd = "tool {i:in1} {i:in2} > {o:out}"
		ms = append(ms, miss{d, "absent input on a declared in-port"})
		e := base()
		delete(e.Params, "k")
		ms = append(ms, miss{e, "absent parameter"})
		f := base()
		f.Outs["out"] = "o_{p:nosuch}.x"
		ms = append(ms, miss{f, "output pattern names a parameter that does not exist"})
		g := base()
		g.Outs["out"] = "o_{t:in1.nosuch}.x"
		ms = append(ms, miss{g, "output pattern names a tag that does not exist"})
		h := base()
		h.Cmd = "tool {p:k|basename} {p:k} > {o:out}"
		h.Params["k"] = ""
		ms = append(ms, miss{h, "empty parameter value with a modifier"})
	}
	run.Parallel(len(ms), func(i int) {
		m := ms[i]
		root := c.CaseDir()
		defer c.Drop(root)
		os.MkdirAll(filepath.Join(root, "meta"), 0777)
		in := filepath.Join(root, "meta", "cases.json")
		out := filepath.Join(root, "meta", "results.jsonl")
		m.fc.ID = 0
		jb, _ := json.Marshal([]*gen.FmtCase{m.fc})
		os.WriteFile(in, jb, 0644)
		cs := &run.Case{Root: root, Bin: c.Bin, Mode: "fmt", Args: []string{in, out}, KeepWd: true}
		c.Eval(1)
		res := cs.Run()
		ob, _ := os.ReadFile(out)
		if res.Exit == 0 || strings.Contains(string(ob), "\"command\"") {
			c.Violation("missing-value-accepted:"+m.what, fmt.Sprintf("%s: the library produced a command instead of stopping (exit %d): %s", m.what, res.Exit, clip(string(ob), 400)), map[string]interface{}{"case": m.fc})
			return
		}
		c.Count("missing_value_cases_stopped", 1)
		c.Nontrivial("missing|" + m.what)
	})
	c.Finish()
}
