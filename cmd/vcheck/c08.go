package main

import (
	"fmt"
	"os"
	"path/filepath"
	"sort"
	"strings"

	"verif/internal/chk"
	"verif/internal/mon"
	"verif/internal/ref"
	"verif/internal/run"
	"verif/internal/spec"
	"verif/internal/vproto"
)

func init() { checks["C08"] = c08 }

func recPaths(ti *mon.TraceIndex, rec string) []string {
	var out []string
	for _, e := range ti.Recs[rec] {
		out = append(out, e.Path)
	}
	return out
}

func c08(args []string) {
	c := chk.New("C08", "exploration", args)
	c.Build(false)
	c.Rule("[streaming beside an ordinary port] a process with a streaming and an ordinary out-port whose first task is the slowest: the ordinary port still emits in input order; [pile-up] 60-110 inputs with a 1.5 s task at position five and enough slots for all (every third run with the process's Spawn field set to false): more than 50 finished tasks wait behind the head and must leave in arrival order; [repeated input sets] the same input reaches a process a second time while its first task has executed but still waits behind a slow head: it leaves the port where it was received; chains and trees of 1-3 processing stages with 3-40 items; recorder components in front of every in-port (single sender, so their log is the arrival order) and behind every out-port; task durations assigned so that completion order is the reverse or a random permutation of arrival order; slots in {2,4,16}, SCIPIPE_BUFSIZE in {1,3,128} (and 0 = unbuffered with a two-out-port process read by two recorders), a parameter source fanned out to the parameter ports of a slow and a quick process (values > buffer), slow downstream recorders (buffers fill up), some middle tasks skipped because their outputs pre-exist, fan-in of two upstreams through a recording merge point; bundled components between recorders (FileCombinator: first occurrences on each out-port in arrival order; IPSelectorSync: selected items in arrival order; MapToTags: pass-through, also with a map function that tags only every third file; sub-stream members in a joined placeholder, also with a file arriving twice) with file names whose arrival order is not lexicographic; oracle: sequence behind each out-port == image (through the reference's task -> out-path map) of the sequence recorded in front of the in-port; projection of a merged sequence onto each upstream == that upstream's own output sequence; every item passing a recorder behind a non-streaming out-port of a command / Go-function process must be a file at that moment (the recorder stats it on reception). distinct_nontrivial = runs in which the completion order of some process really differed from its arrival order (measured from the commands' end stamps), distinct by (shape, config, permutation)")
	c.Assume("recorders are harness components written against the public BaseProcess/InPort/OutPort API")
	rng := c.Rand("c08")
	type job struct {
		s      *spec.Spec
		bh     vproto.Behaviours
		cfg    Cfg
		stages []string
		fanin  bool
	}
	var jobs []*job
	n := c.Pick(60, 800)
	for g := 0; g < n; g++ {
		nitems := 3 + rng.Intn(10)
		if g%7 == 6 {
			nitems = 20 + rng.Intn(21)
		}
		max := []int{2, 4, 16}[rng.Intn(3)]
		s := &spec.Spec{Name: fmt.Sprintf("ord%d", g), MaxTasks: max, Sources: map[string]string{}}
		bh := vproto.Behaviours{}
		fanin := g%4 == 3
		nsrc := 1
		if fanin {
			nsrc = 2
		}
		var heads []string // recorder out ports carrying source items
		for k := 0; k < nsrc; k++ {
			src := &spec.Proc{Name: fmt.Sprintf("src%d", k), Kind: spec.KFileSource}
			for i := 0; i < nitems; i++ {
				f := fmt.Sprintf("u%d_%02d.txt", k, i)
				src.Files = append(src.Files, f)
				s.Sources[f] = f + "\n"
			}
			s.Procs = append(s.Procs, src)
			if fanin {
				// an upstream processing stage per source, with its own recorder behind it
				up := fmt.Sprintf("up%d", k)
				s.Procs = append(s.Procs, &spec.Proc{Name: up, Kind: spec.KCmd, Cmd: spec.BuildCmd(up, []spec.PortDecl{{Name: "in"}}, []spec.PortDecl{{Name: "out"}}, nil, nil, nil)})
				s.Procs = append(s.Procs, &spec.Proc{Name: up + "out", Kind: spec.KRecorder})
				s.Conns = append(s.Conns, &spec.Conn{From: src.Name + ".out", To: up + ".in"}, &spec.Conn{From: up + ".out", To: up + "out.in"})
				heads = append(heads, up+"out.out")
			} else {
				heads = append(heads, src.Name+".out")
			}
		}
		nst := 1 + rng.Intn(3)
		var stages []string
		prev := heads
		for st := 0; st < nst; st++ {
			pn := fmt.Sprintf("st%d", st)
			kind := spec.KCmd
			if rng.Intn(4) == 0 {
				kind = spec.KGoFunc
			}
			rin := pn + "in"
			rout := pn + "out"
			s.Procs = append(s.Procs, &spec.Proc{Name: rin, Kind: spec.KRecorder})
			for _, h := range prev {
				s.Conns = append(s.Conns, &spec.Conn{From: h, To: rin + ".in"})
			}
			s.Procs = append(s.Procs, &spec.Proc{Name: pn, Kind: kind, Cores: 1 + rng.Intn(2),
				Cmd: spec.BuildCmd(pn, []spec.PortDecl{{Name: "in"}}, []spec.PortDecl{{Name: "out"}}, nil, nil, nil)})
			delay := 0
			if rng.Intn(3) == 0 {
				delay = 1 + rng.Intn(8)
			}
			s.Procs = append(s.Procs, &spec.Proc{Name: rout, Kind: spec.KRecorder, DelayMS: delay})
			s.Conns = append(s.Conns, &spec.Conn{From: rin + ".out", To: pn + ".in"}, &spec.Conn{From: pn + ".out", To: rout + ".in"})
			stages = append(stages, pn)
			prev = []string{rout + ".out"}
		}
		if s.MaxTasks < 2 {
			s.MaxTasks = 2
		}
		exp := evalRef(s, nil)
		if exp.Err != "" {
			c.Broken("reference cannot evaluate order workload: " + exp.Err)
		}
		// durations: decreasing with the (reference) index, or a random permutation
		for _, st := range stages {
			ts := exp.ByProc[st]
			perm := rng.Perm(len(ts))
			for idx, t := range ts {
				d := (len(ts) - idx) * 6
				if g%3 == 1 {
					d = perm[idx] * 6
				}
				if d > 120 {
					d = d * 120 / (len(ts) * 6)
				}
				bh[t.Key] = map[string]string{"sleep": fmt.Sprint(d)}
			}
		}
		// some middle tasks of the first stage are skipped (outputs pre-exist)
		if g%5 == 4 && !fanin {
			ts := exp.ByProc[stages[0]]
			for idx, t := range ts {
				if idx > 0 && idx%3 == 1 {
					s.Sources[t.Outs["out"]] = "pre-existing " + t.Outs["out"] + "\n"
				}
			}
		}
		cfg := Cfg{Buf: []int{1, 3, 128}[rng.Intn(3)], Procs: []int{1, 2, 4}[rng.Intn(3)], Sched: fmt.Sprintf("%d,300,800", rng.Intn(1<<30))}
		jobs = append(jobs, &job{s, bh, cfg, stages, fanin})
	}
	// several sub-streams arriving on one joined in-port: one task per sub-stream, emitted in the order the
	// carrier IPs arrived, although an earlier sub-stream completes later than the following ones
	nmj := c.Pick(10, 60)
	mjRes := make([]string, nmj)
	run.Parallel(nmj, func(i int) {
		root := c.CaseDir()
		defer c.Drop(root)
		s := &spec.Spec{Name: fmt.Sprintf("multijoin%d", i), MaxTasks: 8, Sources: map[string]string{}}
		bh := vproto.Behaviours{}
		k := 2 + i%3
		for u := 0; u < k; u++ {
			src := &spec.Proc{Name: fmt.Sprintf("ms%d", u), Kind: spec.KFileSource}
			for x := 0; x < 2; x++ {
				f := fmt.Sprintf("mj%d_%d.txt", u, x)
				src.Files = append(src.Files, f)
				s.Sources[f] = f
			}
			w := fmt.Sprintf("mw%d", u)
			sl := "5"
			if u == i%k {
				sl = "180" // this sub-stream completes long after the others
			}
			bh[w] = map[string]string{"sleep": sl}
			s.Procs = append(s.Procs, src, &spec.Proc{Name: w, Kind: spec.KCmd, Cmd: spec.BuildCmd(w, []spec.PortDecl{{Name: "in"}}, []spec.PortDecl{{Name: "out"}}, nil, nil, nil)},
				&spec.Proc{Name: fmt.Sprintf("mss%d", u), Kind: spec.KSubStream})
			s.Conns = append(s.Conns, &spec.Conn{From: src.Name + ".out", To: w + ".in"}, &spec.Conn{From: w + ".out", To: fmt.Sprintf("mss%d.in", u)},
				&spec.Conn{From: fmt.Sprintf("mss%d.substream", u), To: "RCAR.in"})
		}
		s.Procs = append(s.Procs, &spec.Proc{Name: "RCAR", Kind: spec.KRecorder},
			&spec.Proc{Name: "MJ", Kind: spec.KCmd, Cmd: spec.BuildCmd("MJ", []spec.PortDecl{{Name: "in", Join: "space"}}, []spec.PortDecl{{Name: "out"}}, nil, nil, nil),
				Outs: []*spec.Out{{Port: "out", Pattern: "mj.{i:in|basename}.out"}}},
			&spec.Proc{Name: "ROUT", Kind: spec.KRecorder})
		s.Conns = append(s.Conns, &spec.Conn{From: "RCAR.out", To: "MJ.in"}, &spec.Conn{From: "MJ.out", To: "ROUT.in"})
		cfg := Cfg{Buf: []int{1, 3, 128}[i%3], Procs: []int{2, 4}[i%2], NoHooks: i%4 < 2}
		res := execSpec(c, root, s, cfg, bh, false, 0)
		if res.Hang != "" {
			if strings.HasPrefix(res.Hang, "deadlock") {
				c.Violation("multijoin-hang", res.Hang+"\n"+res.HangInfo, map[string]interface{}{"spec": s, "cfg": cfg})
			} else {
				c.Inconclusive(res.Hang)
			}
			return
		}
		if res.Exit != 0 || !res.Returned {
			c.Violation("multijoin-run-failed", fmt.Sprintf("exit %d: %s", res.Exit, tail(res.Output(), 500)), map[string]interface{}{"spec": s, "cfg": cfg})
			return
		}
		ti := mon.Index(res.Trace)
		car, outs := recPaths(ti, "RCAR"), recPaths(ti, "ROUT")
		ok := len(car) == k && len(outs) == k
		for x := 0; ok && x < k; x++ {
			if !strings.Contains(outs[x], filepath.Base(car[x])) {
				ok = false
			}
		}
		if !ok {
			c.Violation("order-not-preserved:sub-streams-on-joined-port", fmt.Sprintf("sub-stream carriers arrived as %v, so their tasks' outputs must leave in that order, but left as %v", car, outs), map[string]interface{}{"spec": s, "cfg": cfg, "behav": bh})
			return
		}
		// non-trivial: the slow sub-stream's carrier was not the last to arrive, so a later task could have overtaken it
		slow := fmt.Sprintf("mj%d_", i%k)
		for x := 0; x+1 < len(outs); x++ {
			for _, e := range ti.Starts {
				for _, st := range e {
					if st.ID == "MJ" && strings.Contains(strings.Join(st.Argv, " "), slow) && strings.Contains(strings.Join(st.Argv, " "), filepath.Base(outs[x])) {
						mjRes[i] = fmt.Sprintf("multijoin|%d|%v|slow-substream-at-position-%d", k, cfg, x)
					}
				}
			}
		}
		c.Count("multi_substream_join_runs", 1)
	})
	for _, r := range mjRes {
		if r != "" {
			c.Nontrivial(r)
		}
	}
	// streaming out-ports: the stream IPs are announced when a task is received; a burst of inputs must leave
	// the streaming out-port in arrival order as well
	nso := c.Pick(10, 50)
	run.Parallel(nso, func(i int) {
		root := c.CaseDir()
		defer c.Drop(root)
		n := 4 + i%5
		s := &spec.Spec{Name: fmt.Sprintf("streamorder%d", i), MaxTasks: 2*n + 2, Sources: map[string]string{}}
		src := &spec.Proc{Name: "src", Kind: spec.KFileSource}
		for k := 0; k < n; k++ {
			f := fmt.Sprintf("so_%02d.txt", k)
			src.Files = append(src.Files, f)
			s.Sources[f] = f
		}
		s.Procs = append(s.Procs, src, &spec.Proc{Name: "RIN", Kind: spec.KRecorder},
			&spec.Proc{Name: "SPRO", Kind: spec.KCmd, Cmd: spec.BuildCmd("SPRO", []spec.PortDecl{{Name: "in"}}, []spec.PortDecl{{Name: "out", Stream: true}}, nil, nil, map[string]string{"size": "2000"}),
				Outs: []*spec.Out{{Port: "out", Pattern: "so/{i:in|basename}.stream"}}},
			&spec.Proc{Name: "ROUT", Kind: spec.KRecorder},
			&spec.Proc{Name: "SCON", Kind: spec.KCmd, Cmd: spec.BuildCmd("SCON", []spec.PortDecl{{Name: "in"}}, []spec.PortDecl{{Name: "out"}}, nil, nil, nil),
				Outs: []*spec.Out{{Port: "out", Pattern: "{i:in|basename}.consumed"}}})
		s.Conns = append(s.Conns, &spec.Conn{From: "src.out", To: "RIN.in"}, &spec.Conn{From: "RIN.out", To: "SPRO.in"}, &spec.Conn{From: "SPRO.out", To: "ROUT.in"}, &spec.Conn{From: "ROUT.out", To: "SCON.in"})
		cfg := Cfg{Buf: []int{1, 3, 128}[i%3], Procs: []int{2, 4, 8}[i%3], Sched: fmt.Sprintf("%d,300,500", i*7919+1)}
		res := execSpec(c, root, s, cfg, nil, false, 0)
		if res.Hang != "" {
			if strings.HasPrefix(res.Hang, "deadlock") {
				c.Violation("streamorder-hang", res.Hang+"\n"+clip(res.HangInfo, 800), map[string]interface{}{"spec": s, "cfg": cfg})
			} else {
				c.Inconclusive(res.Hang)
			}
			return
		}
		if res.Exit != 0 || !res.Returned {
			c.Violation("streamorder-run-failed", fmt.Sprintf("exit %d: %s", res.Exit, tail(res.Output(), 400)), map[string]interface{}{"spec": s, "cfg": cfg})
			return
		}
		ti := mon.Index(res.Trace)
		var want []string
		for _, a := range recPaths(ti, "RIN") {
			want = append(want, "so/"+filepath.Base(a)+".stream")
		}
		got := recPaths(ti, "ROUT")
		if strings.Join(want, "\x00") != strings.Join(got, "\x00") || len(got) != n {
			c.Violation("order-not-preserved:streaming-out-port", fmt.Sprintf("inputs arrived as %v, stream IPs left as %v", recPaths(ti, "RIN"), got), map[string]interface{}{"spec": s, "cfg": cfg})
			return
		}
		c.Count("streaming_order_runs", 1)
		c.Nontrivial(fmt.Sprintf("streamorder|%d|%v", n, cfg))
	})
	// a bundled component as the process: FileSplitter fed several files emits the parts of each file, file after file
	nsp := c.Pick(4, 20)
	run.Parallel(nsp, func(i int) {
		root := c.CaseDir()
		defer c.Drop(root)
		nf := 2 + i%3
		s := &spec.Spec{Name: fmt.Sprintf("splitorder%d", i), MaxTasks: 2, Sources: map[string]string{}}
		src := &spec.Proc{Name: "src", Kind: spec.KFileSource}
		for k := 0; k < nf; k++ {
			f := fmt.Sprintf("sf_%d.txt", k)
			src.Files = append(src.Files, f)
			s.Sources[f] = strings.Repeat(f+" line\n", 3+k+i%2)
		}
		s.Procs = append(s.Procs, src, &spec.Proc{Name: "RIN", Kind: spec.KRecorder}, &spec.Proc{Name: "SP", Kind: spec.KSplitter, Lines: 1 + i%3}, &spec.Proc{Name: "ROUT", Kind: spec.KRecorder})
		s.Conns = append(s.Conns, &spec.Conn{From: "src.out", To: "RIN.in"}, &spec.Conn{From: "RIN.out", To: "SP.file"}, &spec.Conn{From: "SP.split_file", To: "ROUT.in"})
		cfg := Cfg{Buf: []int{1, 3, 128}[i%3], Procs: 2, NoHooks: i%2 == 0}
		res := execSpec(c, root, s, cfg, nil, false, 0)
		if res.Exit != 0 || !res.Returned {
			c.Inconclusive("splitter order run failed")
			return
		}
		ti := mon.Index(res.Trace)
		// project the emitted parts onto their input file and drop repetitions: must equal the arrival order of the files
		var proj []string
		lastIdx := 0
		ordered := true
		for _, p := range recPaths(ti, "ROUT") {
			f := p[:strings.Index(p, ".split_")]
			var idx int
			fmt.Sscanf(p[strings.Index(p, ".split_")+7:], "%d", &idx)
			if len(proj) == 0 || proj[len(proj)-1] != f {
				proj = append(proj, f)
				lastIdx = 0
			}
			if idx != lastIdx+1 {
				ordered = false
			}
			lastIdx = idx
		}
		if strings.Join(proj, "\x00") != strings.Join(recPaths(ti, "RIN"), "\x00") || !ordered {
			c.Violation("order-not-preserved:filesplitter", fmt.Sprintf("files arrived as %v, parts left as %v", recPaths(ti, "RIN"), recPaths(ti, "ROUT")), map[string]interface{}{"spec": s, "cfg": cfg})
			return
		}
		c.Count("splitter_order_runs", 1)
		c.Nontrivial(fmt.Sprintf("splitorder|%d|%d", nf, i))
	})
	// bundled components with in- and out-ports are processes too: FileCombinator (on each out-port the first
	// occurrences of the items follow their arrival order), IPSelectorSync (selected tuples in arrival order),
	// MapToTags (pass-through in arrival order). File names are chosen so that arrival order is not lexicographic,
	// and a slow recorder behind the component fills the buffers.
	ncomp := c.Pick(12, 48)
	run.Parallel(ncomp, func(i int) {
		root := c.CaseDir()
		defer c.Drop(root)
		kind := []string{"combinator", "selector", "maptotags", "joinorder"}[i%4]
		names := [][]string{{"s9.txt", "s10.txt", "s2.txt", "s1.txt", "s6.txt", "s7.txt", "s3.txt", "s12.txt", "s4.txt"}, {"hg18.fa", "hg38.fa", "mm9.fa", "hg19.fa", "dm6.fa", "mm10.fa"}, {"z.txt", "y.txt", "x.txt", "w.txt", "v.txt"}}[(i/3)%3]
		s := &spec.Spec{Name: fmt.Sprintf("comporder_%s%d", kind, i), MaxTasks: 2, Sources: map[string]string{}}
		mksrc := func(name, prefix string) {
			src := &spec.Proc{Name: name, Kind: spec.KFileSource}
			for _, f := range names {
				src.Files = append(src.Files, prefix+f)
				s.Sources[prefix+f] = prefix + f + "\n"
			}
			s.Procs = append(s.Procs, src)
		}
		slow := i % 2 * 2
		pairs := map[string]string{} // recorder in front -> recorder behind
		switch kind {
		case "combinator":
			mksrc("srcA", "a_")
			mksrc("srcB", "b_")
			s.Procs = append(s.Procs, &spec.Proc{Name: "RA", Kind: spec.KRecorder}, &spec.Proc{Name: "RB", Kind: spec.KRecorder},
				&spec.Proc{Name: "FC", Kind: spec.KFileComb, Ports: []string{"a", "b"}}, &spec.Proc{Name: "OA", Kind: spec.KRecorder, DelayMS: slow}, &spec.Proc{Name: "OB", Kind: spec.KRecorder})
			s.Conns = append(s.Conns, &spec.Conn{From: "srcA.out", To: "RA.in"}, &spec.Conn{From: "srcB.out", To: "RB.in"}, &spec.Conn{From: "RA.out", To: "FC.a"}, &spec.Conn{From: "RB.out", To: "FC.b"},
				&spec.Conn{From: "FC.a", To: "OA.in"}, &spec.Conn{From: "FC.b", To: "OB.in"})
			pairs["RA"], pairs["RB"] = "OA", "OB"
		case "selector":
			mksrc("srcA", "a_")
			s.Procs = append(s.Procs, &spec.Proc{Name: "RA", Kind: spec.KRecorder}, &spec.Proc{Name: "SEL", Kind: spec.KSelector, Ports: []string{"a"}, Pred: "notcontains:" + names[1]},
				&spec.Proc{Name: "OA", Kind: spec.KRecorder, DelayMS: slow})
			s.Conns = append(s.Conns, &spec.Conn{From: "srcA.out", To: "RA.in"}, &spec.Conn{From: "RA.out", To: "SEL.a"}, &spec.Conn{From: "SEL.a", To: "OA.in"})
			pairs["RA"] = "OA"
		case "joinorder":
			// the members of a sub-stream reach the joined placeholder in arrival order, also when a file arrives twice
			mksrc("srcA", "a_")
			srcp := s.Proc("srcA")
			srcp.Files = append(srcp.Files, srcp.Files[0], srcp.Files[1])
			s.Procs = append(s.Procs, &spec.Proc{Name: "RA", Kind: spec.KRecorder}, &spec.Proc{Name: "SS", Kind: spec.KSubStream},
				&spec.Proc{Name: "JN", Kind: spec.KCmd, Cmd: "echo {i:in|join:,} > {o:out}", Outs: []*spec.Out{{Port: "out", Pattern: "joined.out"}}})
			s.Conns = append(s.Conns, &spec.Conn{From: "srcA.out", To: "RA.in"}, &spec.Conn{From: "RA.out", To: "SS.in"}, &spec.Conn{From: "SS.substream", To: "JN.in"})
		case "maptotags":
			mksrc("srcA", "a_")
			s.Procs = append(s.Procs, &spec.Proc{Name: "RA", Kind: spec.KRecorder}, &spec.Proc{Name: "T", Kind: spec.KMapToTags, Tags: []*spec.TagRule{{Key: "k", Rule: []string{"stem", "sparse3"}[(i/3)%2]}}},
				&spec.Proc{Name: "OA", Kind: spec.KRecorder, DelayMS: slow})
			s.Conns = append(s.Conns, &spec.Conn{From: "srcA.out", To: "RA.in"}, &spec.Conn{From: "RA.out", To: "T.in"}, &spec.Conn{From: "T.out", To: "OA.in"})
			pairs["RA"] = "OA"
		}
		cfg := Cfg{Buf: []int{1, 3, 128}[i%3], Procs: []int{2, 4}[i%2], NoHooks: i%2 == 0}
		res := execSpec(c, root, s, cfg, nil, false, 0)
		if res.Hang != "" || res.Exit != 0 || !res.Returned {
			if strings.HasPrefix(res.Hang, "deadlock") || (res.Hang == "" && res.Exit != 0) {
				c.Violation("component-order-run-failed", fmt.Sprintf("%s: exit %d %s: %s", kind, res.Exit, res.Hang, tail(res.Output(), 400)), map[string]interface{}{"spec": s, "cfg": cfg})
			} else {
				c.Inconclusive(res.Hang)
			}
			return
		}
		ti := mon.Index(res.Trace)
		if kind == "joinorder" {
			var want []string
			for _, p := range recPaths(ti, "RA") {
				want = append(want, "../"+p)
			}
			b, _ := os.ReadFile(filepath.Join(res.Wd, "joined.out"))
			if strings.TrimSpace(string(b)) != strings.Join(want, ",") {
				c.Violation("order-not-preserved:joined-members", fmt.Sprintf("sub-stream members arrived as %v, the joined placeholder expanded to %q", recPaths(ti, "RA"), strings.TrimSpace(string(b))), map[string]interface{}{"spec": s, "cfg": cfg})
				return
			}
		}
		for front, behind := range pairs {
			arrived := recPaths(ti, front)
			if kind == "selector" {
				var kept []string
				for _, p := range arrived {
					if !strings.Contains(p, names[1]) {
						kept = append(kept, p)
					}
				}
				arrived = kept
			}
			var first []string
			seen := map[string]bool{}
			for _, p := range recPaths(ti, behind) {
				if !seen[p] {
					seen[p] = true
					first = append(first, p)
				}
			}
			if strings.Join(first, "\x00") != strings.Join(arrived, "\x00") {
				c.Violation("order-not-preserved:"+kind, fmt.Sprintf("%s: items arrived as %v, left (first occurrences) as %v", kind, arrived, first), map[string]interface{}{"spec": s, "cfg": cfg, "emitted": recPaths(ti, behind)})
				return
			}
		}
		c.Count("component_order_runs", 1)
		c.Nontrivial(fmt.Sprintf("comporder|%s|%d", kind, i))
	})
	run.Parallel(len(jobs), func(i int) {
		j := jobs[i]
		root := c.CaseDir()
		defer c.Drop(root)
		exp := ref.Eval(&ref.Input{Spec: j.s, Files: sourcesOf(j.s), Behav: j.bh})
		res := execSpec(c, root, j.s, j.cfg, j.bh, false, 0)
		if res.Hang != "" {
			if strings.HasPrefix(res.Hang, "deadlock") {
				c.Violation("hang-"+res.Hang, res.HangInfo, map[string]interface{}{"spec": j.s, "cfg": j.cfg})
			} else {
				c.Inconclusive(res.Hang)
			}
			return
		}
		if res.Exit != 0 || !res.Returned {
			c.Violation("exit-nonzero", fmt.Sprintf("exit %d: %s", res.Exit, tail(res.Output(), 600)), map[string]interface{}{"spec": j.s, "cfg": j.cfg})
			return
		}
		ti := mon.Index(res.Trace)
		var ps []mon.Problem
		reordered := false
		for _, st := range j.stages {
			outOf := map[string]string{}
			for _, t := range exp.ByProc[st] {
				outOf[t.In["in"].Path] = t.Outs["out"]
			}
			arrived := recPaths(ti, st+"in")
			emitted := recPaths(ti, st+"out")
			var want []string
			for _, a := range arrived {
				want = append(want, outOf[a])
			}
			if strings.Join(want, "\x00") != strings.Join(emitted, "\x00") {
				sig := "order-not-preserved"
				ws, es := append([]string{}, want...), append([]string{}, emitted...)
				sort.Strings(ws)
				sort.Strings(es)
				if strings.Join(ws, "\x00") != strings.Join(es, "\x00") {
					sig = "items-lost-or-duplicated"
				}
				ps = append(ps, mon.Problem{Sig: sig, Msg: fmt.Sprintf("process %s: inputs arrived as %v, so outputs must leave as %v, but left as %v", st, arrived, want, emitted)})
			}
			if len(arrived) != len(exp.ByProc[st]) {
				ps = append(ps, mon.Problem{Sig: "items-lost-or-duplicated", Msg: fmt.Sprintf("process %s: %d items arrived, expected %d", st, len(arrived), len(exp.ByProc[st]))})
			}
			// did completion order differ from arrival order?
			type fin struct {
				t   int64
				out string
			}
			var fins []fin
			for _, t := range exp.ByProc[st] {
				for _, e := range ti.Ends[t.Key] {
					fins = append(fins, fin{e.T, t.Outs["out"]})
				}
			}
			sort.Slice(fins, func(a, b int) bool { return fins[a].t < fins[b].t })
			var finOrder []string
			for _, f := range fins {
				finOrder = append(finOrder, f.out)
			}
			var wantExec []string
			fset := map[string]bool{}
			for _, f := range finOrder {
				fset[f] = true
			}
			for _, w := range want {
				if fset[w] {
					wantExec = append(wantExec, w)
				}
			}
			if strings.Join(finOrder, "\x00") != strings.Join(wantExec, "\x00") {
				reordered = true
			}
		}
		if j.fanin {
			merged := recPaths(ti, j.stages[0]+"in")
			for k := 0; k < 2; k++ {
				up := recPaths(ti, fmt.Sprintf("up%dout", k))
				set := map[string]bool{}
				for _, u := range up {
					set[u] = true
				}
				var proj []string
				for _, m := range merged {
					if set[m] {
						proj = append(proj, m)
					}
				}
				if strings.Join(proj, "\x00") != strings.Join(up, "\x00") {
					ps = append(ps, mon.Problem{Sig: "fan-in-permuted-upstream", Msg: fmt.Sprintf("items of upstream up%d left it as %v but appear in the merged stream as %v", k, up, proj)})
				}
			}
		}
		// an item that passes a recorder behind a non-streaming out-port of a command / Go-function process is a
		// file at that moment (the recorder stats it on reception)
		for _, cn := range j.s.Conns {
			tp, _ := spec.SplitPort(cn.To)
			fp, fport := spec.SplitPort(cn.From)
			rp, up := j.s.Proc(tp), j.s.Proc(fp)
			if rp == nil || up == nil || rp.Kind != spec.KRecorder || (up.Kind != spec.KCmd && up.Kind != spec.KGoFunc) || strings.Contains(up.Cmd, "{os:"+fport) {
				continue
			}
			for _, e := range ti.Recs[tp] {
				if !e.Exists {
					ps = append(ps, mon.Problem{Sig: "item-forwarded-before-it-exists", Msg: fmt.Sprintf("%s left %s but no file existed at that path at that moment", e.Path, cn.From)})
				}
				c.Count("items_stat_on_reception", 1)
			}
		}
		if len(ps) > 0 {
			for _, sig := range sigSet(ps) {
				c.Violation(sig, strings.Join(mon.Summarize(ps, 4), "\n  "), map[string]interface{}{"spec": j.s, "cfg": j.cfg, "behav": j.bh, "problems": mon.Summarize(ps, 20)})
			}
			return
		}
		c.Count("stages_checked", len(j.stages))
		if reordered {
			c.Nontrivial(fmt.Sprintf("%d|%v|%s", len(j.stages), j.cfg, mon.InterleavingSig(res.Events)))
			c.Count("runs_with_completion_order_differing_from_arrival", 1)
		}
		if i%6 == 0 {
			c.Sample(map[string]interface{}{"stages": len(j.stages), "fan_in": j.fanin, "items": len(recPaths(ti, j.stages[0]+"in")), "cfg": j.cfg, "completion_order_differed": reordered})
		}
	})
	c08edgeConfigs(c)
	c08duplicates(c)
	c08mixedStream(c)
	c08pileup(c)
	c.Finish()
}

// c08edgeConfigs: (a) unbuffered connections (SCIPIPE_BUFSIZE=0) with a process that has two out-ports, each read by
// a recorder of its own, later tasks finishing long before earlier ones; (b) a parameter out-port connected to the
// parameter in-ports of two processes, more values than buffer slots, one receiver slower than the other: the tasks of
// each receiver are created, and their outputs leave, in the order the values were sent.
func c08edgeConfigs(c *chk.Ctx) {
	run.Parallel(c.Pick(6, 24), func(i int) {
		root := c.CaseDir()
		defer c.Drop(root)
		n := 6 + i%4
		s := &spec.Spec{Name: fmt.Sprintf("unbuffered%d", i), MaxTasks: n, Sources: map[string]string{}}
		src := &spec.Proc{Name: "src", Kind: spec.KFileSource}
		for k := 0; k < n; k++ {
			f := fmt.Sprintf("ub_%02d.txt", (k*5+i)%n)
			src.Files = append(src.Files, f)
			s.Sources[f] = f
		}
		s.Procs = append(s.Procs, src, &spec.Proc{Name: "RIN", Kind: spec.KRecorder},
			&spec.Proc{Name: "P", Kind: spec.KCmd, Cmd: spec.BuildCmd("P", []spec.PortDecl{{Name: "in"}}, []spec.PortDecl{{Name: "a"}, {Name: "b"}}, nil, nil, nil)},
			&spec.Proc{Name: "RA", Kind: spec.KRecorder}, &spec.Proc{Name: "RB", Kind: spec.KRecorder, DelayMS: []int{0, 20}[i%2]})
		s.Conns = append(s.Conns, &spec.Conn{From: "src.out", To: "RIN.in"}, &spec.Conn{From: "RIN.out", To: "P.in"}, &spec.Conn{From: "P.a", To: "RA.in"}, &spec.Conn{From: "P.b", To: "RB.in"})
		exp := evalRef(s, nil)
		if exp.Err != "" {
			c.Broken("reference cannot evaluate the unbuffered shape: " + exp.Err)
		}
		bh := vproto.Behaviours{}
		for k, t := range exp.ByProc["P"] {
			bh[t.Key] = map[string]string{"sleep": fmt.Sprint(10 + 25*(n-k))}
		}
		cfg := Cfg{Buf: -1, Procs: []int{2, 4}[i%2], NoHooks: i%2 == 0}
		desc := map[string]interface{}{"spec": s, "cfg": cfg, "behav": bh, "SCIPIPE_BUFSIZE": 0}
		res := execSpec(c, root, s, cfg, bh, false, 0)
		if res.Hang != "" {
			if strings.HasPrefix(res.Hang, "deadlock") {
				c.Violation("unbuffered-hang", res.Hang+"\n"+res.HangInfo, desc)
			} else {
				c.Inconclusive(res.Hang)
			}
			return
		}
		if res.Exit != 0 || !res.Returned {
			c.Violation("unbuffered-run-failed", fmt.Sprintf("exit %d: %s", res.Exit, tail(res.Output(), 500)), desc)
			return
		}
		ti := mon.Index(res.Trace)
		arr := recPaths(ti, "RIN")
		for _, pr := range [][2]string{{"RA", "a"}, {"RB", "b"}} {
			got := recPaths(ti, pr[0])
			var want []string
			for _, a := range arr {
				for _, t := range exp.ByProc["P"] {
					if t.In["in"].Path == a {
						want = append(want, t.Outs[pr[1]])
					}
				}
			}
			if strings.Join(got, " ") != strings.Join(want, " ") {
				c.Violation("order-not-preserved:unbuffered-two-out-ports", fmt.Sprintf("inputs arrived as %v, so port %s must emit %v, but emitted %v", arr, pr[1], want, got), desc)
				return
			}
		}
		c.Count("unbuffered_runs", 1)
		c.Nontrivial(fmt.Sprintf("unbuffered|%d|%v", n, cfg))
	})
	run.Parallel(c.Pick(8, 30), func(i int) {
		root := c.CaseDir()
		defer c.Drop(root)
		n := 8 + i%5
		buf := []int{1, 2, 3}[i%3]
		s := &spec.Spec{Name: fmt.Sprintf("paramfanout%d", i), MaxTasks: 4, Sources: map[string]string{}}
		ps := &spec.Proc{Name: "ps", Kind: spec.KParamSource}
		for k := 0; k < n; k++ {
			ps.Values = append(ps.Values, fmt.Sprintf("v%02d", (k*7+i)%n))
		}
		s.Procs = append(s.Procs, ps,
			&spec.Proc{Name: "QA", Kind: spec.KCmd, Cmd: spec.BuildCmd("QA", nil, []spec.PortDecl{{Name: "out"}}, []string{"v"}, nil, nil), Outs: []*spec.Out{{Port: "out", Pattern: "qa_{p:v}.out"}}},
			&spec.Proc{Name: "QB", Kind: spec.KCmd, Cmd: spec.BuildCmd("QB", nil, []spec.PortDecl{{Name: "out"}}, []string{"v"}, nil, nil), Outs: []*spec.Out{{Port: "out", Pattern: "qb_{p:v}.out"}}},
			&spec.Proc{Name: "RA", Kind: spec.KRecorder}, &spec.Proc{Name: "RB", Kind: spec.KRecorder})
		s.Conns = append(s.Conns, &spec.Conn{From: "ps.out", To: "QA.v", Param: true}, &spec.Conn{From: "ps.out", To: "QB.v", Param: true}, &spec.Conn{From: "QA.out", To: "RA.in"}, &spec.Conn{From: "QB.out", To: "RB.in"})
		// one receiver is slow (its parameter in-port fills up), the other one quick; which one varies
		slow, quick := "QA", "QB"
		if i%2 == 1 {
			slow, quick = "QB", "QA"
		}
		bh := vproto.Behaviours{slow: {"sleep": "60"}, quick: {"sleep": "3"}}
		cfg := Cfg{Buf: buf, Procs: []int{2, 4}[i%2], MaxTasks: []int{2, 4}[(i/2)%2], NoHooks: i%2 == 0}
		desc := map[string]interface{}{"spec": s, "cfg": cfg, "behav": bh}
		res := execSpec(c, root, s, cfg, bh, false, 0)
		if res.Hang != "" {
			if strings.HasPrefix(res.Hang, "deadlock") {
				c.Violation("paramfanout-hang", res.Hang+"\n"+res.HangInfo, desc)
			} else {
				c.Inconclusive(res.Hang)
			}
			return
		}
		if res.Exit != 0 || !res.Returned {
			c.Violation("paramfanout-run-failed", fmt.Sprintf("exit %d: %s", res.Exit, tail(res.Output(), 500)), desc)
			return
		}
		ti := mon.Index(res.Trace)
		for _, pr := range [][2]string{{"RA", "qa_"}, {"RB", "qb_"}} {
			got := recPaths(ti, pr[0])
			var want []string
			for _, v := range ps.Values {
				want = append(want, pr[1]+v+".out")
			}
			if strings.Join(got, " ") != strings.Join(want, " ") {
				c.Violation("order-not-preserved:parameter-fan-out", fmt.Sprintf("the parameter source sent %v to both receivers, so %s must see %v, but saw %v", ps.Values, pr[0], want, got), desc)
				return
			}
		}
		c.Count("param_fanout_runs", 1)
		c.Nontrivial(fmt.Sprintf("paramfanout|%d|%v", n, cfg))
	})
}

// c08duplicates: the same input set reaches a process twice in one run, the second time when the first task has
// executed but is still waiting in the queue behind a slow head: the repetition (skipped, its output exists) leaves
// the out-port where it was received, not where its first occurrence is.
func c08duplicates(c *chk.Ctx) {
	run.Parallel(c.Pick(3, 9), func(i int) {
		root := c.CaseDir()
		defer c.Drop(root)
		s := &spec.Spec{Name: "duporder", MaxTasks: 4, Sources: map[string]string{"da.txt": "a\n", "dx.txt": "x\n", "db.txt": "b\n", "dc.txt": "c\n"}}
		files := [][]string{{"da.txt", "dx.txt", "db.txt", "dx.txt"}, {"da.txt", "dx.txt", "db.txt", "dc.txt", "dx.txt", "db.txt"}, {"da.txt", "dx.txt", "dx.txt", "db.txt"}}[i%3]
		s.Procs = append(s.Procs, &spec.Proc{Name: "src", Kind: spec.KFileSource, Files: files}, &spec.Proc{Name: "RIN", Kind: spec.KRecorder, DelayMS: 350},
			&spec.Proc{Name: "P", Kind: spec.KCmd, Cmd: spec.BuildCmd("P", []spec.PortDecl{{Name: "in"}}, []spec.PortDecl{{Name: "out"}}, nil, nil, nil), Outs: []*spec.Out{{Port: "out", Pattern: "{i:in|basename}.P.out"}}},
			&spec.Proc{Name: "ROUT", Kind: spec.KRecorder})
		s.Conns = append(s.Conns, &spec.Conn{From: "src.out", To: "RIN.in"}, &spec.Conn{From: "RIN.out", To: "P.in"}, &spec.Conn{From: "P.out", To: "ROUT.in"})
		// the first task is slow: everything else queues behind it
		bh := vproto.Behaviours{vproto.TaskKey("P", []vproto.KV{{K: "in", V: "da.txt"}}, nil, nil): {"sleep": fmt.Sprint(350*len(files) + 400)}}
		cfg := Cfg{Buf: []int{1, 128}[i%2], Procs: 4, NoHooks: i%2 == 1}
		desc := map[string]interface{}{"inputs_in_order": files, "cfg": cfg, "spec": s, "behav": bh}
		res := execSpec(c, root, s, cfg, bh, false, 0)
		if res.Hang != "" {
			if strings.HasPrefix(res.Hang, "deadlock") {
				c.Violation("duplicates-hang", res.Hang, desc)
			} else {
				c.Inconclusive(res.Hang)
			}
			return
		}
		if res.Exit != 0 || !res.Returned {
			// decided on the command trace, not on the wording of the library's message: a repeated input whose first
			// occurrence had started and not yet ended when the run stopped
			stillRunning := false
			tix := mon.Index(res.Trace)
			for _, f := range []string{"dx.txt", "db.txt"} {
				k := vproto.TaskKey("P", []vproto.KV{{K: "in", V: f}}, nil, nil)
				if len(tix.Starts[k]) > len(tix.Ends[k]) {
					stillRunning = true
				}
			}
			if stillRunning || strings.Contains(res.Output(), "Existing temp folders found") {
				// the repetition arrived while its first occurrence was still executing (a loaded machine): the library
				// refuses that, and the case says nothing about order
				c.Inconclusive("duplicate input arrived while its first occurrence was still executing")
				return
			}
			c.Violation("duplicates-run-failed", fmt.Sprintf("exit %d: %s", res.Exit, tail(res.Output(), 400)), desc)
			return
		}
		ti := mon.Index(res.Trace)
		arr, got := recPaths(ti, "RIN"), recPaths(ti, "ROUT")
		var want []string
		for _, a := range arr {
			want = append(want, a+".P.out")
		}
		if strings.Join(got, " ") != strings.Join(want, " ") {
			c.Violation("order-not-preserved:repeated-input-set", fmt.Sprintf("inputs arrived as %v, so the out-port must emit %v, but emitted %v", arr, want, got), desc)
			return
		}
		c.Count("repeated_input_runs", 1)
		c.Nontrivial(fmt.Sprintf("duporder|%d|%v", i%3, cfg))
	})
}

// c08pileup: many started-but-uncollected tasks behind a slow head: 60 inputs, the fifth task takes 1.5 s, all others
// a few milliseconds, enough slots for everything to run - more than 50 finished tasks wait in the process's queue
// until the head is collected, then leave in arrival order.
func c08pileup(c *chk.Ctx) {
	run.Parallel(c.Pick(3, 6), func(i int) {
		root := c.CaseDir()
		defer c.Drop(root)
		n := 60 + 10*i
		s := &spec.Spec{Name: "pileup", MaxTasks: 16, Sources: map[string]string{}}
		src := &spec.Proc{Name: "src", Kind: spec.KFileSource}
		for k := 0; k < n; k++ {
			f := fmt.Sprintf("pu_%03d.txt", (k*37+i)%n)
			src.Files = append(src.Files, f)
			s.Sources[f] = f
		}
		s.Procs = append(s.Procs, src, &spec.Proc{Name: "RIN", Kind: spec.KRecorder},
			// (every third run: the public Spawn field of the process is false)
			&spec.Proc{Name: "P", Kind: []string{spec.KCmd, spec.KGoFunc}[i%2], NoSpawn: i%3 == 1, Cmd: spec.BuildCmd("P", []spec.PortDecl{{Name: "in"}}, []spec.PortDecl{{Name: "out"}}, nil, nil, nil), Outs: []*spec.Out{{Port: "out", Pattern: "{i:in|basename}.P.out"}}},
			&spec.Proc{Name: "ROUT", Kind: spec.KRecorder})
		s.Conns = append(s.Conns, &spec.Conn{From: "src.out", To: "RIN.in"}, &spec.Conn{From: "RIN.out", To: "P.in"}, &spec.Conn{From: "P.out", To: "ROUT.in"})
		bh := vproto.Behaviours{vproto.TaskKey("P", []vproto.KV{{K: "in", V: src.Files[4]}}, nil, nil): {"sleep": "1500"}}
		cfg := Cfg{Buf: []int{128, 1, 3}[i%3], Procs: 4, NoHooks: i%2 == 0}
		desc := map[string]interface{}{"items": n, "slow_task": src.Files[4], "cfg": cfg, "spec": s}
		res := execSpec(c, root, s, cfg, bh, false, 0)
		if res.Hang != "" {
			if strings.HasPrefix(res.Hang, "deadlock") {
				c.Violation("pileup-hang", res.Hang, desc)
			} else {
				c.Inconclusive(res.Hang)
			}
			return
		}
		if res.Exit != 0 || !res.Returned {
			c.Violation("pileup-run-failed", fmt.Sprintf("exit %d: %s", res.Exit, tail(res.Output(), 400)), desc)
			return
		}
		ti := mon.Index(res.Trace)
		arr, got := recPaths(ti, "RIN"), recPaths(ti, "ROUT")
		var want []string
		for _, a := range arr {
			want = append(want, a+".P.out")
		}
		if strings.Join(got, " ") != strings.Join(want, " ") {
			k := 0
			for k < len(got) && k < len(want) && got[k] == want[k] {
				k++
			}
			c.Violation("order-not-preserved:pile-up-behind-a-slow-head", fmt.Sprintf("%d items; the sequences differ from position %d on: emitted %v, arrival order gives %v", n, k, clipList(got[imin(k, len(got)):], 6), clipList(want[imin(k, len(want)):], 6)), desc)
			return
		}
		c.Count("pileup_runs", 1)
		c.Nontrivial(fmt.Sprintf("pileup|%d|%v", n, cfg))
	})
}

// c08mixedStream: a process with a streaming out-port and an ordinary one; its first task takes longest. The items on
// the ordinary port leave in the order of the inputs, like those of any other process.
func c08mixedStream(c *chk.Ctx) {
	run.Parallel(c.Pick(2, 6), func(i int) {
		root := c.CaseDir()
		defer c.Drop(root)
		n := 3 + i%3
		s := streamSpec("mixedorder", n, 2*n+2, false)
		prod := s.Proc("PROD")
		prod.Cmd = spec.BuildCmd("PROD", []spec.PortDecl{{Name: "in"}}, []spec.PortDecl{{Name: "out", Stream: true}, {Name: "side"}}, nil, nil, nil)
		s.Procs = append(s.Procs, &spec.Proc{Name: "ROUT", Kind: spec.KRecorder})
		s.Conns = append(s.Conns, &spec.Conn{From: "PROD.side", To: "ROUT.in"})
		bh := vproto.Behaviours{}
		for k := 0; k < n; k++ {
			bh[vproto.TaskKey("PROD", []vproto.KV{{K: "in", V: fmt.Sprintf("s%d.txt", k)}}, nil, nil)] = map[string]string{"sleep": fmt.Sprint(120 * (n - k))}
		}
		cfg := Cfg{Buf: []int{128, 1}[i%2], Procs: 4, NoHooks: i%2 == 1}
		desc := map[string]interface{}{"spec": s, "cfg": cfg, "behav": bh}
		res := execSpec(c, root, s, cfg, bh, false, 0)
		if res.Hang != "" {
			c.Inconclusive(res.Hang)
			return
		}
		if res.Exit != 0 || !res.Returned {
			c.Violation("mixed-stream-run-failed", fmt.Sprintf("exit %d: %s", res.Exit, tail(res.Output(), 400)), desc)
			return
		}
		got := recPaths(mon.Index(res.Trace), "ROUT")
		var want []string
		for k := 0; k < n; k++ {
			want = append(want, fmt.Sprintf("s%d.txt", k))
		}
		ok := len(got) == n
		for k := 0; ok && k < n; k++ {
			ok = strings.HasPrefix(filepath.Base(got[k]), want[k])
		}
		if !ok {
			c.Violation("order-not-preserved:ordinary-port-beside-streaming-port", fmt.Sprintf("inputs arrived as %v (first task slowest); the ordinary out-port emitted %v", want, got), desc)
			return
		}
		c.Count("mixed_stream_runs", 1)
		c.Nontrivial(fmt.Sprintf("mixedstream|%d|%v", n, cfg.Buf))
	})
}
