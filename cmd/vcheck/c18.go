package main

import (
	"fmt"
	"os"
	"path/filepath"
	"sort"
	"strings"

	"verif/internal/chk"
	"verif/internal/mon"
	"verif/internal/run"
	"verif/internal/spec"
	"verif/internal/vproto"
)

func init() { checks["C18"] = c18 }

func c18(args []string) {
	c := chk.New("C18", "exploration", args)
	c.Build(false)
	c.Rule("[fan-in straight into StreamToSubStream] two upstream processes wired into the component itself: every member once, each upstream's members in that upstream's order; [gaps] one to three runs whose second member is produced 10.6-13.6 s after the first (limit 1): all members, once; [carrier through MapToTags] in every fifth case the carrier of the sub-stream passes a tagging component before the joining process; [two members per producing task: both out-ports of the upstream process wired into one sub-stream] [path shapes] sub-streams whose members mix relative, parent-relative and absolute paths (command and Go-function consumers): all members, arrival order, each readable from the task's working directory, each an Upstream key; src(n) -> 1 or 2 upstream processes (random task durations) -> recorder -> StreamToSubStream -> task with {i:x|join:SEP}: sub-stream lengths {0,1,2,B,B+1,3B} for SCIPIPE_BUFSIZE B in {1,3} (thorough also 128), separators {' ', ',', ':', ' -I ', '.and.', '..'} (and, printed by printf, separators containing a newline; the same joined port used three times in one command with different modifiers; a Go function writing through OutIP().Write() in a task with a joined in-port; two sub-streams reaching one joined in-port with default output names; the same file arriving twice on one sub-stream; a sub-stream fed by a hand-written component instead of StreamToSubStream; members that carry tags of their own), maxConcurrentTasks in {1,4}; without modifiers the task command is vcmd, which opens every path it was given from its working directory; with modifiers (%.txt, s/x/y/, basename; written behind or in front of the join directive) the command is an echo and only the strings are judged; oracle: exactly one start event of the joining process, the member paths in its argv == the sequence the recorder in front of the sub-stream saw (arrival order), all readable, the recorded command contains them joined by exactly SEP with modifiers applied to each member, audit Upstream keys == member paths and each names the upstream task; plus close storms: 2-8 one-file sources fan into a StreamToSubStream, built and run 1500-3000 times inside one child process (hooks passive in most of them) - exactly one sub-stream must come out per run. distinct_nontrivial = distinct (length, B, separator, modifiers, fan-in, config) cases")
	c.Assume("with two upstream processes the arrival order is whatever the recorder saw; it is not predicted")
	rng := c.Rand("c18")
	type job struct {
		n, b  int
		sep   string
		mods  string
		fanin bool
		max   int
		cfg   Cfg
		gapMS int // the second member's producer takes this long: a gap in the sub-stream
	}
	var jobs []*job
	bs := []int{1, 3}
	if c.Thorough() {
		bs = []int{1, 3, 128}
	}
	for _, b := range bs {
		for _, n := range []int{0, 1, 2, b, b + 1, 3 * b} {
			for si, sep := range []string{"space", "comma", "colon", "dashI", "dotand", "dotdot"} {
				for mi, mods := range []string{"", "", "|%.out", "|s/U/V/", "|basename", "<|%.out", "<|basename"} { // "<": the modifier is written in front of the join directive
					if !c.Thorough() && (si+mi+n)%3 != 0 {
						continue
					}
					if b == 128 && (si+mi)%4 != 0 {
						continue
					}
					jobs = append(jobs, &job{n: n, b: b, sep: sep, mods: mods, fanin: (n+si+mi)%3 == 0 && n >= 2, max: []int{1, 4}[rng.Intn(2)],
						cfg: Cfg{Buf: b, Procs: []int{1, 2, 4}[rng.Intn(3)], Sched: fmt.Sprintf("%d,300,500", rng.Intn(1<<30))}})
				}
			}
		}
	}
	// a producer that takes more than ten seconds between two members (one task at a time): the joining task waits for
	// the end of the sub-stream, however long the gaps
	for g := 0; g < c.Pick(1, 3); g++ {
		jobs = append(jobs, &job{n: 3, b: 3, sep: []string{"comma", "space", "colon"}[g%3], mods: "", max: 1, gapMS: 10600 + 1500*g, cfg: Cfg{Buf: 3, Procs: 2, NoHooks: g%2 == 0, SoftSec: 40}})
	}
	run.Parallel(len(jobs), func(i int) {
		j := jobs[i]
		root := c.CaseDir()
		defer c.Drop(root)
		s := &spec.Spec{Name: "join", MaxTasks: j.max, Sources: map[string]string{}}
		bh := vproto.Behaviours{}
		nup := 1
		if j.fanin {
			nup = 2
		}
		lrng := c.Rand(fmt.Sprintf("c18-%d", i))
		for u := 0; u < nup; u++ {
			src := &spec.Proc{Name: fmt.Sprintf("src%d", u), Kind: spec.KFileSource}
			cnt := j.n / nup
			if u == 0 {
				cnt = j.n - (nup-1)*(j.n/nup)
			}
			for k := 0; k < cnt; k++ {
				f := fmt.Sprintf("m%d_%03d.txt", u, k)
				if i%2 == 1 {
					f = fmt.Sprintf("part%d_u%d.txt", cnt-k, u) // arrival order differs from the lexicographic order of the names
				}
				src.Files = append(src.Files, f)
				s.Sources[f] = f + "\n"
				if j.n <= 12 {
					bh[vproto.TaskKey(fmt.Sprintf("U%d", u), []vproto.KV{{K: "in", V: f}}, nil, nil)] = map[string]string{"sleep": fmt.Sprint(lrng.Intn(30))}
				}
				if j.gapMS > 0 && k == 1 {
					bh[vproto.TaskKey(fmt.Sprintf("U%d", u), []vproto.KV{{K: "in", V: f}}, nil, nil)] = map[string]string{"sleep": fmt.Sprint(j.gapMS)}
				}
			}
			un := fmt.Sprintf("U%d", u)
			s.Procs = append(s.Procs, src, &spec.Proc{Name: un, Kind: spec.KCmd, Cmd: spec.BuildCmd(un, []spec.PortDecl{{Name: "in"}}, []spec.PortDecl{{Name: "out"}}, nil, nil, nil),
				Outs: []*spec.Out{{Port: "out", Pattern: "ud/{i:in|basename}." + un + ".out"}}})
			s.Conns = append(s.Conns, &spec.Conn{From: src.Name + ".out", To: un + ".in"}, &spec.Conn{From: un + ".out", To: "REC.in"})
		}
		s.Procs = append(s.Procs, &spec.Proc{Name: "REC", Kind: spec.KRecorder}, &spec.Proc{Name: "SS", Kind: spec.KSubStream})
		sepStr := spec.JoinSep(j.sep)
		jn := &spec.Proc{Name: "JN", Kind: spec.KCmd, Outs: []*spec.Out{{Port: "out", Pattern: "joined.out"}}}
		if j.mods == "" && j.sep != "dotdot" { // (".." also occurs in the "../" every member starts with: echo form only)
			jn.Cmd = spec.BuildCmd("JN", []spec.PortDecl{{Name: "in", Join: j.sep}}, []spec.PortDecl{{Name: "out"}}, nil, nil, nil)
		} else {
			jn.Cmd = "echo J:{i:in|join:" + sepStr + j.mods + "}:J > {o:out}"
			if strings.HasPrefix(j.mods, "<") {
				jn.Cmd = "echo J:{i:in" + j.mods[1:] + "|join:" + sepStr + "}:J > {o:out}"
			}
		}
		s.Procs = append(s.Procs, jn)
		viaTags := i%5 == 3
		if viaTags {
			// the carrier of the sub-stream passes a tagging component on its way to the joining process: it still carries
			// the sub-stream when it arrives
			s.Procs = append(s.Procs, &spec.Proc{Name: "TG", Kind: spec.KMapToTags, Tags: []*spec.TagRule{{Key: "batch", Rule: "const:b1"}}})
			s.Conns = append(s.Conns, &spec.Conn{From: "REC.out", To: "SS.in"}, &spec.Conn{From: "SS.substream", To: "TG.in"}, &spec.Conn{From: "TG.out", To: "JN.in"})
		} else {
			s.Conns = append(s.Conns, &spec.Conn{From: "REC.out", To: "SS.in"}, &spec.Conn{From: "SS.substream", To: "JN.in"})
		}
		desc := map[string]interface{}{"length": j.n, "bufsize": j.b, "separator": sepStr, "modifiers": j.mods, "fan_in": j.fanin, "max": j.max, "cfg": j.cfg, "spec": s, "carrier_through_maptotags": viaTags}
		res := execSpec(c, root, s, j.cfg, bh, false, 0)
		if res.Hang != "" {
			if strings.HasPrefix(res.Hang, "deadlock") {
				c.Violation("join-hang", fmt.Sprintf("sub-stream of %d items (buffer %d): %s\n%s", j.n, j.b, res.Hang, clip(res.HangInfo, 800)), desc)
			} else {
				c.Inconclusive(res.Hang)
			}
			return
		}
		if res.Exit != 0 || !res.Returned {
			c.Violation("join-run-failed", fmt.Sprintf("length %d sep %q mods %q: exit %d: %s", j.n, sepStr, j.mods, res.Exit, tail(res.Output(), 500)), desc)
			return
		}
		ti := mon.Index(res.Trace)
		arrived := recPaths(ti, "REC")
		var ps []mon.Problem
		if len(arrived) != j.n {
			ps = append(ps, mon.Problem{Sig: "substream-length", Msg: fmt.Sprintf("%d items reached the sub-stream, expected %d", len(arrived), j.n)})
		}
		a, err := mon.LoadAudit(filepath.Join(res.Wd, "joined.out.audit.json"))
		if err != nil {
			ps = append(ps, mon.Problem{Sig: "audit-file-unreadable", Msg: err.Error()})
		}
		// expected joined string: modifiers per member, "../" prefix per member, exactly SEP between
		var exp []string
		for _, m := range arrived {
			v := m
			switch strings.TrimPrefix(j.mods, "<") {
			case "|%.out":
				v = strings.TrimSuffix(v, ".out")
			case "|s/U/V/":
				v = strings.Replace(v, "U", "V", 1)
			case "|basename":
				v = filepath.Base(v)
			}
			exp = append(exp, "../"+v)
		}
		want := strings.Join(exp, sepStr)
		if j.mods == "" && j.sep != "dotdot" {
			var starts []vproto.Event
			for _, evs := range ti.Starts {
				for _, e := range evs {
					if e.ID == "JN" {
						starts = append(starts, e)
					}
				}
			}
			if len(starts) != 1 {
				ps = append(ps, mon.Problem{Sig: "joined-task-count", Msg: fmt.Sprintf("the joining process executed %d tasks for one sub-stream", len(starts))})
			}
			for _, st := range starts {
				call := vproto.Parse(st.Argv)
				var got []string
				for _, m := range call.Joined {
					got = append(got, vproto.NormIn(m))
				}
				if strings.Join(got, "\x00") != strings.Join(arrived, "\x00") {
					sig := "joined-paths-order"
					gs, as := append([]string{}, got...), append([]string{}, arrived...)
					sort.Strings(gs)
					sort.Strings(as)
					if strings.Join(gs, "\x00") != strings.Join(as, "\x00") {
						sig = "joined-paths-set"
					}
					ps = append(ps, mon.Problem{Sig: sig, Msg: fmt.Sprintf("command received %v, the sub-stream carried %v (arrival order)", got, arrived)})
				}
				for _, e := range ti.Ends[st.Key] {
					if e.Status != 0 {
						ps = append(ps, mon.Problem{Sig: "joined-path-unresolvable", Msg: "the joined task could not read a member: " + e.Note})
					}
				}
			}
			if a != nil {
				k := strings.Index(a.Command, " -- ")
				got := ""
				if k >= 0 {
					got = a.Command[k+4:]
				} else if strings.HasSuffix(a.Command, " --") {
					got = ""
				}
				if got != want {
					ps = append(ps, mon.Problem{Sig: "joined-string", Msg: fmt.Sprintf("placeholder expanded to %q, expected %q", got, want)})
				}
			}
		} else {
			b, _ := os.ReadFile(filepath.Join(res.Wd, "joined.out"))
			got := strings.TrimSuffix(string(b), "\n")
			w := "J:" + want + ":J"
			// echo collapses nothing here: separators contain single spaces only
			if got != w {
				ps = append(ps, mon.Problem{Sig: "joined-string", Msg: fmt.Sprintf("command printed %q, expected %q", got, w)})
			}
			if a != nil && !strings.Contains(a.Command, w) {
				ps = append(ps, mon.Problem{Sig: "joined-string", Msg: fmt.Sprintf("recorded command %q does not contain %q", a.Command, w)})
			}
		}
		if a != nil {
			var ks []string
			for k, u := range a.Upstream {
				ks = append(ks, k)
				if !strings.HasPrefix(u.ProcessName, "U") {
					ps = append(ps, mon.Problem{Sig: "joined-audit-upstream-record", Msg: fmt.Sprintf("Upstream[%s] names process %q, not the upstream task", k, u.ProcessName)})
				}
			}
			sort.Strings(ks)
			as := append([]string{}, arrived...)
			sort.Strings(as)
			if strings.Join(ks, "\x00") != strings.Join(as, "\x00") {
				ps = append(ps, mon.Problem{Sig: "joined-audit-upstream-keys", Msg: fmt.Sprintf("audit Upstream keys %v, sub-stream members %v", ks, as)})
			}
		}
		if len(ps) > 0 {
			for _, sig := range sigSet(ps) {
				desc["problems"] = mon.Summarize(ps, 10)
				c.Violation(sig, fmt.Sprintf("length %d, buffer %d, sep %q, mods %q, fan-in %v:\n  %s", j.n, j.b, sepStr, j.mods, j.fanin, strings.Join(mon.Summarize(ps, 3), "\n  ")), desc)
			}
			return
		}
		c.Count("members_compared", j.n)
		c.Nontrivial(fmt.Sprintf("%d|%d|%s|%s|%v|%v", j.n, j.b, j.sep, j.mods, j.fanin, j.cfg))
		if i%10 == 0 {
			c.Sample(map[string]interface{}{"length": j.n, "bufsize": j.b, "separator": sepStr, "modifiers": j.mods, "fan_in": j.fanin, "arrival_order": clipList(arrived, 6), "expanded": clip(want, 200)})
		}
	})
	c18two(c)
	c18fanInDirect(c)
	c18corners(c)
	c18pathShapes(c)
	closeStorm(c, "substream")
	c.Finish()
}

// c18two: one process consuming two sub-streams through two joined
// in-ports; each placeholder must expand to the members of its own sub-stream.
func c18two(c *chk.Ctx) {
	type job struct {
		na, nb int
		sa, sb string
		b      int
		cfg    Cfg
	}
	rng := c.Rand("c18two")
	var jobs []*job
	lens := [][2]int{{2, 3}, {0, 2}, {3, 0}, {1, 1}, {4, 2}, {0, 0}}
	if c.Thorough() {
		lens = append(lens, [2]int{7, 1}, [2]int{1, 9}, [2]int{5, 5}, [2]int{12, 3})
	}
	for li, l := range lens {
		for _, b := range []int{1, 3} {
			if !c.Thorough() && (li+b)%2 != 0 {
				continue
			}
			seps := [][2]string{{"comma", "space"}, {"colon", "colon"}, {"dashI", "comma"}}[(li+b)%3]
			jobs = append(jobs, &job{na: l[0], nb: l[1], sa: seps[0], sb: seps[1], b: b,
				cfg: Cfg{Buf: b, Procs: []int{1, 2, 4}[rng.Intn(3)], Sched: fmt.Sprintf("%d,300,500", rng.Intn(1<<30))}})
		}
	}
	run.Parallel(len(jobs), func(i int) {
		j := jobs[i]
		root := c.CaseDir()
		defer c.Drop(root)
		s := &spec.Spec{Name: "join2", MaxTasks: 4, Sources: map[string]string{}}
		for _, side := range []struct {
			tag string
			n   int
		}{{"a", j.na}, {"b", j.nb}} {
			src := &spec.Proc{Name: "src" + side.tag, Kind: spec.KFileSource}
			for k := 0; k < side.n; k++ {
				f := fmt.Sprintf("%s%02d.txt", side.tag, k)
				src.Files = append(src.Files, f)
				s.Sources[f] = f + "\n"
			}
			un := "U" + side.tag
			s.Procs = append(s.Procs, src, &spec.Proc{Name: un, Kind: spec.KCmd, Cmd: spec.BuildCmd(un, []spec.PortDecl{{Name: "in"}}, []spec.PortDecl{{Name: "out"}}, nil, nil, nil),
				Outs: []*spec.Out{{Port: "out", Pattern: "ud/{i:in|basename}." + un + ".out"}}},
				&spec.Proc{Name: "REC" + side.tag, Kind: spec.KRecorder}, &spec.Proc{Name: "SS" + side.tag, Kind: spec.KSubStream})
			s.Conns = append(s.Conns, &spec.Conn{From: src.Name + ".out", To: un + ".in"}, &spec.Conn{From: un + ".out", To: "REC" + side.tag + ".in"},
				&spec.Conn{From: "REC" + side.tag + ".out", To: "SS" + side.tag + ".in"}, &spec.Conn{From: "SS" + side.tag + ".substream", To: "JN." + side.tag})
		}
		sepA, sepB := spec.JoinSep(j.sa), spec.JoinSep(j.sb)
		s.Procs = append(s.Procs, &spec.Proc{Name: "JN", Kind: spec.KCmd, Outs: []*spec.Out{{Port: "out", Pattern: "joined.out"}},
			Cmd: "echo A:{i:a|join:" + sepA + "}:A B:{i:b|join:" + sepB + "}:B > {o:out}"})
		desc := map[string]interface{}{"lengths": []int{j.na, j.nb}, "bufsize": j.b, "separators": []string{sepA, sepB}, "cfg": j.cfg, "spec": s}
		res := execSpec(c, root, s, j.cfg, nil, false, 0)
		if res.Hang != "" {
			if strings.HasPrefix(res.Hang, "deadlock") {
				c.Violation("join-hang", fmt.Sprintf("two sub-streams of %d and %d items (buffer %d): %s\n%s", j.na, j.nb, j.b, res.Hang, clip(res.HangInfo, 800)), desc)
			} else {
				c.Inconclusive(res.Hang)
			}
			return
		}
		if res.Exit != 0 || !res.Returned {
			c.Violation("join-run-failed", fmt.Sprintf("two joined ports, lengths %d/%d: exit %d: %s", j.na, j.nb, res.Exit, tail(res.Output(), 500)), desc)
			return
		}
		ti := mon.Index(res.Trace)
		ea, eb := recPaths(ti, "RECa"), recPaths(ti, "RECb")
		pre := func(l []string) []string {
			var o []string
			for _, m := range l {
				o = append(o, "../"+m)
			}
			return o
		}
		want := "A:" + strings.Join(pre(ea), sepA) + ":A B:" + strings.Join(pre(eb), sepB) + ":B"
		b, _ := os.ReadFile(filepath.Join(res.Wd, "joined.out"))
		got := strings.TrimSuffix(string(b), "\n")
		if len(ea) != j.na || len(eb) != j.nb {
			c.Violation("substream-length", fmt.Sprintf("%d and %d items reached the sub-streams, expected %d and %d", len(ea), len(eb), j.na, j.nb), desc)
			return
		}
		if got != want {
			c.Violation("joined-string", fmt.Sprintf("two joined in-ports: command printed %q, expected %q", got, want), desc)
			return
		}
		a, err := mon.LoadAudit(filepath.Join(res.Wd, "joined.out.audit.json"))
		if err != nil {
			c.Violation("audit-file-unreadable", err.Error(), desc)
			return
		}
		var ks []string
		for k := range a.Upstream {
			ks = append(ks, k)
		}
		sort.Strings(ks)
		as := append(append([]string{}, ea...), eb...)
		sort.Strings(as)
		if strings.Join(ks, "\x00") != strings.Join(as, "\x00") {
			c.Violation("joined-audit-upstream-keys", fmt.Sprintf("two joined in-ports: audit Upstream keys %v, sub-stream members %v", ks, as), desc)
			return
		}
		c.Count("members_compared", j.na+j.nb)
		c.Nontrivial(fmt.Sprintf("two|%d|%d|%d|%s|%s|%v", j.na, j.nb, j.b, j.sa, j.sb, j.cfg))
		if i%4 == 0 {
			c.Sample(map[string]interface{}{"two_joined_ports": true, "lengths": []int{j.na, j.nb}, "separators": []string{sepA, sepB}, "expanded": clip(want, 200)})
		}
	})
}

func clipList(l []string, n int) []string {
	if len(l) > n {
		return append(append([]string{}, l[:n]...), fmt.Sprintf("... (%d)", len(l)))
	}
	return l
}

// c18corners: separators that contain a newline (a file list, one path per line) and the same joined in-port
// used twice in one command with different modifiers.
func c18corners(c *chk.Ctx) {
	type job struct {
		n    int
		kind string
		b    int
	}
	var jobs []*job
	for _, n := range []int{1, 3, 5} {
		for _, kind := range []string{"newline", "newline-space", "twice", "gofunc", "two-substreams", "duplicate-members", "manual-substream", "tagged-members", "two-ports-one-task"} {
			jobs = append(jobs, &job{n, kind, []int{1, 3}[n%2]})
		}
	}
	run.Parallel(len(jobs), func(i int) {
		j := jobs[i]
		root := c.CaseDir()
		defer c.Drop(root)
		s := &spec.Spec{Name: "joincorner", MaxTasks: 4, Sources: map[string]string{}}
		src := &spec.Proc{Name: "src", Kind: spec.KFileSource}
		for k := 0; k < j.n; k++ {
			f := fmt.Sprintf("q%02d.txt", k)
			src.Files = append(src.Files, f)
			s.Sources[f] = f + "\n"
		}
		s.Procs = append(s.Procs, src, &spec.Proc{Name: "U", Kind: spec.KCmd, Cmd: spec.BuildCmd("U", []spec.PortDecl{{Name: "in"}}, []spec.PortDecl{{Name: "out"}}, nil, nil, nil),
			Outs: []*spec.Out{{Port: "out", Pattern: "ud/{i:in|basename}.U.out"}}},
			&spec.Proc{Name: "REC", Kind: spec.KRecorder}, &spec.Proc{Name: "SS", Kind: spec.KSubStream})
		jn := &spec.Proc{Name: "JN", Kind: spec.KCmd, Outs: []*spec.Out{{Port: "out", Pattern: "joined.out"}}}
		var sep string
		switch j.kind {
		case "newline":
			sep = "\n"
			jn.Cmd = "printf '%s\\n' \"{i:in|join:\n}\" > {o:out}"
		case "newline-space":
			sep = " \n"
			jn.Cmd = "printf '%s\\n' \"{i:in|join: \n}\" > {o:out}"
		case "twice":
			sep = ","
			jn.Cmd = "echo J:{i:in|join:,}:J K:{i:in|join:,|s/U/V/}:K L:{i:in|join:,|basename}:L > {o:out}"
		case "tagged-members":
			// every member carries a tag of its own (MapToTags in front of the sub-stream)
			sep = ","
			jn.Cmd = "echo {i:in|join:,} > {o:out}"
		case "two-ports-one-task":
			// every upstream task has two out-ports and both are wired into the sub-stream: two members per producing task
			sep = ","
			jn.Cmd = "echo {i:in|join:,} > {o:out}"
		case "manual-substream":
			// the sub-stream is built by a hand-written component that feeds the carrier IP's SubStream port itself
			sep = " "
			jn.Cmd = "echo {i:in|join: } > {o:out}"
		case "duplicate-members":
			// the same file arrives twice on the sub-stream (the source lists it twice): members keep their arrival order
			sep = ","
			jn.Cmd = "echo {i:in|join:,} > {o:out}"
		case "gofunc":
			// a Go function that writes its output through OutIP().Write() in a task with a joined in-port
			jn.Kind = spec.KGoFunc
			jn.WriteAPI = true
			jn.Cmd = spec.BuildCmd("JN", []spec.PortDecl{{Name: "in", Join: "space"}}, []spec.PortDecl{{Name: "out"}}, nil, nil, nil)
		case "two-substreams":
			// two sub-streams reach the same joined in-port: two tasks, with default output names
			jn.Cmd = spec.BuildCmd("JN", []spec.PortDecl{{Name: "in", Join: "space"}}, []spec.PortDecl{{Name: "out"}}, nil, nil, nil)
			jn.Outs = nil
		}
		s.Procs = append(s.Procs, jn)
		s.Conns = append(s.Conns, &spec.Conn{From: "src.out", To: "U.in"}, &spec.Conn{From: "U.out", To: "REC.in"}, &spec.Conn{From: "REC.out", To: "SS.in"}, &spec.Conn{From: "SS.substream", To: "JN.in"})
		if j.kind == "manual-substream" {
			s.Proc("SS").Kind = spec.KManualSub
		}
		if j.kind == "two-ports-one-task" {
			u := s.Proc("U")
			u.Cmd = spec.BuildCmd("U", []spec.PortDecl{{Name: "in"}}, []spec.PortDecl{{Name: "out"}, {Name: "res"}}, nil, nil, nil)
			u.Outs = append(u.Outs, &spec.Out{Port: "res", Pattern: "ud/{i:in|basename}.U.res"})
			s.Conns = append(s.Conns, &spec.Conn{From: "U.res", To: "REC.in"})
		}
		if j.kind == "tagged-members" {
			s.Procs = append(s.Procs, &spec.Proc{Name: "T", Kind: spec.KMapToTags, Tags: []*spec.TagRule{{Key: "sample", Rule: "idx"}}})
			for _, cn := range s.Conns {
				if cn.From == "U.out" {
					cn.To = "T.in"
				}
			}
			s.Conns = append(s.Conns, &spec.Conn{From: "T.out", To: "REC.in"})
		}
		if j.kind == "duplicate-members" {
			// sources straight into the recorder; the first file once more after the second and at the end
			fs := append([]string{}, src.Files...)
			fs = append(fs[:imin(2, len(fs))], append([]string{fs[0]}, fs[imin(2, len(fs)):]...)...)
			fs = append(fs, fs[0])
			src.Files = fs
			s.Procs = []*spec.Proc{src, s.Proc("REC"), s.Proc("SS"), jn}
			s.Conns = []*spec.Conn{{From: "src.out", To: "REC.in"}, {From: "REC.out", To: "SS.in"}, {From: "SS.substream", To: "JN.in"}}
		}
		if j.kind == "two-substreams" {
			s.Procs = append(s.Procs, &spec.Proc{Name: "U2", Kind: spec.KCmd, Cmd: spec.BuildCmd("U2", []spec.PortDecl{{Name: "in"}}, []spec.PortDecl{{Name: "out"}}, nil, nil, nil),
				Outs: []*spec.Out{{Port: "out", Pattern: "ud2/{i:in|basename}.U2.out"}}}, &spec.Proc{Name: "SS2", Kind: spec.KSubStream})
			s.Conns = append(s.Conns, &spec.Conn{From: "src.out", To: "U2.in"}, &spec.Conn{From: "U2.out", To: "SS2.in"}, &spec.Conn{From: "SS2.substream", To: "JN.in"})
		}
		desc := map[string]interface{}{"corner": j.kind, "length": j.n, "bufsize": j.b, "spec": s}
		res := execSpec(c, root, s, Cfg{Buf: j.b, Procs: 2}, nil, false, 0)
		if res.Hang != "" {
			if strings.HasPrefix(res.Hang, "deadlock") {
				c.Violation("join-hang", fmt.Sprintf("%s, %d members: %s", j.kind, j.n, res.Hang), desc)
			} else {
				c.Inconclusive(res.Hang)
			}
			return
		}
		if res.Exit != 0 || !res.Returned {
			c.Violation("join-run-failed", fmt.Sprintf("%s, %d members: exit %d: %s", j.kind, j.n, res.Exit, tail(res.Output(), 500)), desc)
			return
		}
		arrived := recPaths(mon.Index(res.Trace), "REC")
		if j.kind == "gofunc" || j.kind == "two-substreams" {
			ti := mon.Index(res.Trace)
			want := map[string]int{"gofunc": 1, "two-substreams": 2}[j.kind]
			outPaths := map[string]bool{}
			n := 0
			for _, evs := range ti.Starts {
				for _, e := range evs {
					if e.ID != "JN" {
						continue
					}
					n++
					for _, kv := range vproto.Parse(e.Argv).Outs {
						outPaths[kv.V] = true
					}
				}
			}
			var ps []string
			if n != want {
				ps = append(ps, fmt.Sprintf("the joining process executed %d task(s), expected %d", n, want))
			}
			if j.kind == "two-substreams" && len(outPaths) != 2 {
				ps = append(ps, fmt.Sprintf("the two tasks were given %d distinct output path(s): %v", len(outPaths), outPaths))
			}
			for p := range outPaths {
				if _, err := os.Stat(filepath.Join(res.Wd, p)); err != nil {
					ps = append(ps, "output "+p+" of the joining process does not exist")
				} else if a, err := mon.LoadAudit(filepath.Join(res.Wd, p+".audit.json")); err != nil || len(a.Upstream) != j.n {
					ps = append(ps, fmt.Sprintf("audit file of %s unreadable or without the %d members as Upstream (%v)", p, j.n, err))
				}
			}
			if j.kind == "gofunc" {
				if _, err := os.Stat(filepath.Join(res.Wd, "joined.out")); err != nil {
					ps = append(ps, "joined.out written by the Go function through OutIP().Write() does not exist")
				}
			}
			if len(ps) > 0 {
				c.Violation("joined-task-outputs", j.kind+": "+strings.Join(ps, "; "), desc)
				return
			}
			c.Count("members_compared", j.n)
			c.Nontrivial(fmt.Sprintf("corner|%s|%d|%d", j.kind, j.n, j.b))
			return
		}
		var plain, subst, base []string
		for _, m := range arrived {
			plain = append(plain, "../"+m)
			subst = append(subst, "../"+strings.Replace(m, "U", "V", 1))
			base = append(base, "../"+filepath.Base(m))
		}
		want := strings.Join(plain, sep) + "\n"
		nmembers := j.n
		if j.kind == "duplicate-members" {
			nmembers = j.n + 2
		}
		if j.kind == "two-ports-one-task" {
			nmembers = 2 * j.n
		}
		if j.kind == "twice" {
			want = "J:" + strings.Join(plain, ",") + ":J K:" + strings.Join(subst, ",") + ":K L:" + strings.Join(base, ",") + ":L\n"
		}
		b, _ := os.ReadFile(filepath.Join(res.Wd, "joined.out"))
		if string(b) != want || len(arrived) != nmembers {
			c.Violation("joined-string", fmt.Sprintf("%s, %d members: the command printed %q, expected %q", j.kind, j.n, clip(string(b), 300), clip(want, 300)), desc)
			return
		}
		a, err := mon.LoadAudit(filepath.Join(res.Wd, "joined.out.audit.json"))
		if err != nil {
			c.Violation("audit-file-unreadable", err.Error(), desc)
			return
		}
		var ks []string
		for k := range a.Upstream {
			ks = append(ks, k)
		}
		sort.Strings(ks)
		// Upstream is keyed by path: a file that arrived twice is one key
		seenM := map[string]bool{}
		var as []string
		for _, m := range arrived {
			if !seenM[m] {
				seenM[m] = true
				as = append(as, m)
			}
		}
		sort.Strings(as)
		if strings.Join(ks, "\x00") != strings.Join(as, "\x00") {
			c.Violation("joined-audit-upstream-keys", fmt.Sprintf("%s: audit Upstream keys %v, sub-stream members %v", j.kind, ks, as), desc)
			return
		}
		c.Count("members_compared", j.n)
		c.Nontrivial(fmt.Sprintf("corner|%s|%d|%d", j.kind, j.n, j.b))
	})
}

func imin(a, b int) int {
	if a < b {
		return a
	}
	return b
}

// c18pathShapes: the members of one sub-stream mix relative, parent-relative and absolute paths; the command must
// get all of them in arrival order, each resolvable from the task's working directory.
func c18pathShapes(c *chk.Ctx) {
	run.Parallel(c.Pick(6, 18), func(i int) {
		root := c.CaseDir()
		defer c.Drop(root)
		s := &spec.Spec{Name: "joinpaths", MaxTasks: 3, Sources: map[string]string{}, Dirs: []string{"../shared", root + "/abs/in"}}
		src := &spec.Proc{Name: "src", Kind: spec.KFileSource}
		n := 3 + i%4
		for k := 0; k < n; k++ {
			var f string
			switch (k + i) % 3 {
			case 0:
				f = fmt.Sprintf("rel/m%02d.txt", k)
			case 1:
				f = fmt.Sprintf("%s/abs/in/m%02d.txt", root, k)
			default:
				f = fmt.Sprintf("../shared/m%02d.txt", k)
			}
			src.Files = append(src.Files, f)
			s.Sources[f] = fmt.Sprintf("member %d\n", k)
		}
		sepName := []string{"space", "comma", "colon"}[i%3]
		s.Procs = append(s.Procs, src, &spec.Proc{Name: "REC", Kind: spec.KRecorder}, &spec.Proc{Name: "SS", Kind: spec.KSubStream},
			&spec.Proc{Name: "JN", Kind: []string{spec.KCmd, spec.KCmd, spec.KGoFunc}[i%3], Cmd: spec.BuildCmd("JN", []spec.PortDecl{{Name: "in", Join: sepName}}, []spec.PortDecl{{Name: "out"}}, nil, nil, nil),
				Outs: []*spec.Out{{Port: "out", Pattern: "joined.out"}}})
		s.Conns = append(s.Conns, &spec.Conn{From: "src.out", To: "REC.in"}, &spec.Conn{From: "REC.out", To: "SS.in"}, &spec.Conn{From: "SS.substream", To: "JN.in"})
		cfg := Cfg{Buf: []int{1, 3, 128}[i%3], Procs: 2}
		desc := map[string]interface{}{"members": src.Files, "separator": spec.JoinSep(sepName), "cfg": cfg, "spec": s}
		res := execSpec(c, root, s, cfg, nil, false, 0)
		if res.Hang != "" {
			if strings.HasPrefix(res.Hang, "deadlock") {
				c.Violation("join-hang", res.Hang, desc)
			} else {
				c.Inconclusive(res.Hang)
			}
			return
		}
		if res.Exit != 0 || !res.Returned {
			c.Violation("join-run-failed", fmt.Sprintf("members of mixed path shapes %v: exit %d: %s", src.Files, res.Exit, tail(res.Output(), 500)), desc)
			return
		}
		ti := mon.Index(res.Trace)
		arrived := recPaths(ti, "REC")
		var ps []mon.Problem
		nst := 0
		for _, evs := range ti.Starts {
			for _, st := range evs {
				if st.ID != "JN" {
					continue
				}
				nst++
				var got []string
				for _, m := range vproto.Parse(st.Argv).Joined {
					got = append(got, vproto.NormIn(m))
				}
				if strings.Join(got, "\x00") != strings.Join(arrived, "\x00") {
					ps = append(ps, mon.Problem{Sig: "joined-paths-order", Msg: fmt.Sprintf("command received %v, the sub-stream carried %v (arrival order)", got, arrived)})
				}
				for _, e := range ti.Ends[st.Key] {
					if e.Status != 0 {
						ps = append(ps, mon.Problem{Sig: "joined-path-unresolvable", Msg: "the joined task could not read a member: " + e.Note})
					}
				}
			}
		}
		if nst != 1 {
			ps = append(ps, mon.Problem{Sig: "joined-task-count", Msg: fmt.Sprintf("the joining process executed %d tasks for one sub-stream", nst)})
		}
		if a, err := mon.LoadAudit(filepath.Join(res.Wd, "joined.out.audit.json")); err != nil {
			ps = append(ps, mon.Problem{Sig: "audit-file-unreadable", Msg: err.Error()})
		} else {
			var ks []string
			for k := range a.Upstream {
				ks = append(ks, k)
			}
			sort.Strings(ks)
			as := append([]string{}, arrived...)
			sort.Strings(as)
			if strings.Join(ks, "\x00") != strings.Join(as, "\x00") {
				ps = append(ps, mon.Problem{Sig: "joined-audit-upstream-keys", Msg: fmt.Sprintf("audit Upstream keys %v, sub-stream members %v", ks, as)})
			}
		}
		if len(ps) > 0 {
			for _, sig := range sigSet(ps) {
				desc["problems"] = mon.Summarize(ps, 10)
				c.Violation(sig, "members of mixed path shapes:\n  "+strings.Join(mon.Summarize(ps, 3), "\n  "), desc)
			}
			return
		}
		c.Count("mixed_path_shape_joins", 1)
		c.Nontrivial(fmt.Sprintf("joinpaths|%d|%s|%v", n, sepName, cfg))
	})
}

// c18fanInDirect: two upstream processes are wired straight into StreamToSubStream (no recorder in between that would
// serialise them). The interleaving of the two is free, but every member arrives once and the members of one upstream
// keep their order.
func c18fanInDirect(c *chk.Ctx) {
	run.Parallel(c.Pick(4, 12), func(i int) {
		root := c.CaseDir()
		defer c.Drop(root)
		n := 5 + i%4
		s := &spec.Spec{Name: "faninsubstream", MaxTasks: 4, Sources: map[string]string{}}
		for u := 0; u < 2; u++ {
			src := &spec.Proc{Name: fmt.Sprintf("src%d", u), Kind: spec.KFileSource}
			for k := 0; k < n; k++ {
				f := fmt.Sprintf("w%d_%02d.txt", u, k)
				src.Files = append(src.Files, f)
				s.Sources[f] = f + "\n"
			}
			un := fmt.Sprintf("U%d", u)
			s.Procs = append(s.Procs, src, &spec.Proc{Name: un, Kind: spec.KCmd, Cmd: spec.BuildCmd(un, []spec.PortDecl{{Name: "in"}}, []spec.PortDecl{{Name: "out"}}, nil, nil, nil)})
			s.Conns = append(s.Conns, &spec.Conn{From: src.Name + ".out", To: un + ".in"}, &spec.Conn{From: un + ".out", To: "SS.in"})
		}
		s.Procs = append(s.Procs, &spec.Proc{Name: "SS", Kind: spec.KSubStream},
			&spec.Proc{Name: "JN", Kind: spec.KCmd, Cmd: spec.BuildCmd("JN", []spec.PortDecl{{Name: "in", Join: "space"}}, []spec.PortDecl{{Name: "out"}}, nil, nil, nil), Outs: []*spec.Out{{Port: "out", Pattern: "joined.out"}}})
		s.Conns = append(s.Conns, &spec.Conn{From: "SS.substream", To: "JN.in"})
		cfg := Cfg{Buf: []int{1, 9, 17, 3}[i%4], Procs: 4, NoHooks: i%2 == 1}
		desc := map[string]interface{}{"spec": s, "cfg": cfg, "members_per_upstream": n}
		res := execSpec(c, root, s, cfg, nil, false, 0)
		if res.Hang != "" {
			if strings.HasPrefix(res.Hang, "deadlock") {
				c.Violation("join-hang", res.Hang+"\n"+clip(res.HangInfo, 600), desc)
			} else {
				c.Inconclusive(res.Hang)
			}
			return
		}
		if res.Exit != 0 || !res.Returned {
			c.Violation("join-run-failed", fmt.Sprintf("exit %d: %s", res.Exit, tail(res.Output(), 400)), desc)
			return
		}
		ti := mon.Index(res.Trace)
		var got []string
		for _, evs := range ti.Starts {
			for _, e := range evs {
				if e.ID == "JN" {
					for _, m := range vproto.Parse(e.Argv).Joined {
						got = append(got, filepath.Base(vproto.NormIn(m)))
					}
				}
			}
		}
		var ps []mon.Problem
		if len(got) != 2*n {
			ps = append(ps, mon.Problem{Sig: "joined-paths-set", Msg: fmt.Sprintf("the joined command received %d members, the two upstreams made %d", len(got), 2*n)})
		}
		for u := 0; u < 2; u++ {
			last := -1
			seen := map[int]bool{}
			for _, m := range got {
				var uu, k int
				if _, err := fmt.Sscanf(m, "w%d_%02d.txt", &uu, &k); err != nil || uu != u {
					continue
				}
				if seen[k] {
					ps = append(ps, mon.Problem{Sig: "joined-paths-set", Msg: "member " + m + " arrived twice"})
				}
				seen[k] = true
				if k < last {
					ps = append(ps, mon.Problem{Sig: "joined-paths-order:per-upstream", Msg: fmt.Sprintf("members of upstream U%d arrived out of that upstream's order: %v", u, got)})
					break
				}
				last = k
			}
			if len(seen) != n {
				ps = append(ps, mon.Problem{Sig: "joined-paths-set", Msg: fmt.Sprintf("%d of %d members of upstream U%d arrived", len(seen), n, u)})
			}
		}
		if len(ps) > 0 {
			for _, sig := range sigSet(ps) {
				desc["problems"] = mon.Summarize(ps, 10)
				c.Violation(sig, "fan-in straight into StreamToSubStream: "+strings.Join(mon.Summarize(ps, 3), "\n  "), desc)
			}
			return
		}
		c.Count("members_compared", 2*n)
		c.Nontrivial(fmt.Sprintf("fanindirect|%d|%v", n, cfg))
	})
}
