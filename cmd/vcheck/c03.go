package main

import (
	"fmt"
	"os"
	"path/filepath"
	"strings"

	"verif/internal/chk"
	"verif/internal/gen"
	"verif/internal/mon"
	"verif/internal/ref"
	"verif/internal/run"
	"verif/internal/vproto"
)

func init() { checks["C03"] = c03 }

// cleanLeftovers removes temp directories and FIFOs below root, as the
// library's own error message asks the user to do.
func cleanLeftovers(root string) int {
	n := 0
	snap := mon.SnapRoot(root)
	for _, p := range snap.Leftovers() {
		os.RemoveAll(filepath.Join(root, p))
		n++
	}
	return n
}

// converged compares the state after recovery with the uninterrupted reference.
func converged(root string, snap run.Snapshot, exp *ref.Result, pre map[string]bool) []mon.Problem {
	var ps []mon.Problem
	want := map[string]bool{}
	for p, content := range exp.Files {
		fp := mon.RootRel(root, p)
		want[fp] = true
		e, ok := snap[fp]
		if !ok {
			ps = append(ps, mon.Problem{Sig: "recovered-file-missing", Msg: "after recovery " + p + " is missing"})
		} else if e.Sha != vproto.Sha(content) {
			ps = append(ps, mon.Problem{Sig: "recovered-file-differs", Msg: "after recovery " + p + " differs from the uninterrupted result"})
		}
	}
	for p := range exp.AuditFor {
		fp := mon.RootRel(root, p) + ".audit.json"
		if _, ok := snap[fp]; !ok {
			ps = append(ps, mon.Problem{Sig: "recovered-audit-file-missing", Msg: "after recovery " + p + ".audit.json is missing (an uninterrupted run writes it)"})
		}
	}
	for _, p := range snap.Files() {
		if pre[p] || want[p] || mon.IsAuditFile(p) || strings.Contains(p, "_scipipe_tmp") {
			continue
		}
		ps = append(ps, mon.Problem{Sig: "recovered-extra-file", Msg: "after recovery there is an additional file " + p})
	}
	for _, p := range snap.Leftovers() {
		ps = append(ps, mon.Problem{Sig: "recovered-leftover", Msg: "after recovery " + p + " is left behind"})
	}
	return ps
}

// taskFiles lists the root-relative files a task finalizes.
func taskFiles(root string, t *ref.Task) []string {
	var out []string
	for port, p := range t.Outs {
		if t.Streams[port] {
			continue
		}
		fp := mon.RootRel(root, p)
		if t.DirOut[port] {
			fp += "/data"
		}
		out = append(out, fp)
	}
	for _, ex := range t.Extras {
		out = append(out, mon.RootRel(root, ex))
	}
	return out
}

type c03Case struct {
	tc    topoCase
	label string
	key   string
	opts  map[string]string
	crash *gen.CrashPoint
	kline int
	// crash during recovery (thorough): second-level crash point index
	nested *gen.CrashPoint
	// kill at the instant the first final output path of the target task becomes visible (the runner polls the path)
	visible bool
}

func c03(args []string) {
	c := chk.New("C03", "fault_enumeration", args)
	c.Build(false)
	c.Rule("graph shapes (chain, diamond, 2-output task with two consumers, parameter fan of 6 tasks, task with additional files; commands and Go functions; plain / nested / ../ paths) x crash points of every task enumerated from a dry run's event log x in-command group kills x kills at logical trace instants x kills at the instant a large output becomes visible at its final path (plain, parent-relative and absolute paths); protocol per case: (1) crashed run, (2) if temp directories are left: re-run without cleanup must stop with non-zero status and finalize nothing wrong, (3) remove temp directories and FIFOs, re-run: must succeed, yield exactly the uninterrupted file set and bytes, and must not re-execute tasks whose outputs were already final (no start event, same inode and mtime), (4) thorough: the recovery run is itself crashed and recovered; one topology has a task whose declared output is a directory, one has tasks whose outputs are legitimately empty files, one zips two differently tagged branches, one has a process whose name is 205 bytes long, one gathers through a Concatenator with GroupByTag, one has tools that restore an old modification time on their outputs, one has a task with an out-port that exists through SetOut only (the command names that file itself). distinct_nontrivial = distinct (shape, path shape, kind, crash instant) whose crash fired, classified by the pre-recovery state (leftovers / partially finalized / clean)")
	c.Assume("cleanup = removing every _scipipe_tmp* directory and *.fifo below the working directory (what the library's error message asks for)", "audit-only leftovers (x.audit.json without x) are not temp directories and stay")
	rng := c.Rand("c03")
	var tcs []topoCase
	for _, k := range []string{"chain", "diamond", "twoout", "params", "extra", "concat", "dirout", "tagzip", "emptyout", "implicit", "longname", "concatgroup", "oldmtime"} {
		for _, sh := range []gen.PathShape{gen.ShapePlain, gen.ShapeNested, gen.ShapeParent} {
			for _, g := range []bool{false, true} {
				if k == "longname" && sh != gen.ShapePlain {
					continue
				}
				if k == "implicit" && sh == gen.ShapeParent {
					continue // the command names the file of the SetOut-only port itself, relative to its working directory
				}
				if !c.Thorough() && sh == gen.ShapeParent && g {
					continue
				}
				tcs = append(tcs, topoCase{k, sh, g, 3})
			}
		}
	}
	type dry struct {
		exp    *ref.Result
		points []gen.CrashPoint
		ntrace int
	}
	dries := make([]*dry, len(tcs))
	run.Parallel(len(tcs), func(i int) {
		root := c.CaseDir()
		defer c.Drop(root)
		tc := tcs[i]
		s := gen.Topo(tc.kind, tc.shape, tc.gof, root, tc.n)
		exp := evalRef(s, nil)
		if exp.Err != "" {
			c.Broken("reference cannot evaluate " + s.Name + ": " + exp.Err)
		}
		bh := gen.TopoBehav(tc.kind, exp)
		exp = ref.Eval(&ref.Input{Spec: s, Files: sourcesOf(s), Behav: bh})
		res := execSpec(c, root, s, Cfg{Buf: 128, Procs: 4}, bh, false, 0)
		ps := converged(root, mon.SnapRoot(root), exp, preRootSet(root, s))
		if res.Exit != 0 || len(ps) > 0 {
			c.Violation("uninterrupted-run-differs-from-reference", fmt.Sprintf("%s exit=%d %v", s.Name, res.Exit, mon.Summarize(ps, 5)), map[string]interface{}{"spec": s})
			return
		}
		dries[i] = &dry{exp, gen.CrashPoints(res.Events), len(res.Trace)}
	})
	var cases []*c03Case
	for i, tc := range tcs {
		d := dries[i]
		if d == nil {
			continue
		}
		pts := d.points
		var chosen []gen.CrashPoint
		for _, p := range pts {
			imp := strings.HasPrefix(p.Point, "fin.") || p.Point == "audit.written" || p.Point == "task.dirs_created" || p.Point == "task.cmd_done" || p.Point == "task.finalized"
			if c.Thorough() || (imp && rng.Intn(4) == 0) || rng.Intn(40) == 0 {
				chosen = append(chosen, p)
			}
		}
		for _, p := range chosen {
			pp := p
			cs := &c03Case{tc: tc, label: "crash@" + p.Point, crash: &pp}
			if c.Thorough() && rng.Intn(6) == 0 {
				np := pts[rng.Intn(len(pts))]
				cs.nested = &np
			}
			cases = append(cases, cs)
		}
		var tasks []*ref.Task
		for _, t := range d.exp.Tasks {
			if len(t.Outs) > 0 {
				tasks = append(tasks, t)
			}
		}
		for k := 0; k < c.Pick(1, 4); k++ {
			t := tasks[rng.Intn(len(tasks))]
			ph := []string{"start", "mid", "end"}[rng.Intn(3)]
			cases = append(cases, &c03Case{tc: tc, label: "killgroup=" + ph, key: t.Key, opts: map[string]string{"killgroup": ph}})
		}
		for k := 0; k < c.Pick(2, 10); k++ {
			cases = append(cases, &c03Case{tc: tc, label: "kill@trace-line", kline: 1 + rng.Intn(d.ntrace)})
		}
	}
	// absolute output paths (and the other shapes) with a large output, killed at the instant the output becomes
	// visible at its final path: whatever is visible then must be what the re-run may rely on
	for _, k := range []string{"chain", "twoout"} {
		for _, sh := range []gen.PathShape{gen.ShapeAbs, gen.ShapePlain, gen.ShapeParent} {
			for r := 0; r < c.Pick(1, 3); r++ {
				cases = append(cases, &c03Case{tc: topoCase{k, sh, false, 2}, label: "kill@final-path-visible", visible: true, opts: map[string]string{"size": "30000000"}})
			}
		}
	}
	run.Parallel(len(cases), func(i int) {
		fc := cases[i]
		root := c.CaseDir()
		defer c.Drop(root)
		s := gen.Topo(fc.tc.kind, fc.tc.shape, fc.tc.gof, root, fc.tc.n)
		exp := evalRef(s, nil)
		pre := preRootSet(root, s)
		var killWhen []string
		if fc.visible {
			for _, t := range exp.Tasks {
				if len(t.Outs) > 0 && fc.key == "" {
					fc.key = t.Key
					for port, p := range t.Outs {
						if !t.Streams[port] {
							killWhen = append(killWhen, filepath.Join(root, mon.RootRel(root, p)))
						}
					}
				}
			}
		}
		bh := gen.TopoBehav(fc.tc.kind, exp)
		if fc.key != "" {
			if bh[fc.key] == nil {
				bh[fc.key] = map[string]string{}
			}
			for k, v := range fc.opts {
				bh[fc.key][k] = v
			}
		}
		exp = ref.Eval(&ref.Input{Spec: s, Files: sourcesOf(s), Behav: bh})
		cfg := Cfg{Buf: 128, Procs: 4}
		if fc.crash != nil {
			cfg.Crash = fc.crash.Env()
		}
		describe := map[string]interface{}{"topology": fc.tc.kind, "path_shape": fc.tc.shape, "gofunc": fc.tc.gof, "fault": fc.label, "crash": fc.crash, "target": fc.key, "kill_at_trace_line": fc.kline, "spec": s}
		var allTrace []vproto.Event
		// (1) crashed run
		cs := &run.Case{Root: root, Bin: c.Bin, Spec: s, Env: cfg.env(), Behav: bh, KillAtTraceLine: fc.kline, KillWhenExists: killWhen}
		c.Eval(1)
		r1 := cs.Run()
		allTrace = append(allTrace, r1.Trace...)
		if r1.Signal == "" {
			c.Count("faults_not_fired", 1)
			return
		}
		s1 := mon.SnapRoot(root)
		// classify the state
		finalIn1 := map[string]bool{} // tasks whose files are all final
		partial := ""
		var partials []*ref.Task
		for _, t := range exp.Tasks {
			fs := taskFiles(root, t)
			n := 0
			for _, f := range fs {
				if _, ok := s1[f]; ok {
					n++
				}
			}
			if len(fs) > 0 && n == len(fs) {
				finalIn1[t.Key] = true
			} else if n > 0 {
				partial = t.Key
				partials = append(partials, t)
			}
		}
		state := "clean"
		if len(s1.Leftovers()) > 0 {
			state = "leftovers"
		}
		if partial != "" {
			state += "+partially-finalized"
		}
		runNo := 1
		report := func(sig string, ps []mon.Problem, step string) {
			describe["step"] = step
			describe["state_after_crash"] = state
			describe["problems"] = mon.Summarize(ps, 20)
			c.Violation(sig, fmt.Sprintf("%s %s/%v, %s, state after crash: %s, step %s:\n  %s", fc.tc.kind, fc.tc.shape, fc.tc.gof, fc.label, state, step, strings.Join(mon.Summarize(ps, 5), "\n  ")), describe)
		}
		// (2) re-run without cleanup
		if len(s1.Leftovers()) > 0 {
			r2 := execSpec(c, root, s, Cfg{Buf: 128, Procs: 4}, gen.TopoBehav(fc.tc.kind, exp), true, runNo)
			runNo++
			allTrace = append(allTrace, r2.Trace...)
			if r2.Hang != "" && !strings.HasPrefix(r2.Hang, "deadlock") {
				c.Inconclusive("re-run without cleanup: " + r2.Hang)
				return
			}
			var ps []mon.Problem
			if r2.Hang != "" {
				ps = append(ps, mon.Problem{Sig: "rerun-with-leftovers-hang", Msg: r2.Hang})
			} else if r2.Exit == 0 || r2.Returned {
				ps = append(ps, mon.Problem{Sig: "leftovers-adopted", Msg: fmt.Sprintf("temp directories %v were present, yet the re-run completed (exit %d, returned %v) instead of stopping", s1.Leftovers(), r2.Exit, r2.Returned)})
			}
			ps = append(ps, mon.Atomicity(root, mon.SnapRoot(root), exp, mon.Index(allTrace), pre)...)
			if len(ps) > 0 {
				report(ps[0].Sig, ps, "re-run without cleanup")
				return
			}
			c.Count("reruns_refused_with_leftovers", 1)
		}
		// (3) cleanup, (4) optionally crash during recovery, then recover
		depth := 0
		for {
			cleanLeftovers(root)
			sBefore := mon.SnapRoot(root)
			finalNow := map[string]bool{}
			for _, t := range exp.Tasks {
				fs := taskFiles(root, t)
				n := 0
				for _, f := range fs {
					if _, ok := sBefore[f]; ok {
						n++
					}
				}
				if len(fs) > 0 && n == len(fs) {
					finalNow[t.Key] = true
				} else if n > 0 {
					// partially finalized at the start of this recovery attempt (by the crash, or by the
					// exit of the refused re-run / a crashed recovery while a sibling was being finalized)
					found := false
					for _, pt := range partials {
						if pt == t {
							found = true
						}
					}
					if !found {
						partials = append(partials, t)
						partial = t.Key
					}
				}
			}
			rcfg := Cfg{Buf: 128, Procs: 4}
			if fc.nested != nil && depth == 0 {
				rcfg.Crash = fc.nested.Env()
			}
			r3 := execSpec(c, root, s, rcfg, gen.TopoBehav(fc.tc.kind, exp), true, runNo)
			runNo++
			allTrace = append(allTrace, r3.Trace...)
			if r3.Hang != "" && !strings.HasPrefix(r3.Hang, "deadlock") {
				c.Inconclusive("recovery run: " + r3.Hang)
				return
			}
			var ps []mon.Problem
			for _, e := range r3.Trace {
				if e.Ev == "start" && finalNow[e.Key] {
					ps = append(ps, mon.Problem{Sig: "finalized-task-reexecuted", Msg: "task " + e.Key + " had all its outputs finalized before the recovery run but was executed again"})
				}
			}
			sAfter := mon.SnapRoot(root)
			for _, t := range exp.Tasks {
				if finalNow[t.Key] {
					ps = append(ps, statChanges(sBefore, sAfter, taskFiles(root, t))...)
				}
			}
			if r3.Signal != "" && rcfg.Crash != "" {
				// crashed during recovery: go round again
				ps = append(ps, mon.Atomicity(root, sAfter, exp, mon.Index(allTrace), pre)...)
				if len(ps) > 0 {
					report(ps[0].Sig, ps, "crash during recovery")
					return
				}
				c.Count("crashes_during_recovery", 1)
				depth++
				continue
			}
			if r3.Hang != "" {
				ps = append(ps, mon.Problem{Sig: "recovery-hang", Msg: r3.Hang + "\n" + r3.HangInfo})
			} else if r3.Exit != 0 || !r3.Returned {
				ps = append(ps, mon.Problem{Sig: "recovery-run-failed", Msg: fmt.Sprintf("after cleanup the re-run exited %d: %s", r3.Exit, tail(r3.Output(), 500))})
			}
			ps = append(ps, converged(root, sAfter, exp, pre)...)
			if len(ps) > 0 {
				sig := "no-convergence:" + ps[0].Sig
				if partial != "" {
					// the known defect explains exactly: the partially finalized task's own files and the
					// files of its transitive dependants missing, and the consumer's failure
					explained := map[string]bool{}
					for _, pt := range partials {
						for _, f := range taskFiles(root, pt) {
							explained[f] = true
						}
						deps := dependants(exp, pt)
						for _, t := range exp.Tasks {
							if deps[t.Key] {
								for _, f := range taskFiles(root, t) {
									explained[f] = true
								}
							}
						}
					}
					all := true
					failed := false
					for _, p := range ps {
						if p.Sig == "recovery-run-failed" {
							failed = true
						}
					}
					if failed {
						// the run must have failed in a command that could not read a file of a partially finalized task
						// (read from the command's own end event, not from the wording of the library's error message)
						ok := false
						for _, e := range r3.Trace {
							if e.Ev != "end" || e.Status != 4 || !strings.HasPrefix(e.Note, "input unreadable: ") {
								continue
							}
							in := strings.TrimPrefix(e.Note, "input unreadable: ")
							if col := strings.Index(in, ": "); col > 0 {
								in = in[:col]
							}
							f := mon.RootRel(root, vproto.NormIn(in))
							for _, pt := range partials {
								for _, pf := range taskFiles(root, pt) {
									if pf == f {
										ok = true
									}
								}
							}
						}
						if !ok {
							all = false
						}
					}
					for _, p := range ps {
						switch p.Sig {
						case "recovery-run-failed":
						case "recovered-leftover":
							if !failed {
								all = false
							}
						case "recovered-audit-file-missing":
							f := strings.TrimPrefix(p.Msg, "after recovery ")
							f = f[:strings.Index(f, ".audit.json")]
							if !failed && !explained[mon.RootRel(root, f)] {
								all = false
							}
						case "recovered-file-missing":
							f := strings.TrimSuffix(strings.TrimPrefix(p.Msg, "after recovery "), " is missing")
							if !failed && !explained[mon.RootRel(root, f)] {
								all = false
							}
						default:
							all = false
						}
					}
					if all {
						sig = "no-convergence:partially-finalized-multi-file-task"
					}
				}
				describe["partially_finalized_task"] = partial
				report(sig, ps, "recovery after cleanup")
				return
			}
			break
		}
		c.Count("recoveries_converged", 1)
		c.Count("state_"+state, 1)
		who := fc.key
		if fc.crash != nil {
			who = fmt.Sprintf("%s#%d", fc.crash.Who, fc.crash.N)
		}
		if fc.kline > 0 {
			who = fmt.Sprint(fc.kline)
		}
		c.Nontrivial(fmt.Sprintf("%s|%s|%v|%s|%s|%s", fc.tc.kind, fc.tc.shape, fc.tc.gof, fc.label, who, state))
		if i%25 == 0 {
			c.Sample(map[string]interface{}{"topology": fc.tc.kind, "path_shape": fc.tc.shape, "gofunc": fc.tc.gof, "fault": fc.label, "crash": fc.crash, "state_after_crash": state, "tasks_already_final": len(finalIn1), "runs": runNo, "converged": true})
		}
	})
	// streaming shape: FIFO leftovers must be refused too (also after a partial cleanup)
	for rep := 0; rep < c.Pick(2, 8); rep++ {
		root := c.CaseDir()
		s := streamSpec("c03stream", 1, 2, true)
		bh := vproto.Behaviours{"PROD": {"size": "70000", "pause": "400"}}
		exp := ref.Eval(&ref.Input{Spec: s, Files: sourcesOf(s), Behav: bh})
		desc := map[string]interface{}{"spec": s, "behav": bh, "scenario": "kill mid-stream; re-run; remove temp dirs only; re-run; remove FIFOs; re-run"}
		cs := &run.Case{Root: root, Bin: c.Bin, Spec: s, Env: Cfg{Buf: 128, Procs: 4}.env(), Behav: bh, KillAtTraceLine: 2}
		c.Eval(1)
		r1 := cs.Run()
		snap := mon.SnapRoot(root)
		hasFifo := false
		for _, e := range snap {
			if e.Mode == "p" {
				hasFifo = true
			}
		}
		if r1.Signal == "" || !hasFifo {
			c.Count("faults_not_fired", 1)
			c.Drop(root)
			continue
		}
		r2 := execSpec(c, root, s, Cfg{Buf: 128, Procs: 4, SoftSec: 6}, bh, true, 1)
		if r2.Exit == 0 || r2.Returned {
			c.Violation("leftovers-adopted:fifo-and-tempdirs", fmt.Sprintf("FIFO and temp directories of a killed streaming run were present, yet the re-run completed (exit %d)", r2.Exit), desc)
			c.Drop(root)
			continue
		}
		// partial cleanup: temp directories only
		for _, p := range mon.SnapRoot(root).Leftovers() {
			if mon.SnapRoot(root)[p].Mode == "d" {
				os.RemoveAll(filepath.Join(root, p))
			}
		}
		r3 := execSpec(c, root, s, Cfg{Buf: 128, Procs: 4, SoftSec: 6}, bh, true, 2)
		if r3.Hang != "" && !strings.HasPrefix(r3.Hang, "deadlock") {
			c.Inconclusive("streaming partial cleanup: " + r3.Hang)
			c.Drop(root)
			continue
		}
		if r3.Exit == 0 || r3.Returned || r3.Hang != "" {
			c.Violation("leftovers-adopted:fifo", fmt.Sprintf("the FIFO of a killed streaming run was still present (only temp directories were removed), yet the re-run did not stop with an error (exit %d, returned %v, hang %q)", r3.Exit, r3.Returned, r3.Hang), desc)
			c.Drop(root)
			continue
		}
		cleanLeftovers(root)
		r4 := execSpec(c, root, s, Cfg{Buf: 128, Procs: 4}, bh, true, 3)
		ps := converged(root, mon.SnapRoot(root), exp, preRootSet(root, s))
		if r4.Exit != 0 || len(ps) > 0 {
			c.Violation("no-convergence:streaming", fmt.Sprintf("after full cleanup the streaming workflow exited %d: %v", r4.Exit, mon.Summarize(ps, 5)), desc)
		} else {
			c.Count("streaming_recoveries_converged", 1)
			c.Nontrivial(fmt.Sprintf("streaming|%d", rep))
		}
		c.Drop(root)
	}
	c.Finish()
}
