package main

import (
	"fmt"
	"math/rand"
	"sort"
	"strings"

	"verif/internal/chk"
	"verif/internal/gen"
	"verif/internal/mon"
	"verif/internal/ref"
	"verif/internal/run"
	"verif/internal/spec"
)

func init() { checks["C04"] = c04 }

func maxCores(s *spec.Spec) int {
	m := 1
	for _, p := range s.Procs {
		if p.Cores > m {
			m = p.Cores
		}
	}
	return m
}

// recorderProblems checks that every recorder saw exactly the expected items.
func recorderProblems(ti *mon.TraceIndex, s *spec.Spec, exp *ref.Result) []mon.Problem {
	var ps []mon.Problem
	for _, p := range s.Procs {
		if p.Kind != spec.KRecorder && p.Kind != spec.KParamRec {
			continue
		}
		if !exp.InRun[p.Name] {
			continue
		}
		var want []string
		if p.Kind == spec.KRecorder {
			for _, it := range exp.Out[p.Name+".out"] {
				want = append(want, it.Path)
			}
		} else {
			want = append(want, exp.POut[p.Name+".out"]...)
		}
		var got []string
		for _, e := range ti.Recs[p.Name] {
			got = append(got, e.Path)
		}
		ws, gs := append([]string{}, want...), append([]string{}, got...)
		sort.Strings(ws)
		sort.Strings(gs)
		if strings.Join(ws, "\x00") != strings.Join(gs, "\x00") {
			ps = append(ps, mon.Problem{Sig: "recorder-multiset", Msg: fmt.Sprintf("recorder %s saw %d items %v, expected %d items %v", p.Name, len(got), got, len(want), want)})
		} else if !exp.OrderAmb[p.Name+".out"] && strings.Join(want, "\x00") != strings.Join(got, "\x00") {
			ps = append(ps, mon.Problem{Sig: "recorder-order", Msg: fmt.Sprintf("recorder %s saw %v, expected order %v", p.Name, got, want)})
		}
	}
	return ps
}

// judgeRun applies the standard oracles of a complete fault-free run.
func judgeRun(res *run.Result, s *spec.Spec, exp *ref.Result) (ps []mon.Problem, hang string) {
	if res.Hang != "" {
		if strings.HasPrefix(res.Hang, "deadlock") {
			ps = append(ps, mon.Problem{Sig: "hang-" + res.Hang, Msg: "run did not terminate: " + res.Hang + "\n" + res.HangInfo})
			return ps, ""
		}
		return nil, res.Hang
	}
	if res.Exit != 0 {
		out := res.Output()
		if len(out) > 1500 {
			out = out[len(out)-1500:]
		}
		ps = append(ps, mon.Problem{Sig: "exit-nonzero", Msg: fmt.Sprintf("well-formed workflow exited with status %d; output tail: %s", res.Exit, out)})
		return ps, ""
	}
	if !res.Returned {
		ps = append(ps, mon.Problem{Sig: "no-return-marker", Msg: "exit 0 without RUN-RETURNED"})
		return ps, ""
	}
	ti := mon.Index(res.Trace)
	ps = append(ps, mon.ExactlyOnce(ti, exp)...)
	snap := run.Snap(res.Wd)
	ps = append(ps, mon.FilesMatch(snap, exp, preSet(s))...)
	ps = append(ps, mon.AuditFilesPresent(snap, exp)...)
	ps = append(ps, recorderProblems(ti, s, exp)...)
	return ps, ""
}

func lensFor(b int) []int {
	return []int{0, 1, 2, b, b + 1, 2*b + 1}
}

func c04(args []string) {
	c := chk.New("C04", "exploration", args)
	c.Build(false)
	c.Rule("seeded generator of acyclic graphs (chains, diamonds, fan-out, fan-in, zip, params, port-less, Go functions); each graph is run under 3 configurations (SCIPIPE_BUFSIZE, maxConcurrentTasks, GOMAXPROCS, yield seed); oracle = exactly-once over the command trace + file set/sha256 vs. independent reference + identical results across configurations; plus close storms: command-free fan-ins of 2-8 one-file sources into one in-port, built and run 1500-3000 times inside one child process (hooks passive in most of them) - Run must return each time and every item must pass. distinct_nontrivial = distinct (graph shape, configuration, interleaving signature) triples of runs with >= 2 executed tasks")
	c.Assume("SCIPIPE_BUFSIZE >= 1", "generator well-formedness: merged (fan-in) streams feed single-port processes only; unequal stream lengths on one process only below the buffer size", "bash and coreutils as installed")
	ngraphs := c.Pick(40, 500)
	rng := c.Rand("c04")
	type job struct {
		s   *spec.Spec
		exp *ref.Result
		cfg []Cfg
		idx int
	}
	var jobs []*job
	for g := 0; g < ngraphs; g++ {
		b := []int{1, 2, 3, 5}[rng.Intn(4)]
		lens := lensFor(b)
		if c.Thorough() && g%25 == 24 {
			b = 128
			lens = []int{130}
		}
		mt := []int{1, 2, 3, 4, 8}[rng.Intn(5)]
		o := gen.GraphOpts{MaxProcs: 7, Lens: lens, Buf: b, FanIn: true, Params: true, GoFunc: true, WriteAPI: true, MultiOut: true, Portless: true, SubDirs: true,
			Recorders: true, ParamComb: true, Prepend: true, Cores: mt, MaxTasks: mt, SleepMax: 0}
		if b == 128 {
			o.MaxProcs = 3
		}
		s := gen.Graph(rng, fmt.Sprintf("g%d", g), o)
		exp := evalRef(s, nil)
		if exp.Err != "" {
			c.Count("generator_rejects", 1)
			continue
		}
		mc := maxCores(s)
		cfgs := []Cfg{
			{Buf: b, Procs: 4, Sched: fmt.Sprintf("%d,300,400", rng.Intn(1<<30)), MaxTasks: mt},
			{Buf: b + 2, Procs: 1, Sched: fmt.Sprintf("%d,500,1500", rng.Intn(1<<30)), MaxTasks: mc},
			{Buf: 128, Procs: 2, Sched: "", MaxTasks: 8, NoHooks: true}, // the plain library: hooks passive, nothing orders the goroutines
			// the same graph with the (reference) outputs of a pseudo-random subset of tasks already on disk:
			// the result must not depend on which tasks are taken from disk either
			{Buf: b, Procs: 4, Sched: fmt.Sprintf("%d,300,400", rng.Intn(1<<30)), MaxTasks: mt, Crash: fmt.Sprintf("preexisting:%d", rng.Intn(1<<30))},
		}
		jobs = append(jobs, &job{s, exp, cfgs, g})
	}
	// directed graphs: parameter sweeps through a 3-port ParamCombinator, file tuples through a 3-port FileCombinator
	for d, lens := range [][]int{{2, 3, 2}, {1, 2, 3}, {3, 1, 2}} {
		s := &spec.Spec{Name: fmt.Sprintf("sweep%d", d), MaxTasks: 4, Sources: map[string]string{}}
		pc := &spec.Proc{Name: "pc", Kind: spec.KParamComb, Ports: []string{"u", "v", "w"}}
		fc := &spec.Proc{Name: "fc", Kind: spec.KFileComb, Ports: []string{"a", "b", "c"}}
		s.Procs = append(s.Procs, pc, fc)
		for i, pt := range []string{"u", "v", "w"} {
			var vals []string
			src := &spec.Proc{Name: "fs" + pt, Kind: spec.KFileSource}
			for k := 0; k < lens[i]; k++ {
				vals = append(vals, fmt.Sprintf("%s%d", pt, k))
				f := fmt.Sprintf("cf_%s_%d.txt", pt, k)
				src.Files = append(src.Files, f)
				s.Sources[f] = f
			}
			fp := []string{"a", "b", "c"}[i]
			s.Procs = append(s.Procs, &spec.Proc{Name: "ps" + pt, Kind: spec.KParamSource, Values: vals}, src)
			s.Conns = append(s.Conns, &spec.Conn{From: "ps" + pt + ".out", To: "pc." + pt, Param: true}, &spec.Conn{From: "pc." + pt, To: "sweep." + pt, Param: true},
				&spec.Conn{From: src.Name + ".out", To: "fc." + fp}, &spec.Conn{From: "fc." + fp, To: "tuple." + fp})
		}
		s.Procs = append(s.Procs, &spec.Proc{Name: "sweep", Kind: spec.KCmd, Cmd: spec.BuildCmd("sweep", nil, []spec.PortDecl{{Name: "out"}}, []string{"u", "v", "w"}, nil, nil), Outs: []*spec.Out{{Port: "out", Pattern: "sweep_{p:u}_{p:v}_{p:w}.out"}}},
			&spec.Proc{Name: "tuple", Kind: spec.KCmd, Cmd: spec.BuildCmd("tuple", []spec.PortDecl{{Name: "a"}, {Name: "b"}, {Name: "c"}}, []spec.PortDecl{{Name: "out"}}, nil, nil, nil)})
		// fan-in of two parameter sources (and a literal feeder) into one parameter port
		s.Procs = append(s.Procs, &spec.Proc{Name: "pfa", Kind: spec.KParamSource, Values: []string{"fa1", "fa2", "fa3"}}, &spec.Proc{Name: "pfb", Kind: spec.KParamSource, Values: []string{"fb1", "fb2"}},
			&spec.Proc{Name: "pfan", Kind: spec.KCmd, Cmd: spec.BuildCmd("pfan", nil, []spec.PortDecl{{Name: "out"}}, []string{"k"}, nil, nil), Outs: []*spec.Out{{Port: "out", Pattern: "pfan_{p:k}.out"}},
				Feeds: []*spec.Feed{{Port: "k", How: "str", Values: []string{"lit1", "lit2"}}}})
		s.Conns = append(s.Conns, &spec.Conn{From: "pfa.out", To: "pfan.k", Param: true}, &spec.Conn{From: "pfb.out", To: "pfan.k", Param: true})
		exp := evalRef(s, nil)
		if exp.Err != "" {
			c.Broken("reference cannot evaluate the sweep graph: " + exp.Err)
		}
		jobs = append(jobs, &job{s, exp, []Cfg{{Buf: 1, Procs: 4, MaxTasks: 4}, {Buf: 3, Procs: 1, MaxTasks: 4}, {Buf: 128, Procs: 2, MaxTasks: 8}}, 100000 + d})
	}
	// partial runs in which a source feeds one process inside and one outside the run set (more items than
	// buffer slots): every item must still reach the process that is run, whatever the buffer size
	for d, s := range c05Shapes(c, rng) {
		if !strings.HasPrefix(s.Name, "runtoparamfan") && !strings.HasPrefix(s.Name, "runtofilefan") && !strings.HasPrefix(s.Name, "runtocut") {
			continue
		}
		exp := evalRef(s, nil)
		if exp.Err != "" {
			c.Broken("reference cannot evaluate " + s.Name + ": " + exp.Err)
		}
		jobs = append(jobs, &job{s, exp, []Cfg{{Buf: 1, Procs: 4, MaxTasks: 4}, {Buf: 3, Procs: 1, MaxTasks: 4}, {Buf: 128, Procs: 2, MaxTasks: 8, NoHooks: true}}, 200000 + d})
	}
	type flat struct {
		j *job
		k int
	}
	var fl []flat
	for _, j := range jobs {
		for k := range j.cfg {
			fl = append(fl, flat{j, k})
		}
	}
	results := make([]map[string]string, len(fl)) // path -> sha of outputs, for the metamorphic comparison
	run.Parallel(len(fl), func(i int) {
		j, k := fl[i].j, fl[i].k
		root := c.CaseDir()
		js, jexp, jcfg := j.s, j.exp, j.cfg[k]
		if strings.HasPrefix(jcfg.Crash, "preexisting:") {
			var sd int64
			fmt.Sscanf(jcfg.Crash, "preexisting:%d", &sd)
			jcfg.Crash = ""
			lr := rand.New(rand.NewSource(sd))
			js = j.s.Clone()
			pre := sourcesOf(j.s)
			for _, t := range j.exp.Tasks {
				if len(t.Outs) == 0 || lr.Intn(3) != 0 {
					continue
				}
				for port, p := range t.Outs {
					js.Sources[p] = string(t.Content[port])
					pre[p] = t.Content[port]
				}
			}
			jexp = ref.Eval(&ref.Input{Spec: j.s, Files: pre})
			if jexp.Err != "" {
				c.Drop(root)
				return
			}
		}
		res := execSpec(c, root, js, jcfg, nil, false, 0)
		ps, hang := judgeRun(res, js, jexp)
		if hang != "" {
			c.Inconclusive(fmt.Sprintf("graph %d cfg %d: %s", j.idx, k, hang))
			c.Drop(root)
			return
		}
		ntasks := 0
		for _, e := range res.Trace {
			if e.Ev == "start" {
				ntasks++
			}
		}
		if len(ps) > 0 {
			for _, sig := range sigSet(ps) {
				if sig == "exit-nonzero" && strings.Contains(res.Output(), "panic: send on closed channel") && literalFeederFanIn(js) {
					// known finding: see known_findings.json
					sig = "exit-nonzero:literal-feeder-closed-the-parameter-port-before-the-other-upstreams-sent"
				}
				c.Violation(sig, strings.Join(mon.Summarize(ps, 6), "\n  "), map[string]interface{}{"spec": j.s, "cfg": j.cfg[k], "problems": mon.Summarize(ps, 30), "graph": gen.Describe(j.s)})
			}
		} else {
			if ntasks >= 2 {
				c.Nontrivial(gen.ShapeHash(j.s) + fmt.Sprintf("|%d|", k) + mon.InterleavingSig(res.Events))
			}
			c.Count("tasks_executed", ntasks)
			c.Count("hook_events", len(res.Events))
			snap := run.Snap(res.Wd)
			m := map[string]string{}
			for _, f := range snap.Files() {
				if !mon.IsHarnessFile(f) {
					m[f] = snap[f].Sha
				}
			}
			results[i] = m
			if k == 0 {
				c.Sample(map[string]interface{}{"graph": gen.Describe(j.s), "cfg": j.cfg[k], "tasks": ntasks, "files": len(m), "interleaving": mon.InterleavingSig(res.Events)})
			}
		}
		c.Drop(root)
	})
	// metamorphic: all configurations of one graph agree
	for i := 0; i < len(fl); i++ {
		if fl[i].k != 0 || results[i] == nil {
			continue
		}
		for d := 1; d < len(fl[i].j.cfg) && i+d < len(fl); d++ {
			if results[i+d] == nil {
				continue
			}
			if diff := diffMaps(results[i], results[i+d]); diff != "" {
				c.Violation("config-dependent-result", "file set / contents differ between configurations: "+diff, map[string]interface{}{"spec": fl[i].j.s, "cfg_a": fl[i].j.cfg[0], "cfg_b": fl[i].j.cfg[d], "diff": diff})
			}
			c.Count("metamorphic_pairs", 1)
		}
	}
	closeStorm(c, "files")
	closeStorm(c, "params")
	c.Finish()
}

// literalFeederFanIn tells whether some parameter port has a literal feeder (FromStr/FromInt/FromFloat) and
// at least one more upstream.
func literalFeederFanIn(s *spec.Spec) bool {
	for _, p := range s.Procs {
		for _, f := range p.Feeds {
			n := 0
			for _, g := range p.Feeds {
				if g.Port == f.Port {
					n++
				}
			}
			for _, cn := range s.Conns {
				if cn.Param && cn.To == p.Name+"."+f.Port {
					n++
				}
			}
			if n >= 2 {
				return true
			}
		}
	}
	return false
}

func sigSet(ps []mon.Problem) []string {
	m := map[string]bool{}
	for _, p := range ps {
		m[p.Sig] = true
	}
	var out []string
	for s := range m {
		out = append(out, s)
	}
	sort.Strings(out)
	return out
}

func diffMaps(a, b map[string]string) string {
	var d []string
	for k, v := range a {
		if w, ok := b[k]; !ok {
			d = append(d, "only-in-a:"+k)
		} else if v != w {
			d = append(d, "differs:"+k)
		}
	}
	for k := range b {
		if _, ok := a[k]; !ok {
			d = append(d, "only-in-b:"+k)
		}
	}
	sort.Strings(d)
	if len(d) > 8 {
		d = append(d[:8], "...")
	}
	return strings.Join(d, " ")
}
