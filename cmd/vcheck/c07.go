package main

import (
	"fmt"
	"runtime"
	"strings"

	"verif/internal/chk"
	"verif/internal/gen"
	"verif/internal/mon"
	"verif/internal/run"
	"verif/internal/spec"
	"verif/internal/vproto"
)

func init() { checks["C07"] = c07 }

func c07(args []string) {
	c := chk.New("C07", "exploration", args)
	c.Build(false)
	c.Rule("[oversize through partial runs] the oversize-CoresPerTask workflows are also started through RunTo / RunToRegex / RunToProcs; [silent stdin] the workflow program's standard input is an open pipe nobody writes to and the tools read their standard input to the end before they start (2-core tasks at limit 2, one-core tasks behind them): a run that stops making progress while a command holds the program's own stdin is a violation; [serial process beside another] a process with Spawn = false whose first task meets a task of another process inside its command, at limit 2: a task that has taken slots and not begun its command for seconds while a member of the group gives up is a slot held idle; (a) mixed-cores contention workloads (max in {2,3,4,6}, multisets of task classes with cores in 1..max; every fourth workload has an additional process with CoresPerTask = 0, in every fifth the commands of one process print 200 kB while they hold their slots) with yields of up to 3 ms at slots.before_lock / slots.deposit / slots.release so that token-by-token acquisitions of different tasks interleave whenever the lock does not prevent it: must terminate (structural hang classifier, never elapsed time); (a1) one task waiting more than 10 s for the only slot; (a3) a streaming-only producer in front of a task that needs every slot, a Concatenator between tasks with a single slot, a FileSplitter in front of tasks that need every slot: must terminate; (a2) the same with outputs of waiting tasks appearing on disk while they wait (written by sibling tasks): must terminate with every slot given back (shadow counter 0) and every task either run or skipped; (b) rendezvous groups (max in {2,3,4,6, NumCPU+2}; thorough also 2*NumCPU+1): k tasks with k*cores <= max and nothing else ready must all be inside their command at the same time (each announces itself and waits for k announcements; completion is the witness; on expiry the hook event log decides: a waiter blocked in the slot acquisition although free >= needed is a violation, anything else inconclusive); (b3) two workflows in one program: a task of X waiting for X's only slot must not keep Y's tasks from Y's free slots (one rendezvous group across both); (d) workloads driven through the exported task API (NewTask, Execute, Done) with a core count per task that differs from the process's CoresPerTask, all tasks started at once and a last task that needs every slot: must terminate with every output finalized; (c) CoresPerTask > max must be refused by the library (exit != 0 with its own message, no command of that process), a Go-runtime deadlock report is not a refusal. distinct_nontrivial = distinct (max, cores multiset, interleaving signature) of contention runs in which >= 2 tasks overlapped their acquisitions' waiting, plus completed rendezvous groups and refusals")
	c.Assume("head-of-line blocking behind a waiting multi-core task is legal: rendezvous groups are homogeneous and run with nothing else ready", "yields only make legal interleavings frequent (Go is preemptive)")
	rng := c.Rand("c07")
	type job struct {
		s     *spec.Spec
		bh    vproto.Behaviours
		cfg   Cfg
		kind  string
		k     int
		cores int
	}
	var jobs []*job
	// (a) contention with different core counts
	na := c.Pick(40, 600)
	for i := 0; i < na; i++ {
		max := []int{2, 3, 4, 6}[rng.Intn(4)]
		nproc := 2 + rng.Intn(3)
		o := gen.ContentionOpts{Max: max, Procs: nproc, TasksPer: 2 + rng.Intn(3), SleepLo: 2, SleepHi: 25, GoFunc: true, Prepend: true}
		s, bh := gen.Contention(rng, fmt.Sprintf("mix%d", i), o)
		if i%5 == 2 {
			// the commands of the first process print 200 kB of progress lines each while they hold their slots
			for _, p := range s.Procs {
				if p.Kind == spec.KCmd {
					if bh == nil {
						bh = vproto.Behaviours{}
					}
					bh[p.Name] = map[string]string{"chatter": "200000"}
					break
				}
			}
		}
		if i%4 == 3 {
			// one more process whose CoresPerTask is 0 (an unthrottled helper step) beside the in-range ones
			s.Procs = append(s.Procs, &spec.Proc{Name: "stamp", Kind: spec.KCmd, Cores: -1, Cmd: spec.BuildCmd("stamp", []spec.PortDecl{{Name: "in"}}, []spec.PortDecl{{Name: "out"}}, nil, nil, nil)})
			s.Conns = append(s.Conns, &spec.Conn{From: "src.out", To: "stamp.in"})
		}
		cfg := Cfg{Buf: []int{1, 3, 128}[rng.Intn(3)], Procs: []int{1, 2, 4, 8}[rng.Intn(4)], Sched: fmt.Sprintf("%d,700,3000", rng.Intn(1<<30))}
		jobs = append(jobs, &job{s: s, bh: bh, cfg: cfg, kind: "mixed"})
	}
	// (b) rendezvous groups (the last two maxima exceed the number of CPUs: slots are bookkeeping, not CPUs)
	for _, max := range []int{2, 3, 4, 6, runtime.NumCPU() + 2, 2*runtime.NumCPU() + 1} {
		if max > 6 && !c.Thorough() && max > runtime.NumCPU()+2 {
			continue
		}
		for cores := 1; cores <= max; cores++ {
			k := max / cores
			if k < 2 {
				continue
			}
			if max > 6 && cores != 1 && cores != max/2 {
				continue
			}
			reps := c.Pick(1, 6)
			for r := 0; r < reps; r++ {
				s := &spec.Spec{Name: fmt.Sprintf("rv_m%d_c%d", max, cores), MaxTasks: max, Sources: map[string]string{}}
				src := &spec.Proc{Name: "src", Kind: spec.KFileSource}
				for i := 0; i < k; i++ {
					f := fmt.Sprintf("s%d.txt", i)
					src.Files = append(src.Files, f)
					s.Sources[f] = f
				}
				kind := spec.KCmd
				if r%3 == 2 {
					kind = spec.KGoFunc
				}
				s.Procs = append(s.Procs, src, &spec.Proc{Name: "rvp", Kind: kind, Cores: cores,
					Cmd: spec.BuildCmd("rvp", []spec.PortDecl{{Name: "in"}}, []spec.PortDecl{{Name: "out"}}, nil, nil, map[string]string{"rv": fmt.Sprintf("%d:g", k), "rvto": "8000"})})
				s.Conns = append(s.Conns, &spec.Conn{From: "src.out", To: "rvp.in"})
				cfg := Cfg{Buf: 128, Procs: []int{1, 2, 8}[r%3], Sched: fmt.Sprintf("%d,700,3000", rng.Intn(1<<30))}
				jobs = append(jobs, &job{s: s, cfg: cfg, kind: "rendezvous", k: k, cores: cores})
			}
		}
	}
	// (b2) a rendezvous group whose first member started early, separated from the other members by short
	// a process with Spawn = false (two tasks, the first one meets a task of another process inside its command) beside a
	// process whose input arrives a little later: whatever Spawn = false means for the process's own tasks, a task that is
	// not executing its command holds no slot the other process's task needs
	for r := 0; r < c.Pick(2, 6); r++ {
		in, o1 := []spec.PortDecl{{Name: "in"}}, []spec.PortDecl{{Name: "out"}}
		s := &spec.Spec{Name: fmt.Sprintf("serialbeside%d", r), MaxTasks: 2, Sources: map[string]string{"s0.txt": "s0", "s1.txt": "s1", "s2.txt": "s2", "x0.txt": "x0"}}
		s.Procs = append(s.Procs, &spec.Proc{Name: "ssrc", Kind: spec.KFileSource, Files: []string{"s0.txt", "s1.txt", "s2.txt"}},
			&spec.Proc{Name: "xsrc", Kind: spec.KFileSource, Files: []string{"x0.txt"}}, &spec.Proc{Name: "late", Kind: spec.KRecorder, DelayMS: 300 + 100*(r%3)},
			&spec.Proc{Name: "ser", Kind: spec.KCmd, NoSpawn: true, Cmd: spec.BuildCmd("ser", in, o1, nil, nil, nil)},
			&spec.Proc{Name: "X", Kind: []string{spec.KCmd, spec.KGoFunc}[r%2], Cmd: spec.BuildCmd("X", in, o1, nil, nil, nil)})
		s.Conns = append(s.Conns, &spec.Conn{From: "ssrc.out", To: "ser.in"}, &spec.Conn{From: "xsrc.out", To: "late.in"}, &spec.Conn{From: "late.out", To: "X.in"})
		bh := vproto.Behaviours{
			vproto.TaskKey("ser", []vproto.KV{{K: "in", V: "s0.txt"}}, nil, nil): {"rv": "2:g", "rvto": "8000"},
			vproto.TaskKey("X", []vproto.KV{{K: "in", V: "x0.txt"}}, nil, nil):   {"rv": "2:g", "rvto": "8000"},
		}
		jobs = append(jobs, &job{s: s, bh: bh, cfg: Cfg{Buf: 128, Procs: []int{2, 4}[r%2]}, kind: "rendezvous", k: 2, cores: 1})
	}
	// the workflow program is started from a terminal nobody types on (its standard input is an open, silent pipe) and the
	// tools take optional input on their standard input: they are given an empty input, finish, and the tasks queued behind
	// them get their slots
	for r := 0; r < c.Pick(2, 4); r++ {
		in, o1 := []spec.PortDecl{{Name: "in"}}, []spec.PortDecl{{Name: "out"}}
		s := &spec.Spec{Name: fmt.Sprintf("silentstdin%d", r), MaxTasks: 2, Sources: map[string]string{}}
		src := &spec.Proc{Name: "src", Kind: spec.KFileSource}
		for k := 0; k < 3; k++ {
			f := fmt.Sprintf("i%d.txt", k)
			src.Files = append(src.Files, f)
			s.Sources[f] = f
		}
		s.Procs = append(s.Procs, src, &spec.Proc{Name: "conv", Kind: spec.KCmd, Cores: 2, Cmd: spec.BuildCmd("conv", in, o1, nil, nil, map[string]string{"readstdin": "1"})},
			&spec.Proc{Name: "sum", Kind: spec.KCmd, Cmd: spec.BuildCmd("sum", in, o1, nil, nil, nil)})
		s.Conns = append(s.Conns, &spec.Conn{From: "src.out", To: "conv.in"}, &spec.Conn{From: "conv.out", To: "sum.in"})
		jobs = append(jobs, &job{s: s, cfg: Cfg{Buf: 128, Procs: 2, SoftSec: 8, StdinOpen: true, NoHooks: r%2 == 1}, kind: "silentstdin"})
	}
	// tasks of the same process that have already finished: the free slots must be used for the waiting members
	for _, max := range []int{3, 4, 6} {
		for r := 0; r < c.Pick(1, 4); r++ {
			k := max
			nfast := max - 1
			s := &spec.Spec{Name: fmt.Sprintf("rvgap_m%d", max), MaxTasks: max, Sources: map[string]string{}}
			src := &spec.Proc{Name: "src", Kind: spec.KFileSource}
			bh := vproto.Behaviours{}
			total := 1 + nfast + (k - 1)
			for i := 0; i < total; i++ {
				f := fmt.Sprintf("g%02d.txt", i)
				src.Files = append(src.Files, f)
				s.Sources[f] = f
				key := vproto.TaskKey("rvp", []vproto.KV{{K: "in", V: f}}, nil, nil)
				if i == 0 || i > nfast {
					bh[key] = map[string]string{"rv": fmt.Sprintf("%d:g", k), "rvto": "8000"}
				} else {
					bh[key] = map[string]string{"sleep": "5"}
				}
			}
			s.Procs = append(s.Procs, src, &spec.Proc{Name: "rvp", Kind: spec.KCmd, Cores: 1,
				Cmd: spec.BuildCmd("rvp", []spec.PortDecl{{Name: "in"}}, []spec.PortDecl{{Name: "out"}}, nil, nil, nil)})
			s.Conns = append(s.Conns, &spec.Conn{From: "src.out", To: "rvp.in"})
			jobs = append(jobs, &job{s: s, bh: bh, cfg: Cfg{Buf: 128, Procs: []int{1, 2, 8}[r%3]}, kind: "rendezvous", k: k, cores: 1})
		}
	}
	// (a1) a task that waits more than 10 s for its slot (long-running neighbours): it must still get it, and the
	// workflow must end
	{
		s, bh := gen.Contention(rng, "longwait", gen.ContentionOpts{Max: 1, Procs: 2, TasksPer: 1, SleepLo: 10600, SleepHi: 10600, CoresFn: func(int) int { return 1 }})
		jobs = append(jobs, &job{s: s, bh: bh, cfg: Cfg{Buf: 128, Procs: 4, SoftSec: 40}, kind: "mixed"})
	}
	// (a3) slots and the rest of the library: a producer that only streams must give its slot back like any other task
	// (a 2-core task behind it needs both slots), and a bundled component that gathers files must not sit on a slot
	// while it waits for its inputs (one slot, tasks in front of and behind a Concatenator)
	{
		in, o1 := []spec.PortDecl{{Name: "in"}}, []spec.PortDecl{{Name: "out"}}
		// (one streamed item: with two, the second producer would hold a slot while it waits for its consumer, and the
		// 2-core task taking its tokens one by one beside them is a combination the properties exclude - C17 holds
		// "whenever enough task slots exist for each producer and its consumer to run at the same time")
		s1 := &spec.Spec{Name: "streamthenbig", MaxTasks: 2, Sources: map[string]string{"t0.txt": "t0\n"}}
		s1.Procs = append(s1.Procs, &spec.Proc{Name: "src", Kind: spec.KFileSource, Files: []string{"t0.txt"}},
			&spec.Proc{Name: "SPR", Kind: spec.KCmd, Cores: 1, Cmd: spec.BuildCmd("SPR", in, []spec.PortDecl{{Name: "out", Stream: true}}, nil, nil, nil)},
			&spec.Proc{Name: "SCO", Kind: spec.KCmd, Cores: 1, Cmd: spec.BuildCmd("SCO", in, o1, nil, nil, nil)},
			&spec.Proc{Name: "BIG", Kind: spec.KCmd, Cores: 2, Cmd: spec.BuildCmd("BIG", in, o1, nil, nil, nil)})
		s1.Conns = append(s1.Conns, &spec.Conn{From: "src.out", To: "SPR.in"}, &spec.Conn{From: "SPR.out", To: "SCO.in"}, &spec.Conn{From: "SCO.out", To: "BIG.in"})
		s2 := &spec.Spec{Name: "concatslot", MaxTasks: 1, Sources: map[string]string{"t0.txt": "t0\n", "t1.txt": "t1\n", "t2.txt": "t2\n"}}
		s2.Procs = append(s2.Procs, &spec.Proc{Name: "src", Kind: spec.KFileSource, Files: []string{"t0.txt", "t1.txt", "t2.txt"}},
			&spec.Proc{Name: "W", Kind: spec.KCmd, Cores: 1, Cmd: spec.BuildCmd("W", in, o1, nil, nil, nil)},
			&spec.Proc{Name: "CC", Kind: spec.KConcat, OutPath: "gathered.txt"},
			&spec.Proc{Name: "Q", Kind: spec.KCmd, Cores: 1, Cmd: spec.BuildCmd("Q", in, o1, nil, nil, nil)})
		s2.Conns = append(s2.Conns, &spec.Conn{From: "src.out", To: "W.in"}, &spec.Conn{From: "W.out", To: "CC.in"}, &spec.Conn{From: "CC.out", To: "Q.in"})
		// a FileSplitter in front of tasks that need every slot (components take no part in the slot accounting)
		s3 := &spec.Spec{Name: "splitthenbig", MaxTasks: 2, Sources: map[string]string{"five.txt": "1\n2\n3\n4\n5\n", "three.txt": "a\nb\nc\n"}}
		s3.Procs = append(s3.Procs, &spec.Proc{Name: "src", Kind: spec.KFileSource, Files: []string{"five.txt", "three.txt"}},
			&spec.Proc{Name: "SP", Kind: spec.KSplitter, Lines: 2},
			&spec.Proc{Name: "BIG", Kind: spec.KCmd, Cores: 2, Cmd: spec.BuildCmd("BIG", in, o1, nil, nil, nil)})
		s3.Conns = append(s3.Conns, &spec.Conn{From: "src.out", To: "SP.file"}, &spec.Conn{From: "SP.split_file", To: "BIG.in"})
		for r := 0; r < c.Pick(2, 6); r++ {
			jobs = append(jobs, &job{s: s1, cfg: Cfg{Buf: 128, Procs: []int{2, 4}[r%2]}, kind: "terminate"}, &job{s: s2, cfg: Cfg{Buf: []int{1, 128}[r%2], Procs: 2}, kind: "terminate"},
				&job{s: s3, cfg: Cfg{Buf: []int{128, 1}[r%2], Procs: 2}, kind: "terminate"})
		}
	}
	// (a2) outputs of waiting tasks appear on disk while they wait for their slots (here: written as an
	// additional file by a sibling task, the way a second instance of the workflow or the user would)
	for _, max := range []int{1, 2, 3} {
		for r := 0; r < c.Pick(2, 8); r++ {
			n := 4 * (max + 1)
			s := &spec.Spec{Name: fmt.Sprintf("appear_m%d", max), MaxTasks: max, Sources: map[string]string{}}
			src := &spec.Proc{Name: "src", Kind: spec.KFileSource}
			bh := vproto.Behaviours{}
			for i := 0; i < n; i++ {
				f := fmt.Sprintf("a%02d.txt", i)
				src.Files = append(src.Files, f)
				s.Sources[f] = f
				b := map[string]string{"sleep": fmt.Sprint(10 + rng.Intn(20))}
				if i < n/2 {
					b["extra"] = fmt.Sprintf("a%02d.txt.w.out", i+n/2)
				}
				bh[vproto.TaskKey("W", []vproto.KV{{K: "in", V: f}}, nil, nil)] = b
			}
			s.Procs = append(s.Procs, src, &spec.Proc{Name: "W", Kind: spec.KCmd, Cores: 1,
				Cmd: spec.BuildCmd("W", []spec.PortDecl{{Name: "in"}}, []spec.PortDecl{{Name: "out"}}, nil, nil, nil), Outs: []*spec.Out{{Port: "out", Pattern: "{i:in|basename}.w.out"}}})
			s.Conns = append(s.Conns, &spec.Conn{From: "src.out", To: "W.in"})
			jobs = append(jobs, &job{s: s, bh: bh, cfg: Cfg{Buf: 128, Procs: []int{1, 2, 8}[r%3], Sched: fmt.Sprintf("%d,500,1500", rng.Intn(1<<30))}, kind: "appear"})
		}
	}
	// (b3) two workflows in one program: a task of workflow X that waits for X's only slot must not keep the tasks of
	// workflow Y from taking Y's free slots. X's running task and Y's two tasks form one rendezvous group.
	for r := 0; r < c.Pick(2, 6); r++ {
		in, o1 := []spec.PortDecl{{Name: "in"}}, []spec.PortDecl{{Name: "out"}}
		x := &spec.Spec{Name: "wfX", MaxTasks: 1, Sources: map[string]string{"x0.txt": "x0", "x1.txt": "x1", "y0.txt": "y0", "y1.txt": "y1"}}
		// x0 reaches PX first (it takes X's only slot and joins the group), x1 40 ms later (it queues for the slot)
		x.Procs = append(x.Procs, &spec.Proc{Name: "xs", Kind: spec.KFileSource, Files: []string{"x0.txt", "x1.txt"}}, &spec.Proc{Name: "xslow", Kind: spec.KRecorder, DelayMS: 40},
			&spec.Proc{Name: "PX", Kind: spec.KCmd, Cores: 1, Cmd: spec.BuildCmd("PX", in, o1, nil, nil, nil)})
		x.Conns = append(x.Conns, &spec.Conn{From: "xs.out", To: "xslow.in"}, &spec.Conn{From: "xslow.out", To: "PX.in"})
		y := &spec.Spec{Name: "wfY", MaxTasks: 2, Sources: map[string]string{}}
		y.Procs = append(y.Procs, &spec.Proc{Name: "ys", Kind: spec.KFileSource, Files: []string{"y0.txt", "y1.txt"}}, &spec.Proc{Name: "yslow", Kind: spec.KRecorder, DelayMS: 200},
			&spec.Proc{Name: "PY", Kind: spec.KCmd, Cores: 1, Cmd: spec.BuildCmd("PY", in, o1, nil, nil, nil)})
		y.Conns = append(y.Conns, &spec.Conn{From: "ys.out", To: "yslow.in"}, &spec.Conn{From: "yslow.out", To: "PY.in"})
		x.Also = []*spec.Spec{y}
		bh := vproto.Behaviours{
			vproto.TaskKey("PX", []vproto.KV{{K: "in", V: "x0.txt"}}, nil, nil): {"rv": "3:g", "rvto": "8000"},
			vproto.TaskKey("PX", []vproto.KV{{K: "in", V: "x1.txt"}}, nil, nil): {"sleep": "5"},
			"PY": {"rv": "3:g", "rvto": "8000"},
		}
		jobs = append(jobs, &job{s: x, bh: bh, cfg: Cfg{Buf: 128, Procs: []int{2, 4, 8}[r%3]}, kind: "twowf", k: 3, cores: 1})
	}
	// (c) oversize cores
	for _, max := range []int{1, 2, 4} {
		for _, extra := range []int{1, 3} {
			s, bh := gen.Contention(rng, fmt.Sprintf("oversize_m%d", max), gen.ContentionOpts{Max: max, Procs: 2, TasksPer: 2, SleepLo: 30, SleepHi: 40,
				CoresFn: func(i int) int {
					if i == 1 {
						return max + extra
					}
					return 1
				}})
			if extra == 3 {
				// the documented way to wrap commands (srun, salloc, nice) does not change what a slot is
				s.Proc("w1").Prepend = "env VERIF_WRAPPED=1"
			}
			jobs = append(jobs, &job{s: s, bh: bh, cfg: Cfg{Buf: 128, Procs: 4}, kind: "oversize"})
			{
				// the same workflow started through RunTo / RunToRegex / RunToProcs with the oversize process as the target
				s3 := s.Clone()
				s3.Name += "_runto"
				mode := []string{"runto", "runtoregex", "runtoprocs"}[(max+extra)%3]
				s3.Run = spec.Run{Mode: mode, Targets: []string{map[string]string{"runto": "w1", "runtoregex": "^w1$", "runtoprocs": "w1"}[mode]}}
				jobs = append(jobs, &job{s: s3, bh: bh, cfg: Cfg{Buf: 128, Procs: 4, SoftSec: 6}, kind: "oversize"})
			}
			// the oversize process as the last step without out-ports (it becomes the driver)
			s2 := s.Clone()
			s2.Name += "_leaf"
			w1 := s2.Proc("w1")
			w1.Cmd = spec.BuildCmd("w1", []spec.PortDecl{{Name: "in"}}, nil, nil, nil, nil)
			var conns []*spec.Conn
			for _, cn := range s2.Conns {
				if cn.To == "w1.in" {
					cn.From = "w0.out"
				}
				conns = append(conns, cn)
			}
			s2.Conns = conns
			jobs = append(jobs, &job{s: s2, bh: bh, cfg: Cfg{Buf: 128, Procs: 4, SoftSec: 6}, kind: "oversize"})
		}
	}
	run.Parallel(len(jobs), func(i int) {
		j := jobs[i]
		root := c.CaseDir()
		defer c.Drop(root)
		res := execSpec(c, root, j.s, j.cfg, j.bh, false, 0)
		ti := mon.Index(res.Trace)
		switch j.kind {
		case "silentstdin":
			handed := ""
			for _, es := range ti.Starts {
				for _, e := range es {
					if e.Stdin != "" && e.Stdin == res.StdinPipe {
						handed = e.Key
					}
				}
			}
			if res.Hang != "" {
				if handed != "" {
					c.Violation("tasks-wait-behind-command-blocked-on-the-workflows-stdin", fmt.Sprintf("the command of %s was given the workflow program's own standard input (%s, an open pipe nobody writes to), blocked on it while holding its slots, and %d of 6 tasks had started when the run was stopped: %s", handed, res.StdinPipe, len(ti.Starts), res.Hang), map[string]interface{}{"spec": j.s, "cfg": j.cfg})
				} else if strings.HasPrefix(res.Hang, "deadlock") {
					c.Violation("slots-deadlock", res.Hang+"\n"+res.HangInfo, map[string]interface{}{"spec": j.s, "cfg": j.cfg})
				} else {
					c.Inconclusive("silent stdin: " + res.Hang)
				}
				return
			}
			if res.Exit != 0 || !res.Returned || len(ti.Starts) != 6 {
				c.Violation("exit-nonzero", fmt.Sprintf("tools reading an empty standard input: exit %d, %d of 6 tasks started: %s", res.Exit, len(ti.Starts), tail(res.Output(), 400)), map[string]interface{}{"spec": j.s, "cfg": j.cfg})
				return
			}
			c.Count("silent_stdin_runs", 1)
			c.Nontrivial(fmt.Sprintf("silentstdin|%v", j.cfg))
			return
		case "oversize":
			out := res.Output()
			refused := res.Exit != 0 && !res.Returned && res.Hang == "" // (not judged by the wording of the message)
			started := 0
			for k := range ti.Starts {
				if strings.HasPrefix(k, "w1|") {
					started++
				}
			}
			if res.GoDeadlock || strings.HasPrefix(res.Hang, "deadlock") {
				c.Violation("oversize-cores-hang", "a process asking for more cores than the maximum ended in a deadlock instead of being rejected: "+res.Hang, map[string]interface{}{"spec": j.s})
				return
			}
			if res.Hang != "" {
				c.Inconclusive("oversize: " + res.Hang)
				return
			}
			if !refused || started > 0 {
				c.Violation("oversize-cores-not-rejected", fmt.Sprintf("CoresPerTask > max: exit=%d returned=%v tasks of the oversize process started=%d; output: %s", res.Exit, res.Returned, started, tail(out, 500)), map[string]interface{}{"spec": j.s})
				return
			}
			// "rejected at start": the oversize process never got as far as creating or receiving a task
			for _, e := range res.Events {
				if e.Who == "w1" && (e.Pt == "proc.task_creating" || e.Pt == "proc.task_received" || e.Pt == "proc.select") {
					c.Violation("oversize-cores-rejected-late", fmt.Sprintf("CoresPerTask > max was refused only after the process had started working (hook point %s reached; %d commands of other processes had been started): the refusal belongs at the start of the process", e.Pt, len(ti.Starts)), map[string]interface{}{"spec": j.s, "event": e})
					return
				}
			}
			c.Count("oversize_refusals", 1)
			c.Nontrivial("oversize|" + j.s.Name + fmt.Sprint(maxCores(j.s)))
			return
		case "twowf":
			if res.Hang != "" {
				if strings.HasPrefix(res.Hang, "deadlock") {
					c.Violation("hang-"+res.Hang, "two workflows in one program did not terminate: "+res.Hang+"\n"+res.HangInfo, map[string]interface{}{"spec": j.s, "cfg": j.cfg})
				} else {
					c.Inconclusive("two workflows: " + res.Hang)
				}
				return
			}
			okc, to := 0, 0
			var toT int64
			for _, e := range ti.RVs {
				if e.Note == "ok" {
					okc++
				} else {
					to++
					if toT == 0 || e.T < toT {
						toT = e.T
					}
				}
			}
			if to > 0 {
				// at the first expiry: tasks of PY that have begun but hold no slots, while no task of workflow Y holds one
				begun, acquired := 0, 0
				for _, e := range res.Events {
					if e.T > toT {
						break
					}
					if e.Who == "PY" && e.Pt == "task.begin" {
						begun++
					}
					if e.Who == "PY" && e.Pt == "task.slots_acquired" {
						acquired++
					}
				}
				if begun == 2 && acquired == 0 {
					c.Violation("not-work-conserving:across-workflows", fmt.Sprintf("both tasks of workflow Y had begun and none of Y's 2 slots was held, yet neither had acquired a slot when the first member of the group gave up waiting (a task of workflow X was waiting for X's only slot at the time)"),
						map[string]interface{}{"spec": j.s, "cfg": j.cfg, "behav": j.bh})
				} else {
					c.Inconclusive(fmt.Sprintf("two workflows: rendezvous expired without a structural witness (begun=%d acquired=%d)", begun, acquired))
				}
				return
			}
			if res.Exit != 0 || okc != 3 {
				c.Violation("rendezvous-run-failed", fmt.Sprintf("two workflows: exit=%d, %d of 3 rendezvous completions: %s", res.Exit, okc, tail(res.Output(), 400)), map[string]interface{}{"spec": j.s, "cfg": j.cfg})
				return
			}
			c.Count("two_workflow_groups_met", 1)
			c.Nontrivial(fmt.Sprintf("twowf|%v", j.cfg))
			return
		case "rendezvous":
			if res.Hang != "" {
				if strings.HasPrefix(res.Hang, "deadlock") {
					c.Violation("hang-"+res.Hang, "rendezvous group did not terminate: "+res.Hang+"\n"+res.HangInfo, map[string]interface{}{"spec": j.s, "cfg": j.cfg})
				} else {
					c.Inconclusive("rendezvous: " + res.Hang)
				}
				return
			}
			okc, to := 0, 0
			var toT int64
			for _, e := range ti.RVs {
				if e.Note == "ok" {
					okc++
				} else {
					to++
					if toT == 0 || e.T < toT {
						toT = e.T
					}
				}
			}
			if to > 0 {
				// decide on the event log at the instant of the first expiry
				held := 0
				begun := map[string]bool{}
				acquired := map[string]bool{}
				for _, e := range res.Events {
					if e.T > toT {
						break
					}
					held = e.Held
					switch e.Pt {
					case "task.begin":
						begun[e.Tmp] = true
					case "task.slots_acquired", "task.skip_existing":
						acquired[e.Tmp] = true
					}
				}
				waiting := 0
				for t := range begun {
					if !acquired[t] {
						waiting++
					}
				}
				// all inputs of the process were delivered (its in-port channel is closed) and slots are free, yet
				// members of the group were never started
				delivered := false
				started := 0
				for _, e := range res.Events {
					if e.T > toT {
						break
					}
					if e.Pt == "inport.chan_closed" && e.Who == "in" {
						delivered = true
					}
					if e.Pt == "task.cmd_start" {
						started++
					}
				}
				// a task that took its slots seconds ago and has not begun its command: it holds slots without working, and
				// the members of the group that never got one gave up waiting for it
				acqAt, cmdBegun := map[string]int64{}, map[string]bool{}
				for _, e := range res.Events {
					if e.T > toT {
						break
					}
					switch e.Pt {
					case "task.slots_acquired":
						acqAt[e.Tmp] = e.T
					case "task.cmd_start":
						cmdBegun[e.Tmp] = true
					}
				}
				for tmp, at := range acqAt {
					if !cmdBegun[tmp] && toT-at > 3e9 {
						c.Violation("not-work-conserving:slots-held-by-idle-task", fmt.Sprintf("task %s took its slots %.1f s before the first member of the group gave up and had still not begun its command; %d of %d slots were held, %d of %d members never met", tmp, float64(toT-at)/1e9, held, j.s.MaxTasks, to, j.k),
							map[string]interface{}{"spec": j.s, "cfg": j.cfg, "behav": j.bh, "held": held})
						return
					}
				}
				if total := len(j.s.Procs[0].Files); waiting == 0 && delivered && held+j.cores <= j.s.MaxTasks && started < total {
					c.Violation("not-work-conserving:ready-tasks-not-started", fmt.Sprintf("all inputs were delivered and only %d of %d slots were held, yet only %d of %d ready tasks had been started when the first member of the group gave up waiting", held, j.s.MaxTasks, started, total),
						map[string]interface{}{"spec": j.s, "cfg": j.cfg, "behav": j.bh, "held": held})
					return
				}
				if waiting > 0 && held+j.cores <= j.s.MaxTasks {
					c.Violation("not-work-conserving", fmt.Sprintf("%d task(s) of %d cores were waiting for slots while only %d of %d slots were held; %d of %d tasks never met inside their commands", waiting, j.cores, held, j.s.MaxTasks, to, j.k),
						map[string]interface{}{"spec": j.s, "cfg": j.cfg, "held": held, "waiting": waiting})
				} else {
					c.Inconclusive(fmt.Sprintf("rendezvous expired without a structural witness (held=%d waiting=%d)", held, waiting))
				}
				return
			}
			if res.Exit != 0 || okc != j.k {
				c.Violation("rendezvous-run-failed", fmt.Sprintf("exit=%d, %d of %d rendezvous completions: %s", res.Exit, okc, j.k, tail(res.Output(), 400)), map[string]interface{}{"spec": j.s, "cfg": j.cfg})
				return
			}
			ov, _, _ := mon.Overlap(res.Trace, coresOfSpec(j.s))
			c.Count("rendezvous_groups_met", 1)
			c.Nontrivial(fmt.Sprintf("rv|%d|%d|%s", j.s.MaxTasks, j.cores, mon.InterleavingSig(res.Events)))
			c.Sample(map[string]interface{}{"kind": "rendezvous", "max": j.s.MaxTasks, "cores_per_task": j.cores, "k": j.k, "all_met_inside_command": true, "weighted_overlap": ov, "cfg": j.cfg})
			return
		}
		// mixed contention
		if res.Hang != "" {
			if strings.HasPrefix(res.Hang, "deadlock") {
				c.Violation("slots-deadlock", "tasks with different core counts blocked each other forever: "+res.Hang+"\n"+res.HangInfo, map[string]interface{}{"spec": j.s, "cfg": j.cfg, "behav": j.bh})
			} else {
				c.Inconclusive("mixed: " + res.Hang)
			}
			return
		}
		if res.Exit != 0 || !res.Returned {
			c.Violation("exit-nonzero", fmt.Sprintf("contention workload exited %d: %s", res.Exit, tail(res.Output(), 600)), map[string]interface{}{"spec": j.s, "cfg": j.cfg})
			return
		}
		if j.kind == "terminate" {
			c.Count("slot_interplay_runs_completed", 1)
			c.Nontrivial(fmt.Sprintf("terminate|%s|%v", j.s.Name, j.cfg))
			return
		}
		if j.kind == "appear" {
			// every task either ran or was skipped, and every slot was given back
			held, acquired, skipped := 0, 0, 0
			for _, e := range res.Events {
				held = e.Held
				switch e.Pt {
				case "task.slots_acquired":
					acquired++
				case "task.skip_existing":
					skipped++
				}
			}
			n := len(j.s.Procs[0].Files)
			if held != 0 {
				c.Violation("slots-not-returned", fmt.Sprintf("%d slot(s) still held when the workflow finished (outputs of waiting tasks appeared during the run)", held), map[string]interface{}{"spec": j.s, "cfg": j.cfg, "behav": j.bh})
				return
			}
			if acquired+skipped != n {
				c.Violation("task-missing", fmt.Sprintf("%d tasks acquired slots and %d were skipped, of %d", acquired, skipped, n), map[string]interface{}{"spec": j.s, "cfg": j.cfg, "behav": j.bh})
				return
			}
			c.Count("appearing_output_runs_completed", 1)
			c.Count("tasks_skipped_because_output_appeared", skipped)
			c.Nontrivial(fmt.Sprintf("appear|%d|%s", j.s.MaxTasks, mon.InterleavingSig(res.Events)))
			return
		}
		// every task ran
		want := 0
		for _, p := range j.s.Procs {
			if p.Kind != spec.KFileSource {
				want += len(j.s.Procs[0].Files)
			}
		}
		if len(ti.Ends) != want {
			c.Violation("task-missing", fmt.Sprintf("%d of %d tasks ran", len(ti.Ends), want), map[string]interface{}{"spec": j.s, "cfg": j.cfg})
			return
		}
		// interleaved acquisitions observed: some task was between before_lock and acquired while another one was too
		inAcq, maxInAcq := 0, 0
		for _, e := range res.Events {
			switch e.Pt {
			case "slots.before_lock":
				inAcq++
				if inAcq > maxInAcq {
					maxInAcq = inAcq
				}
			case "slots.acquired":
				inAcq--
			}
		}
		c.Max("max_tasks_simultaneously_acquiring", maxInAcq)
		mix := ""
		for _, p := range j.s.Procs {
			if p.Cores > 0 {
				mix += fmt.Sprint(p.Cores)
			}
		}
		if maxInAcq >= 2 {
			c.Nontrivial(fmt.Sprintf("mix|%d|%s|%s", j.s.MaxTasks, mix, mon.InterleavingSig(res.Events)))
		}
		c.Count("contention_runs_completed", 1)
		if i%8 == 0 {
			c.Sample(map[string]interface{}{"kind": "mixed", "max": j.s.MaxTasks, "cores_mix": mix, "tasks": want, "max_simultaneously_acquiring": maxInAcq, "cfg": j.cfg})
		}
	})
	// (d) the exported task API: tasks with core counts of their own, all started at once, the last one needs every slot
	{
		specs := taskAPISpecs(c.Rand("c07-taskapi"), c.Pick(6, 24))
		run.Parallel(len(specs), func(i int) {
			s := specs[i]
			res, ov, _, ps := runTaskAPI(c, s, []int{2, 4}[i%2])
			desc := map[string]interface{}{"task_api_workload": s}
			if res.Hang != "" {
				if strings.HasPrefix(res.Hang, "deadlock") {
					c.Violation("slots-deadlock:task-api", fmt.Sprintf("tasks started through NewTask / Execute (max %d, cores %v) blocked each other forever: %s\n%s", s.Max, s.Tasks, res.Hang, clip(res.HangInfo, 800)), desc)
				} else {
					c.Inconclusive("task api: " + res.Hang)
				}
				return
			}
			if len(ps) > 0 {
				for _, sig := range sigSet(ps) {
					c.Violation(sig, strings.Join(mon.Summarize(ps, 4), "\n  "), desc)
				}
				return
			}
			c.Count("task_api_workloads_terminated", 1)
			c.Nontrivial(fmt.Sprintf("taskapi|%d|%d|%d", s.Max, len(s.Tasks), ov))
		})
	}
	c.Finish()
}
