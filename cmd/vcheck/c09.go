package main

import (
	"fmt"
	"os"
	"path/filepath"
	"strings"

	"verif/internal/chk"
	"verif/internal/gen"
	"verif/internal/mon"
	"verif/internal/ref"
	"verif/internal/run"
	"verif/internal/spec"
	"verif/internal/vproto"
)

func init() { checks["C09"] = c09 }

var cmdFailModes = []string{"exit-before-write", "exit-mid-write", "exit-after-write", "sigkill-self", "sigsegv-self", "omit-output", "wrong-place", "sigkill-shell", "sigterm-shell"}
var goFailModes = []string{"exit-before-write", "exit-mid-write", "exit-after-write", "omit-output", "wrong-place", "panic-mid-write", "panic-after-write"}

// dependants returns the keys of all tasks that (transitively) consume an output of f.
func dependants(exp *ref.Result, f *ref.Task) map[string]bool {
	dep := map[*ref.Task]bool{f: true}
	changed := true
	for changed {
		changed = false
		for _, t := range exp.Tasks {
			if dep[t] {
				continue
			}
			for _, it := range t.In {
				if it.Stream {
					// the consumer of a streamed item runs at the same time as its producer by design; it and what
					// follows from it are not judged as "must not execute"
					continue
				}
				if it.Producer != nil && dep[it.Producer] {
					dep[t] = true
					changed = true
				}
				for _, m := range it.Sub {
					if m.Producer != nil && dep[m.Producer] {
						dep[t] = true
						changed = true
					}
				}
			}
		}
	}
	out := map[string]bool{}
	for t := range dep {
		if t != f {
			out[t.Key] = true
		}
	}
	return out
}

// failureProblems is the C09 oracle for a run in which task f was made to fail.
func failureProblems(res *run.Result, exp *ref.Result, f *ref.Task, failProc string, onlyIdx int, mayStart bool) []mon.Problem {
	var ps []mon.Problem
	out := res.Output()
	if res.Exit == 0 {
		ps = append(ps, mon.Problem{Sig: "failure-exit-zero", Msg: "a task failed but the workflow program exited with status 0"})
	}
	if res.Returned || strings.Contains(out, "Finished workflow") {
		ps = append(ps, mon.Problem{Sig: "failure-reported-completion", Msg: "a task failed but the workflow reported completion (Run returned / 'Finished workflow' logged)"})
	}
	snap := run.Snap(res.Wd)
	ti := mon.Index(res.Trace)
	check := func(t *ref.Task) {
		for port, p := range t.Outs {
			if t.Streams[port] {
				continue
			}
			if e, ok := snap[filepath.Clean(p)]; ok && (e.Mode == "f" || e.Mode == "d") {
				ps = append(ps, mon.Problem{Sig: "failed-task-output-finalized", Msg: fmt.Sprintf("output %s (port %s) of the failing task %s exists at its final path", p, port, t.Key)})
			}
		}
	}
	var deps map[string]bool
	if f != nil {
		check(f)
		deps = dependants(exp, f)
	} else {
		deps = map[string]bool{}
		for idx, t := range exp.ByProc[failProc] {
			if onlyIdx >= 0 && idx != onlyIdx {
				continue // only this task of the process cannot be formed; its siblings are legal
			}
			check(t)
			for k := range dependants(exp, t) {
				deps[k] = true
			}
			if len(ti.Starts[t.Key]) > 0 && !mayStart {
				ps = append(ps, mon.Problem{Sig: "unformable-task-executed", Msg: "task " + t.Key + " executed although it cannot be formed"})
			}
		}
	}
	for k := range deps {
		if len(ti.Starts[k]) > 0 {
			ps = append(ps, mon.Problem{Sig: "dependant-of-failed-task-executed", Msg: "task " + k + " depends on the failing task but was executed"})
		}
	}
	return ps
}

func c09(args []string) {
	c := chk.New("C09", "fault_enumeration", args)
	c.Build(false)
	c.Rule("[fan-in wired with OutPort.To] two upstream processes into one in-port, the slower one failing 0.7 s after the faster one closed its connection; generated graphs x every chosen task as the failing one x failure kind {exit non-zero before/mid/after writing, killed by SIGKILL / SIGSEGV, the task's shell killed by SIGKILL / SIGTERM after writing, declared output not produced, output written under another name; Go-function variants; task cannot be formed: empty parameter value, missing tag, invalid output path (space, colon, empty, letters / digits outside ASCII)} while sibling tasks are running; oracle = exit status != 0, no completion report, no final path of the failing task exists, no start event of any transitive dependant; plus output paths that cannot be finalized: an absolute output area on another file system (symlink to /dev/shm), where the commands succeed but the rename out of the temp directory fails - the program must exit non-zero, must not report completion, and no downstream task may run; twelve tasks failing at the same moment with long error reports (each of them is judged); the failing task being the surplus item of unequal streams (IPSelectorSync inputs of different length; fewer parameter values than files); Go-function tasks also fail by panicking, also those that write through task.OutIP(port).Write() to a port declared through SetOut only, and Go functions that run a failing tool through the library's ExecCmd helper; a command line that is a list whose middle element fails after the outputs were written, or a multi-line script whose last line returns non-zero; a producer with only streamed outputs failing 0.5 s after it closed its streams. distinct_nontrivial = distinct (graph shape, failing task, failure kind) in which the failing command really ran (or, for unformable tasks, the workflow was started) and >= 1 sibling task executed")
	c.Assume("siblings that were already running may finalize their own outputs (os.Exit does not wait) - legal", "orphaned sibling commands are killed by the runner after the workflow process has exited")
	rng := c.Rand("c09")
	type job struct {
		s    *spec.Spec
		exp  *ref.Result
		f    *ref.Task
		mode string
		bh   vproto.Behaviours
		cfg  Cfg
		fp   string // failing process for unformable-task cases
		idx  int    // index of the unformable task of fp, -1 = all of them
	}
	var jobs []*job
	nList := 0
	ngraphs := c.Pick(14, 120)
	perGraph := c.Pick(12, 16)
	for g := 0; g < ngraphs; g++ {
		b := []int{1, 3, 128}[rng.Intn(3)]
		mt := []int{2, 4, 8}[rng.Intn(3)]
		o := gen.GraphOpts{MaxProcs: 5, Lens: []int{2, 3, 4}, Buf: b, FanIn: true, Params: true, GoFunc: true, MultiOut: true, SubDirs: true,
			Cores: 1, MaxTasks: mt, SleepMax: 40, NoUnequal: true, DirOut: g%3 == 0}
		s := gen.Graph(rng, fmt.Sprintf("g%d", g), o)
		exp := evalRef(s, nil)
		if exp.Err != "" || len(exp.Tasks) < 3 {
			c.Count("generator_rejects", 1)
			continue
		}
		// command / Go-function failures
		for k := 0; k < perGraph; k++ {
			f := exp.Tasks[rng.Intn(len(exp.Tasks))]
			if len(f.Outs) == 0 {
				continue
			}
			modes := cmdFailModes
			if f.InProc {
				modes = goFailModes
			}
			mode := modes[(g+k)%len(modes)]
			bh := vproto.Behaviours{f.Key: {"fail": mode, "sleep": "25"}}
			cfg := Cfg{Buf: b, Procs: []int{1, 2, 4}[rng.Intn(3)], Sched: fmt.Sprintf("%d,300,600", rng.Intn(1<<30))}
			jobs = append(jobs, &job{s: s, exp: exp, f: f, mode: mode, bh: bh, cfg: cfg})
		}
		// the command line is a list whose middle element fails after the outputs were written: "<command> && false && echo ok"
		for _, p := range s.Procs {
			if p.Kind == spec.KCmd && len(exp.ByProc[p.Name]) > 0 && len(exp.ByProc[p.Name][0].Outs) > 0 && (g+len(p.Name))%2 == 0 {
				s2 := s.Clone()
				s2.Proc(p.Name).Cmd += " && false && echo not-reached"
				nList++
				if nList%2 == 0 && !strings.Contains(p.Cmd, " -- ") {
					// a multi-line script whose last line returns non-zero after the outputs were written
					s2.Proc(p.Name).Cmd = p.Cmd + "\necho checking\ntest -e /nonexistent/marker"
				}
				jobs = append(jobs, &job{s: s2, exp: exp, mode: "list-element-fails", cfg: Cfg{Buf: b, Procs: []int{1, 2, 4}[rng.Intn(3)], Sched: fmt.Sprintf("%d,300,600", rng.Intn(1<<30))}, fp: p.Name, idx: -1})
				break
			}
		}
		// tasks that cannot be formed
		var cmdProcs []*spec.Proc
		for _, p := range s.Procs {
			if (p.Kind == spec.KCmd || p.Kind == spec.KGoFunc) && len(exp.ByProc[p.Name]) > 0 {
				cmdProcs = append(cmdProcs, p)
			}
		}
		for k, kind := range []string{"empty-param", "missing-tag", "path-space", "path-colon", "path-empty", "path-accented-letter", "path-non-ascii-digit", "path-name-too-long", "path-through-regular-file"} {
			p := cmdProcs[rng.Intn(len(cmdProcs))]
			s2 := s.Clone()
			p2 := s2.Proc(p.Name)
			ports := ref.Ports(p2.Cmd)
			var inPort, outPort string
			for n, pi := range ports {
				if pi.Type == "i" && inPort == "" {
					inPort = n
				}
				if pi.Type == "o" && outPort == "" {
					outPort = n
				}
			}
			unformIdx := -1
			switch kind {
			case "empty-param":
				if len(p2.Feeds) == 0 || len(p2.Feeds[0].Values) == 0 || p2.Feeds[0].How != "str" {
					continue
				}
				if len(p2.Feeds[0].Values) != len(exp.ByProc[p.Name]) {
					continue
				}
				unformIdx = rng.Intn(len(p2.Feeds[0].Values))
				p2.Feeds[0].Values[unformIdx] = ""
			case "missing-tag":
				if inPort == "" {
					continue
				}
				p2.Cmd += " t=x:{t:" + inPort + ".nosuchtag}"
			case "path-space", "path-colon", "path-empty", "path-accented-letter", "path-non-ascii-digit", "path-name-too-long", "path-through-regular-file":
				if outPort == "" {
					continue
				}
				var aSource string
				for f := range s.Sources {
					if !strings.Contains(f, "/") && (aSource == "" || f < aSource) {
						aSource = f
					}
				}
				if kind == "path-through-regular-file" && aSource == "" {
					continue
				}
				pat := map[string]string{"path-space": "bad name." + p.Name, "path-colon": "a:b." + p.Name, "path-empty": "",
					// letters and digits outside the documented alphabet [0-9A-Za-z/._-] (harmless to the shell, so the command would succeed)
					"path-accented-letter": "r\u00e9sultat_gr\u00f6\u00dfe." + p.Name, "path-non-ascii-digit": "run\u0663." + p.Name,
					"path-name-too-long": strings.Repeat("n", 300) + "." + p.Name, "path-through-regular-file": aSource + "/below." + p.Name}[kind]
				if inPort != "" && (kind == "path-name-too-long" || kind == "path-through-regular-file") {
					pat += ".{i:" + inPort + "|basename}"
				}
				var outs []*spec.Out
				for _, o := range p2.Outs {
					if o.Port != outPort {
						outs = append(outs, o)
					}
				}
				p2.Outs = append(outs, &spec.Out{Port: outPort, Pattern: pat})
			}
			cfg := Cfg{Buf: b, Procs: []int{1, 2, 4}[k%3], Sched: fmt.Sprintf("%d,300,600", rng.Intn(1<<30))}
			jobs = append(jobs, &job{s: s2, exp: exp, mode: kind, cfg: cfg, fp: p.Name, idx: unformIdx})
		}
	}
	// a task with three outputs of which the command silently produces only two (exit 0): which output the library
	// looks at last is a matter of Go's map order, so the case is repeated
	{
		s := &spec.Spec{Name: "threeout", MaxTasks: 2, Sources: map[string]string{"m0.txt": "m0\n", "m1.txt": "m1\n"}}
		in := []spec.PortDecl{{Name: "in"}}
		s.Procs = append(s.Procs, &spec.Proc{Name: "src", Kind: spec.KFileSource, Files: []string{"m0.txt", "m1.txt"}},
			&spec.Proc{Name: "T", Kind: spec.KCmd, Cmd: spec.BuildCmd("T", in, []spec.PortDecl{{Name: "out"}, {Name: "res"}, {Name: "aux"}}, nil, nil, nil)},
			&spec.Proc{Name: "D", Kind: spec.KCmd, Cmd: spec.BuildCmd("D", in, []spec.PortDecl{{Name: "out"}}, nil, nil, nil)})
		s.Conns = append(s.Conns, &spec.Conn{From: "src.out", To: "T.in"}, &spec.Conn{From: "T.res", To: "D.in"})
		exp := evalRef(s, nil)
		if exp.Err != "" {
			c.Broken("reference cannot evaluate the three-output shape: " + exp.Err)
		}
		// the omitted output is the first one by port name ("aux"); which output the library visits last depends on
		// the order of declaration (Go visits small maps mostly in insertion order), so three orders are used
		orders := [][]spec.PortDecl{{{Name: "out"}, {Name: "res"}, {Name: "aux"}}, {{Name: "aux"}, {Name: "out"}, {Name: "res"}}, {{Name: "out"}, {Name: "aux"}, {Name: "res"}}}
		for k := 0; k < c.Pick(9, 24); k++ {
			sk := s.Clone()
			sk.Proc("T").Cmd = spec.BuildCmd("T", in, orders[k%3], nil, nil, nil)
			f := exp.ByProc["T"][k%2]
			mode := []string{"omit-output", "wrong-place"}[(k/3)%2]
			jobs = append(jobs, &job{s: sk, exp: exp, f: f, mode: mode, bh: vproto.Behaviours{f.Key: {"fail": mode, "sleep": "10"}}, cfg: Cfg{Buf: 128, Procs: []int{1, 2, 4}[k%3]}, idx: -1})
		}
	}
	// many tasks failing at the same moment, each with a long error report: every one of them is a failing task
	{
		s := &spec.Spec{Name: "manyfail", MaxTasks: 12, Sources: map[string]string{}}
		src := &spec.Proc{Name: "src", Kind: spec.KFileSource}
		for k := 0; k < 12; k++ {
			f := fmt.Sprintf("mf%02d.txt", k)
			src.Files = append(src.Files, f)
			s.Sources[f] = f + "\n"
		}
		in := []spec.PortDecl{{Name: "in"}}
		s.Procs = append(s.Procs, src, &spec.Proc{Name: "F", Kind: spec.KCmd, Cmd: spec.BuildCmd("F", in, []spec.PortDecl{{Name: "out"}}, nil, nil, nil)},
			&spec.Proc{Name: "D", Kind: spec.KCmd, Cmd: spec.BuildCmd("D", in, []spec.PortDecl{{Name: "out"}}, nil, nil, nil)})
		s.Conns = append(s.Conns, &spec.Conn{From: "src.out", To: "F.in"}, &spec.Conn{From: "F.out", To: "D.in"})
		exp := evalRef(s, nil)
		if exp.Err != "" {
			c.Broken("reference cannot evaluate the many-failures shape: " + exp.Err)
		}
		for k := 0; k < c.Pick(4, 12); k++ {
			// every task of F fails in the same way after the same delay; the oracle judges all of them (fp = F)
			mode := []string{"exit-after-write", "exit-mid-write"}[k%2]
			jobs = append(jobs, &job{s: s, exp: exp, fp: "F", mode: mode, bh: vproto.Behaviours{"F": {"fail": mode, "sleep": "60", "noise": "4000000"}}, cfg: Cfg{Buf: 128, Procs: []int{4, 8}[k%2], NoHooks: k%2 == 1}, idx: -1})
			// the same with error messages going to a stream of their own (the library's InitLogError) that is read slowly:
			// the reports of the failures overlap in time
			jobs = append(jobs, &job{s: s, exp: exp, fp: "F", mode: mode, bh: vproto.Behaviours{"F": {"fail": mode, "sleep": "60", "noise": "12000000"}}, cfg: Cfg{Buf: 128, Procs: []int{4, 8}[k%2], NoHooks: k%2 == 1, Quiet: true, SlowErr: true}, idx: -1})
		}
	}
	// a task with a streaming output and a file output (whose port name sorts after the stream's) that does not
	// produce the file output
	{
		s := &spec.Spec{Name: "streamplusfile", MaxTasks: 6, Sources: map[string]string{"m0.txt": "m0\n", "m1.txt": "m1\n"}}
		in := []spec.PortDecl{{Name: "in"}}
		s.Procs = append(s.Procs, &spec.Proc{Name: "src", Kind: spec.KFileSource, Files: []string{"m0.txt", "m1.txt"}},
			&spec.Proc{Name: "PROD", Kind: spec.KCmd, Cmd: spec.BuildCmd("PROD", in, []spec.PortDecl{{Name: "astream", Stream: true}, {Name: "zfile"}}, nil, nil, nil)},
			&spec.Proc{Name: "CONS", Kind: spec.KCmd, Cmd: spec.BuildCmd("CONS", in, []spec.PortDecl{{Name: "out"}}, nil, nil, nil)},
			&spec.Proc{Name: "D", Kind: spec.KCmd, Cmd: spec.BuildCmd("D", in, []spec.PortDecl{{Name: "out"}}, nil, nil, nil)})
		s.Conns = append(s.Conns, &spec.Conn{From: "src.out", To: "PROD.in"}, &spec.Conn{From: "PROD.astream", To: "CONS.in"}, &spec.Conn{From: "PROD.zfile", To: "D.in"})
		exp := evalRef(s, nil)
		if exp.Err != "" {
			c.Broken("reference cannot evaluate the stream-plus-file shape: " + exp.Err)
		}
		for k := 0; k < c.Pick(4, 12); k++ {
			f := exp.ByProc["PROD"][k%2]
			mode := []string{"omit-output", "wrong-place"}[(k/2)%2]
			jobs = append(jobs, &job{s: s, exp: exp, f: f, mode: mode, bh: vproto.Behaviours{f.Key: {"fail": mode, "sleep": "10"}}, cfg: Cfg{Buf: 128, Procs: []int{2, 4}[k%2]}, idx: -1})
		}
		// the same with two file outputs beside the stream, declared in three different orders (the omitted output is
		// the first file port by name; the other one must not reach its final path either)
		orders := [][]spec.PortDecl{{{Name: "astream", Stream: true}, {Name: "bfile"}, {Name: "zfile"}}, {{Name: "bfile"}, {Name: "astream", Stream: true}, {Name: "zfile"}}, {{Name: "zfile"}, {Name: "bfile"}, {Name: "astream", Stream: true}}}
		s3 := s.Clone()
		s3.Name = "streamplustwofiles"
		s3.Proc("PROD").Cmd = spec.BuildCmd("PROD", in, orders[0], nil, nil, nil)
		s3.Procs = append(s3.Procs, &spec.Proc{Name: "E", Kind: spec.KCmd, Cmd: spec.BuildCmd("E", in, []spec.PortDecl{{Name: "out"}}, nil, nil, nil)})
		s3.Conns = append(s3.Conns, &spec.Conn{From: "PROD.bfile", To: "E.in"})
		exp3 := evalRef(s3, nil)
		if exp3.Err != "" {
			c.Broken("reference cannot evaluate the stream-plus-two-files shape: " + exp3.Err)
		}
		for k := 0; k < c.Pick(6, 18); k++ {
			sk := s3.Clone()
			sk.Proc("PROD").Cmd = spec.BuildCmd("PROD", in, orders[k%3], nil, nil, nil)
			f := exp3.ByProc["PROD"][k%2]
			mode := []string{"omit-output", "wrong-place"}[(k/3)%2]
			jobs = append(jobs, &job{s: sk, exp: exp3, f: f, mode: mode, bh: vproto.Behaviours{f.Key: {"fail": mode, "sleep": "10"}}, cfg: Cfg{Buf: 128, Procs: []int{2, 4}[k%2]}, idx: -1})
		}
	}
	// shapes in which the workflow's sink drains a file branch and a parameter branch (RunTo cuts, unconsumed
	// parameter sources): a task that fails after the parameter stream is long closed must still fail the program
	for _, s := range c05Shapes(c, rng) {
		if !strings.HasPrefix(s.Name, "danglingparam") && !strings.HasPrefix(s.Name, "runtocut") && !strings.HasPrefix(s.Name, "runtoparamchain") && !strings.HasPrefix(s.Name, "leaves") && !strings.HasPrefix(s.Name, "leafdriver") {
			continue
		}
		exp := evalRef(s, nil)
		if exp.Err != "" || len(exp.Tasks) == 0 {
			continue
		}
		for k := 0; k < c.Pick(2, 6); k++ {
			f := exp.Tasks[rng.Intn(len(exp.Tasks))]
			if strings.HasPrefix(s.Name, "leafdriver") {
				// the out-port-less driver process finishes; a task of the branch that ends in the sink fails later
				f = exp.ByProc["other"][rng.Intn(len(exp.ByProc["other"]))]
			}
			if len(f.Outs) == 0 {
				continue
			}
			mode := []string{"exit-after-write", "exit-mid-write", "omit-output", "sigkill-shell"}[k%4]
			bh := vproto.Behaviours{f.Key: {"fail": mode, "sleep": "120"}}
			jobs = append(jobs, &job{s: s, exp: exp, f: f, mode: mode, bh: bh, cfg: Cfg{Buf: []int{1, 128}[k%2], Procs: 4, NoHooks: k%4 < 2}, idx: -1})
		}
	}
	// a Go function that writes through the documented task.OutIP(port).Write() - one port named in the command pattern,
	// one declared through SetOut only - and then reports a failure or panics
	{
		s := &spec.Spec{Name: "writeapifail", MaxTasks: 3, Sources: map[string]string{"m0.txt": "m0\n", "m1.txt": "m1\n"}}
		in := []spec.PortDecl{{Name: "in"}}
		s.Procs = append(s.Procs, &spec.Proc{Name: "src", Kind: spec.KFileSource, Files: []string{"m0.txt", "m1.txt"}},
			&spec.Proc{Name: "W", Kind: spec.KGoFunc, WriteAPI: true, Cmd: spec.BuildCmd("W", in, []spec.PortDecl{{Name: "out"}}, nil, nil, nil),
				Outs: []*spec.Out{{Port: "out", Pattern: "w/{i:in|basename}.w.out"}, {Port: "res", Pattern: "wdir/{i:in|basename}.w.res"}}},
			&spec.Proc{Name: "D", Kind: spec.KCmd, Cmd: spec.BuildCmd("D", in, []spec.PortDecl{{Name: "out"}}, nil, nil, nil)},
			&spec.Proc{Name: "E", Kind: spec.KCmd, Cmd: spec.BuildCmd("E", in, []spec.PortDecl{{Name: "out"}}, nil, nil, nil)})
		s.Conns = append(s.Conns, &spec.Conn{From: "src.out", To: "W.in"}, &spec.Conn{From: "W.out", To: "D.in"}, &spec.Conn{From: "W.res", To: "E.in"})
		exp := evalRef(s, nil)
		if exp.Err != "" {
			c.Broken("reference cannot evaluate the write-API shape: " + exp.Err)
		}
		for k := 0; k < c.Pick(4, 12); k++ {
			f := exp.ByProc["W"][k%2]
			if len(f.Outs) != 2 {
				c.Broken(fmt.Sprintf("reference does not know the SetOut-only port of W: %v", f.Outs))
			}
			mode := []string{"exit-after-write", "panic-after-write"}[(k/2)%2]
			jobs = append(jobs, &job{s: s, exp: exp, f: f, mode: mode, bh: vproto.Behaviours{f.Key: {"fail": mode}}, cfg: Cfg{Buf: []int{1, 128}[k%2], Procs: []int{2, 4}[k%2], NoHooks: k%4 >= 2}, idx: -1})
		}
	}
	// the failing task is the surplus one: (a) two upstream processes feed an IPSelectorSync, one of them has one task
	// more, and that task fails late; (b) a process has an in-port and a parameter port fed with fewer values than files,
	// and the upstream task that makes the surplus file fails late. Whoever stops waiting for the surplus item lets the
	// program finish before the failure is seen.
	for variant := 0; variant < 2; variant++ {
		in, o1 := []spec.PortDecl{{Name: "in"}}, []spec.PortDecl{{Name: "out"}}
		s := &spec.Spec{Name: []string{"surplusselector", "surplusparam"}[variant], MaxTasks: 4, Sources: map[string]string{"a0.txt": "a0\n", "a1.txt": "a1\n", "b0.txt": "b0\n", "b1.txt": "b1\n", "b2.txt": "b2\n"}}
		if variant == 0 {
			s.Procs = append(s.Procs, &spec.Proc{Name: "sa", Kind: spec.KFileSource, Files: []string{"a0.txt", "a1.txt"}}, &spec.Proc{Name: "sb", Kind: spec.KFileSource, Files: []string{"b0.txt", "b1.txt", "b2.txt"}},
				&spec.Proc{Name: "A", Kind: spec.KCmd, Cmd: spec.BuildCmd("A", in, o1, nil, nil, nil)}, &spec.Proc{Name: "B", Kind: spec.KCmd, Cmd: spec.BuildCmd("B", in, o1, nil, nil, nil)},
				&spec.Proc{Name: "SEL", Kind: spec.KSelector, Ports: []string{"a", "b"}, Pred: "all"},
				&spec.Proc{Name: "J", Kind: spec.KCmd, Cmd: spec.BuildCmd("J", []spec.PortDecl{{Name: "a"}, {Name: "b"}}, o1, nil, nil, nil)})
			s.Conns = append(s.Conns, &spec.Conn{From: "sa.out", To: "A.in"}, &spec.Conn{From: "sb.out", To: "B.in"}, &spec.Conn{From: "A.out", To: "SEL.a"}, &spec.Conn{From: "B.out", To: "SEL.b"},
				&spec.Conn{From: "SEL.a", To: "J.a"}, &spec.Conn{From: "SEL.b", To: "J.b"})
		} else {
			s.Procs = append(s.Procs, &spec.Proc{Name: "sb", Kind: spec.KFileSource, Files: []string{"b0.txt", "b1.txt", "b2.txt"}},
				&spec.Proc{Name: "B", Kind: spec.KCmd, Cmd: spec.BuildCmd("B", in, o1, nil, nil, nil)},
				&spec.Proc{Name: "J", Kind: spec.KCmd, Cmd: spec.BuildCmd("J", in, o1, []string{"k"}, nil, nil), Feeds: []*spec.Feed{{Port: "k", How: "str", Values: []string{"k0", "k1"}}}})
			s.Conns = append(s.Conns, &spec.Conn{From: "sb.out", To: "B.in"}, &spec.Conn{From: "B.out", To: "J.in"})
		}
		// the reference is taken from the equal-length part; the surplus task is judged by hand: f = the third task of B
		key := vproto.TaskKey("B", []vproto.KV{{K: "in", V: "b2.txt"}}, nil, nil)
		f := &ref.Task{Proc: "B", Key: key, Outs: map[string]string{"out": "b2.txt.b.out"}, Streams: map[string]bool{}, In: map[string]*ref.Item{}}
		exp := &ref.Result{Tasks: []*ref.Task{f}, ByProc: map[string][]*ref.Task{"B": {f}}}
		for k := 0; k < c.Pick(3, 9); k++ {
			mode := []string{"exit-after-write", "exit-mid-write", "sigkill-self"}[k%3]
			jobs = append(jobs, &job{s: s, exp: exp, f: f, mode: mode, bh: vproto.Behaviours{key: {"fail": mode, "sleep": "600"}}, cfg: Cfg{Buf: []int{128, 1}[k%2], Procs: 4, NoHooks: k%2 == 1}, idx: -1})
		}
	}
	// fan-in of two upstream processes into one in-port, every connection made with OutPort.To: the slower upstream's
	// task fails when the faster upstream has long finished and closed its connection
	for variant := 0; variant < 2; variant++ {
		in, o1 := []spec.PortDecl{{Name: "in"}}, []spec.PortDecl{{Name: "out"}}
		s := &spec.Spec{Name: "faninto", MaxTasks: 4, Sources: map[string]string{"a0.txt": "a0\n", "b0.txt": "b0\n"}}
		s.Procs = append(s.Procs, &spec.Proc{Name: "sa", Kind: spec.KFileSource, Files: []string{"a0.txt"}}, &spec.Proc{Name: "sb", Kind: spec.KFileSource, Files: []string{"b0.txt"}},
			&spec.Proc{Name: "A", Kind: spec.KCmd, Cmd: spec.BuildCmd("A", in, o1, nil, nil, nil)}, &spec.Proc{Name: "B", Kind: spec.KCmd, Cmd: spec.BuildCmd("B", in, o1, nil, nil, nil)},
			&spec.Proc{Name: "J", Kind: []string{spec.KCmd, spec.KGoFunc}[variant], Cmd: spec.BuildCmd("J", in, o1, nil, nil, nil)})
		s.Conns = append(s.Conns, &spec.Conn{From: "sa.out", To: "A.in", Via: "to"}, &spec.Conn{From: "sb.out", To: "B.in", Via: "to"}, &spec.Conn{From: "A.out", To: "J.in", Via: "to"}, &spec.Conn{From: "B.out", To: "J.in", Via: "to"})
		exp := evalRef(s, nil)
		if exp.Err != "" {
			c.Broken("reference cannot evaluate the fan-in shape: " + exp.Err)
		}
		f := exp.ByProc["B"][0]
		for k := 0; k < c.Pick(3, 9); k++ {
			mode := []string{"exit-after-write", "exit-mid-write", "sigkill-self"}[k%3]
			jobs = append(jobs, &job{s: s, exp: exp, f: f, mode: mode, bh: vproto.Behaviours{f.Key: {"fail": mode, "sleep": "700"}}, cfg: Cfg{Buf: []int{128, 1}[k%2], Procs: 4, NoHooks: k%2 == 1}, idx: -1})
		}
	}
	// a Go function that runs its tool through the library's ExecCmd helper; the tool fails in the middle of / after writing
	{
		s := &spec.Spec{Name: "execcmdfail", MaxTasks: 3, Sources: map[string]string{"m0.txt": "m0\n", "m1.txt": "m1\n"}}
		in := []spec.PortDecl{{Name: "in"}}
		s.Procs = append(s.Procs, &spec.Proc{Name: "src", Kind: spec.KFileSource, Files: []string{"m0.txt", "m1.txt"}},
			&spec.Proc{Name: "X", Kind: spec.KGoFunc, ExecCmd: true, Cmd: spec.BuildCmd("X", in, []spec.PortDecl{{Name: "out"}}, nil, nil, nil)},
			&spec.Proc{Name: "D", Kind: spec.KCmd, Cmd: spec.BuildCmd("D", in, []spec.PortDecl{{Name: "out"}}, nil, nil, nil)})
		s.Conns = append(s.Conns, &spec.Conn{From: "src.out", To: "X.in"}, &spec.Conn{From: "X.out", To: "D.in"})
		exp := evalRef(s, nil)
		if exp.Err != "" {
			c.Broken("reference cannot evaluate the ExecCmd shape: " + exp.Err)
		}
		for k := 0; k < c.Pick(4, 12); k++ {
			f := exp.ByProc["X"][k%2]
			mode := []string{"exit-mid-write", "exit-after-write", "sigkill-self"}[(k/2)%3]
			jobs = append(jobs, &job{s: s, exp: exp, f: f, mode: mode, bh: vproto.Behaviours{f.Key: {"fail": mode, "sleep": "20"}}, cfg: Cfg{Buf: 128, Procs: []int{2, 4}[k%2], NoHooks: k%4 >= 2}, idx: -1})
		}
	}
	// a producer whose outputs are all streamed fails well after it closed its streams (it verifies something, waits
	// for a child, ...), when its consumer is already done
	{
		s := &spec.Spec{Name: "streamonlylate", MaxTasks: 6, Sources: map[string]string{"m0.txt": "m0\n", "m1.txt": "m1\n"}}
		in := []spec.PortDecl{{Name: "in"}}
		s.Procs = append(s.Procs, &spec.Proc{Name: "src", Kind: spec.KFileSource, Files: []string{"m0.txt", "m1.txt"}},
			&spec.Proc{Name: "PROD", Kind: spec.KCmd, Cmd: spec.BuildCmd("PROD", in, []spec.PortDecl{{Name: "out", Stream: true}}, nil, nil, nil)},
			&spec.Proc{Name: "CONS", Kind: spec.KCmd, Cmd: spec.BuildCmd("CONS", in, []spec.PortDecl{{Name: "out"}}, nil, nil, nil)},
			&spec.Proc{Name: "D", Kind: spec.KCmd, Cmd: spec.BuildCmd("D", in, []spec.PortDecl{{Name: "out"}}, nil, nil, nil)})
		s.Conns = append(s.Conns, &spec.Conn{From: "src.out", To: "PROD.in"}, &spec.Conn{From: "PROD.out", To: "CONS.in"}, &spec.Conn{From: "CONS.out", To: "D.in"})
		exp := evalRef(s, nil)
		if exp.Err != "" {
			c.Broken("reference cannot evaluate the stream-only shape: " + exp.Err)
		}
		for k := 0; k < c.Pick(4, 12); k++ {
			bh := vproto.Behaviours{}
			var f *ref.Task
			if k%2 == 0 {
				f = exp.ByProc["PROD"][(k/2)%2]
				bh[f.Key] = map[string]string{"fail": "exit-after-write", "post": "500"}
				jobs = append(jobs, &job{s: s, exp: exp, f: f, mode: "exit-after-write", bh: bh, cfg: Cfg{Buf: []int{1, 128}[(k/2)%2], Procs: 4, NoHooks: k%4 == 0}, idx: -1})
			} else {
				// every task of the producer fails late
				bh["PROD"] = map[string]string{"fail": "exit-after-write", "post": "500"}
				jobs = append(jobs, &job{s: s, exp: exp, fp: "PROD", mode: "exit-after-write", bh: bh, cfg: Cfg{Buf: []int{1, 128}[(k/2)%2], Procs: 4, NoHooks: k%4 == 1}, idx: -1})
			}
		}
	}
	run.Parallel(len(jobs), func(i int) {
		j := jobs[i]
		root := c.CaseDir()
		defer c.Drop(root)
		res := execSpec(c, root, j.s, j.cfg, j.bh, false, 0)
		if res.Hang != "" {
			if strings.HasPrefix(res.Hang, "deadlock") {
				c.Violation("hang-after-failure", fmt.Sprintf("failure kind %s: the program did not terminate: %s\n%s", j.mode, res.Hang, res.HangInfo), map[string]interface{}{"spec": j.s, "cfg": j.cfg, "behav": j.bh})
			} else {
				c.Inconclusive(res.Hang)
			}
			return
		}
		ti := mon.Index(res.Trace)
		if j.f != nil && len(ti.Starts[j.f.Key]) == 0 && !(res.Returned && res.Exit == 0) {
			// (a program that reports completion although the task that has to fail was not even run is judged below)
			c.Inconclusive("the failing task never started")
			return
		}
		ps := failureProblems(res, j.exp, j.f, j.fp, j.idx, j.mode == "path-name-too-long" || j.mode == "path-through-regular-file" || j.mode == "list-element-fails" || j.s.Name == "manyfail" || j.s.Name == "streamonlylate")
		if len(ps) > 0 {
			who := j.fp
			if j.f != nil {
				who = j.f.Key
			}
			for _, sig := range sigSet(ps) {
				c.Violation(sig+":"+classOf(j.mode), fmt.Sprintf("failure kind %s on %s:\n  %s", j.mode, who, strings.Join(mon.Summarize(ps, 5), "\n  ")),
					map[string]interface{}{"spec": j.s, "cfg": j.cfg, "behav": j.bh, "failing": who, "kind": j.mode, "exit": res.Exit, "problems": mon.Summarize(ps, 20), "output_tail": tail(res.Output(), 800)})
			}
			return
		}
		siblings := len(ti.Starts)
		if j.f != nil {
			siblings--
		}
		who := j.fp
		if j.f != nil {
			who = j.f.Key
		}
		c.Count("failure_cases_held", 1)
		c.Count("kind_"+j.mode, 1)
		if siblings >= 1 {
			c.Nontrivial(gen.ShapeHash(j.s) + "|" + who + "|" + j.mode)
		}
		if i%10 == 0 {
			c.Sample(map[string]interface{}{"graph": gen.Describe(j.s), "failing": who, "kind": j.mode, "exit": res.Exit, "sibling_tasks_started": siblings, "cfg": j.cfg})
		}
	})
	c09xdev(c)
	c.Finish()
}

// c09xdev: output paths the library cannot finalize - an absolute output area on another file system, where
// the rename from the task's temp directory fails (EXDEV). The commands succeed; the task nevertheless has not
// produced its declared outputs, so the program must fail and nothing downstream may run.
func c09xdev(c *chk.Ctx) {
	if st, err := os.Stat("/dev/shm"); err != nil || !st.IsDir() {
		c.Count("cross_device_cases_skipped_no_dev_shm", 1)
		return
	}
	type xj struct {
		kind string
		gof  bool
	}
	var jobs []xj
	for _, k := range []string{"chain", "twoout", "diamond"} {
		for _, g := range []bool{false, true} {
			for r := 0; r < c.Pick(1, 3); r++ {
				jobs = append(jobs, xj{k, g})
			}
		}
	}
	run.Parallel(len(jobs), func(i int) {
		j := jobs[i]
		root := c.CaseDir()
		defer c.Drop(root)
		xd := "/dev/shm/verif-xdev9-" + filepath.Base(filepath.Dir(root)) + "-" + filepath.Base(root)
		os.MkdirAll(xd, 0777)
		defer os.RemoveAll(xd)
		os.Symlink(xd, filepath.Join(root, "abs"))
		s := gen.Topo(j.kind, gen.ShapeAbs, j.gof, root, 2)
		exp := evalRef(s, nil)
		if exp.Err != "" {
			c.Broken("reference cannot evaluate " + s.Name + ": " + exp.Err)
		}
		res := execSpec(c, root, s, Cfg{Buf: 128, Procs: 4}, nil, false, 0)
		desc := map[string]interface{}{"spec": s, "kind": "output-area-on-another-file-system", "topology": j.kind, "gofunc": j.gof, "exit": res.Exit, "output_tail": tail(res.Output(), 600)}
		if res.Hang != "" {
			if strings.HasPrefix(res.Hang, "deadlock") {
				c.Violation("hang-after-failure", "outputs that cannot be finalized (other file system): the program did not terminate: "+res.Hang, desc)
			} else {
				c.Inconclusive(res.Hang)
			}
			return
		}
		ti := mon.Index(res.Trace)
		// first-level tasks: those whose inputs are all source files; their outputs cannot be finalized
		produced := map[string]bool{}
		for _, t := range exp.Tasks {
			for _, o := range t.Outs {
				produced[o] = true
			}
		}
		var ps []mon.Problem
		nfirst := 0
		for _, t := range exp.Tasks {
			first := true
			for _, in := range t.In {
				if produced[in.Path] {
					first = false
				}
			}
			if first {
				nfirst++
				continue
			}
			if len(ti.Starts[t.Key]) > 0 {
				ps = append(ps, mon.Problem{Sig: "dependant-of-failed-task-executed", Msg: "task " + t.Key + " was executed although no upstream output could be finalized"})
			}
		}
		if res.Exit == 0 {
			ps = append(ps, mon.Problem{Sig: "failure-exit-zero", Msg: "no output could be moved to its declared path, yet the workflow program exited with status 0"})
		}
		if res.Returned {
			ps = append(ps, mon.Problem{Sig: "failure-reported-completion", Msg: "no output could be moved to its declared path, yet Run returned"})
		}
		if len(ps) > 0 {
			for _, sig := range sigSet(ps) {
				desc["problems"] = mon.Summarize(ps, 10)
				c.Violation(sig+":output-path-unusable", fmt.Sprintf("%s, outputs on another file system:\n  %s", j.kind, strings.Join(mon.Summarize(ps, 4), "\n  ")), desc)
			}
			return
		}
		c.Count("failure_cases_held", 1)
		c.Count("kind_output-on-another-file-system", 1)
		c.Nontrivial(fmt.Sprintf("xdev|%s|%v", j.kind, j.gof))
	})
}

func classOf(mode string) string {
	switch mode {
	case "sigkill-shell", "sigterm-shell":
		return "shell-killed-by-signal"
	case "sigkill-self", "sigsegv-self":
		return "command-killed-by-signal"
	case "omit-output", "wrong-place":
		return "output-not-produced"
	case "panic-mid-write", "panic-after-write":
		return "go-function-panic"
	case "empty-param", "missing-tag", "path-space", "path-colon", "path-empty", "path-accented-letter", "path-non-ascii-digit":
		return "task-unformable"
	case "path-name-too-long", "path-through-regular-file":
		return "output-path-unusable"
	}
	return "nonzero-exit"
}
