// vcheck runs the runtime-monitoring checks: vcheck <Cxx> [--tier quick|thorough].
package main

import (
	"encoding/json"
	"fmt"
	"os"
	"path/filepath"
	"sort"
	"strconv"
	"strings"
	"time"

	"verif/internal/chk"
	"verif/internal/mon"
	"verif/internal/ref"
	"verif/internal/run"
	"verif/internal/spec"
	"verif/internal/vproto"
)

var checks = map[string]func(args []string){}

func main() {
	if len(os.Args) < 2 {
		usage()
	}
	spec.VcmdPath = filepath.Join(run.Root(), "bin", "vcmd")
	if _, err := os.Stat(spec.VcmdPath); err != nil {
		fmt.Printf("BROKEN: %s missing (run ./setup.sh)\n", spec.VcmdPath)
		os.Exit(2)
	}
	id := os.Args[1]
	if id == "replay" {
		replay(os.Args[2:])
		return
	}
	fn, ok := checks[id]
	if !ok {
		usage()
	}
	fn(os.Args[2:])
}

func usage() {
	ids := []string{}
	for k := range checks {
		ids = append(ids, k)
	}
	sort.Strings(ids)
	fmt.Println("usage: vcheck <property> [--tier quick|thorough] [--seed n]; properties:", ids)
	os.Exit(64)
}

// Cfg is a runtime configuration of one execution.
type Cfg struct {
	Buf        int    `json:"bufsize"`
	Procs      int    `json:"gomaxprocs"`
	Sched      string `json:"sched,omitempty"`
	MaxTasks   int    `json:"max_tasks,omitempty"`
	Crash      string `json:"crash,omitempty"`
	Race       bool   `json:"race,omitempty"`
	SoftSec    int    `json:"soft_sec,omitempty"`
	StdinOpen  bool   `json:"stdin_open,omitempty"` // the subject's standard input is an open, silent pipe instead of /dev/null
	NoHooks    bool   `json:"passive_hooks,omitempty"`
	WdRel      string `json:"working_directory,omitempty"`  // working directory below the case root (default "wd"), e.g. one with blanks in its name
	SlowErr    bool   `json:"slow_stderr_reader,omitempty"` // the subject's stderr is a pipe whose reader takes 128 kB every 10 ms
	StraceKill string `json:"strace_kill,omitempty"`        // "<syscalls>:<n>": the subject runs under strace, which kills whichever thread is about to make its n-th call of one of these syscalls
	FSize      int    `json:"file_size_limit,omitempty"`    // the subject runs with RLIMIT_FSIZE = <bytes> (SIGXFSZ ignored: writes beyond it fail with EFBIG)
	NoFile     int    `json:"open_files_limit,omitempty"`   // the subject runs under "ulimit -n <limit>"
	Debug      bool   `json:"debug_log,omitempty"`          // the library logs at its DEBUG level (InitLogDebug before the workflow is made)
	Quiet      bool   `json:"quiet_log,omitempty"`          // the library logs errors only (its logger's mutex is one more synchronisation the race detector sees)
}

func (c Cfg) env() map[string]string {
	e := map[string]string{}
	if c.Buf > 0 {
		e["SCIPIPE_BUFSIZE"] = strconv.Itoa(c.Buf)
	} else if c.Buf == -1 {
		e["SCIPIPE_BUFSIZE"] = "0" // unbuffered connections
	}
	if c.Procs > 0 {
		e["GOMAXPROCS"] = strconv.Itoa(c.Procs)
	}
	if c.Sched != "" && !c.NoHooks {
		e["VERIF_SCHED"] = c.Sched
	}
	if c.Crash != "" {
		e["VERIF_CRASH"] = c.Crash
	}
	if c.Quiet {
		e["VERIF_QUIETLOG"] = "1"
	}
	if c.Debug {
		e["VERIF_DEBUGLOG"] = "1"
	}
	if c.FSize > 0 {
		e["VERIF_FSIZE"] = strconv.Itoa(c.FSize)
	}
	if c.NoHooks {
		e["VERIF_EVLOG"] = "" // passive hooks: no event log, no monitor mutex between the goroutines
	}
	return e
}

// execSpec runs a spec once in a fresh (or given) case root.
func execSpec(c *chk.Ctx, root string, s *spec.Spec, cfg Cfg, behav vproto.Behaviours, keepWd bool, runNo int) *run.Result {
	sp := s
	if cfg.MaxTasks > 0 && cfg.MaxTasks != s.MaxTasks {
		sp = s.Clone()
		sp.MaxTasks = cfg.MaxTasks
	}
	bin := c.Bin
	soft, hard := 25*time.Second, 120*time.Second
	env := cfg.env()
	if c.Prop == "C11" && len(root) > 0 && root[len(root)-1]%2 == 0 {
		// half of C11's histories (all runs of one case alike) happen in a time zone that is not UTC: records written and
		// read back, embedded and on disk, carry an offset
		env["TZ"] = "Asia/Kolkata"
	}
	if cfg.Race {
		bin = c.RaceBin
		soft, hard = 90*time.Second, 300*time.Second
		env["GORACE"] = "halt_on_error=0 log_path=" + filepath.Join(root, "meta", "race")
	}
	if cfg.SoftSec > 0 {
		soft = time.Duration(cfg.SoftSec) * time.Second
	}
	cs := &run.Case{Root: root, Bin: bin, Spec: sp, Env: env, Behav: behav, KeepWd: keepWd, RunNo: runNo, Soft: soft, Hard: hard, SlowStderr: cfg.SlowErr, WdRel: cfg.WdRel, StdinOpen: cfg.StdinOpen}
	if cfg.StraceKill != "" {
		k := strings.LastIndex(cfg.StraceKill, ":")
		cs.Wrap = []string{"strace", "-f", "-qq", "-e", "trace=%file", "-o", filepath.Join(root, "meta", fmt.Sprintf("strace.%d.log", runNo)),
			"-e", fmt.Sprintf("inject=%s:signal=SIGKILL:when=%s", cfg.StraceKill[:k], cfg.StraceKill[k+1:])}
		cs.Soft, cs.Hard = 60*time.Second, 150*time.Second
	}
	if cfg.NoFile > 0 {
		cs.Wrap = []string{"/bin/bash", "-c", fmt.Sprintf("ulimit -n %d; exec \"$@\"", cfg.NoFile), "wrap"}
	}
	c.Eval(1)
	res := cs.Run()
	if res.Signal == "killed" && res.Hang == "" && cfg.Crash == "" && cfg.StraceKill == "" && !behavKillsGroup(behav) {
		// The subject died from a SIGKILL that this experiment did not send (no crash point, no group kill by a
		// command) and that the library cannot send (it contains no kill). Seen once on a heavily loaded machine;
		// the sender could not be identified. Such a run says nothing about the property: inconclusive.
		res.Hang = "inconclusive:subject-killed-by-a-SIGKILL-the-experiment-did-not-send"
		c.Count("runs_killed_from_outside", 1)
	}
	return res
}

func behavKillsGroup(b vproto.Behaviours) bool {
	for _, opts := range b {
		if opts["killgroup"] != "" {
			return true
		}
	}
	return false
}

// sourcesOf returns the pre-run files of a spec as ref input.
func sourcesOf(s *spec.Spec) map[string][]byte {
	m := map[string][]byte{}
	for p, c := range s.Sources {
		m[p] = []byte(c)
	}
	return m
}

func evalRef(s *spec.Spec, behav vproto.Behaviours) *ref.Result {
	r := ref.Eval(&ref.Input{Spec: s, Files: sourcesOf(s), Behav: behav})
	if r.Err == "" {
		// generated names grow along chains; a path segment must stay below NAME_MAX (255) - also with
		// the ".audit.json" suffix - and the temp-dir encoded form must too
		for _, t := range r.Tasks {
			for _, p := range t.Outs {
				for _, seg := range strings.Split(p, "/") {
					if len(seg) > 230 {
						r.Err = "generated output name longer than a path segment may be"
					}
				}
				if len(p) > 900 {
					r.Err = "generated output path too long"
				}
			}
		}
	}
	return r
}

func preSet(s *spec.Spec) map[string]bool {
	m := map[string]bool{}
	for p := range s.Sources {
		m[filepath.Clean(p)] = true
	}
	return m
}

func replay(args []string) {
	if len(args) < 1 {
		fmt.Println("usage: vcheck replay <file> [repetitions]")
		os.Exit(64)
	}
	b, err := os.ReadFile(args[0])
	if err != nil {
		fmt.Println(err)
		os.Exit(2)
	}
	var rf struct {
		Property  string `json:"property"`
		Signature string `json:"signature"`
		What      string `json:"what"`
		Seed      int64  `json:"seed"`
		Tier      string `json:"tier"`
		Replay    struct {
			Spec  *spec.Spec        `json:"spec"`
			Cfg   Cfg               `json:"cfg"`
			Behav vproto.Behaviours `json:"behav"`
			Crash *struct {
				Point string `json:"point"`
				Who   string `json:"who"`
				N     int    `json:"n"`
			} `json:"crash"`
			KillAt int `json:"kill_at_trace_line"`
		} `json:"replay"`
	}
	if err := json.Unmarshal(b, &rf); err != nil {
		fmt.Println("cannot parse replay file:", err)
		os.Exit(2)
	}
	fmt.Printf("property %s, signature %s (seed %d, tier %s)\n%s\n\n", rf.Property, rf.Signature, rf.Seed, rf.Tier, rf.What)
	if rf.Replay.Spec == nil {
		fmt.Println("this replay file carries no workflow spec (in-process case); re-run the check with the same VERIF_SEED and tier: the case list is determined by them.")
		return
	}
	reps := 1
	if len(args) > 1 {
		reps, _ = strconv.Atoi(args[1])
	}
	c := chk.New("replay", "exploration", []string{"--tier", rf.Tier})
	c.Build(rf.Replay.Cfg.Race)
	for r := 0; r < reps; r++ {
		root := c.CaseDir()
		cfg := rf.Replay.Cfg
		if rf.Replay.Crash != nil {
			cfg.Crash = fmt.Sprintf("%s|%s|%d", rf.Replay.Crash.Point, rf.Replay.Crash.Who, rf.Replay.Crash.N)
		}
		env := cfg.env()
		bin := c.Bin
		if cfg.Race {
			bin = c.RaceBin
			env["GORACE"] = "halt_on_error=0 log_path=" + filepath.Join(root, "meta", "race")
		}
		cs := &run.Case{Root: root, Bin: bin, Spec: rf.Replay.Spec, Env: env, Behav: rf.Replay.Behav, KillAtTraceLine: rf.Replay.KillAt}
		res := cs.Run()
		fmt.Printf("--- execution %d: exit=%d signal=%q returned=%v hang=%q trace-events=%d hook-events=%d\n", r+1, res.Exit, res.Signal, res.Returned, res.Hang, len(res.Trace), len(res.Events))
		ti := mon.Index(res.Trace)
		var keys []string
		for k := range ti.Starts {
			keys = append(keys, fmt.Sprintf("%s x%d (ends ok: %v)", k, len(ti.Starts[k]), ti.EndOK(k)))
		}
		sort.Strings(keys)
		for _, k := range keys {
			fmt.Println("   task", k)
		}
		snap := run.Snap(res.Wd)
		for _, f := range snap.Files() {
			fmt.Println("   file", f, snap[f].Size)
		}
		for _, l := range snap.Leftovers() {
			fmt.Println("   leftover", l)
		}
		for _, rr := range mon.ParseRaceLogs(filepath.Join(root, "meta", "race")) {
			fmt.Println("   race", rr.Sig)
		}
		fmt.Println("   output tail:", tail(res.Output(), 600))
	}
	fmt.Println("\nThe verdict itself is produced by the property's check: run it with the same VERIF_SEED and tier to re-judge this case with its oracle.")
	os.RemoveAll(c.Scratch)
}
