package main

import (
	"bufio"
	"encoding/json"
	"fmt"
	"os"
	"path/filepath"
	"strings"

	"verif/internal/chk"
	"verif/internal/gen"
	"verif/internal/run"
)

func init() { checks["C14"] = c14 }

func c14(args []string) {
	c := chk.New("C14", "exploration", args)
	c.Build(false)
	c.Rule("in-process batches (subject mode 'tempdir'): Task.TempDir() of tasks built with the public NewTask for identities (process name, in-port -> path, sub-stream members, parameters, tags) enumerated exhaustively over a small alphabet (names {a,b,ab,A}; paths over segments {a,b,ab,c}, relative and absolute; 0-2 parameters / tags with values {a,b,ab,a_b,b_c}; sub-streams of 0-2 members) and drawn randomly from large ones (names up to 420 bytes incl. every length 1..420, deep paths); oracle: identities are grouped by TempDir(): two different identities with the same directory are a collision; every identity is evaluated 8 times from freshly built maps (stability); every identity is evaluated again in a second process whose working directory lies four levels deeper (stability across runs, also after the project directory was moved); every name is one path segment of 1..255 bytes; identities whose input paths exist as symbolic links to one file / lead through a symbolic link to a directory in the first process's working directory; identities that differ only in a special value (printf / date verbs with different flags, blanks, surrounding white space, case, non-ASCII, shell metacharacters) as parameter value, tag value and process name; parameter names differing only in case. distinct_nontrivial = distinct identities evaluated")
	c.Assume("identities are compared on cleaned paths", "known finding: the hash pre-image is a separator-less concatenation of the pieces; collisions between identities whose reference pre-images are equal are reported as KNOWN-FINDING, every other collision is a violation")
	rng := c.Rand("c14")
	cases := gen.TDExhaustive(c.Thorough())
	c.Set("exhaustive_identities", len(cases))
	c.Exhaustive(false)
	cases = append(cases, gen.TDRandom(rng, c.Pick(5000, 100000), len(cases))...)
	byID := map[int]*gen.TDCase{}
	for i, cs := range cases {
		cs.ID = i
		byID[i] = cs
	}
	bs := 20000
	nb := (len(cases) + bs - 1) / bs
	type res struct {
		ID     int    `json:"id"`
		Dir    string `json:"dir"`
		Stable bool   `json:"stable"`
	}
	results := make([][]res, nb)
	run.Parallel(nb, func(b int) {
		lo, hi := b*bs, (b+1)*bs
		if hi > len(cases) {
			hi = len(cases)
		}
		root := c.CaseDir()
		defer c.Drop(root)
		os.MkdirAll(filepath.Join(root, "meta"), 0777)
		in := filepath.Join(root, "meta", "ids.jsonl")
		out := filepath.Join(root, "meta", "dirs.jsonl")
		f, _ := os.Create(in)
		w := bufio.NewWriter(f)
		for _, cs := range cases[lo:hi] {
			jb, _ := json.Marshal(cs)
			w.Write(jb)
			w.WriteString("\n")
		}
		w.Flush()
		f.Close()
		// some input paths of the identities exist in the first process's working directory, as symbolic links to one
		// file and through a symbolic link to a directory: the name depends on the path as written, not on what it
		// resolves to (and the second process, where nothing exists, must give the same names)
		wd := filepath.Join(root, "wd")
		os.MkdirAll(filepath.Join(wd, "data"), 0777)
		os.MkdirAll(filepath.Join(wd, "lnk"), 0777)
		os.WriteFile(filepath.Join(wd, "data", "sample.txt"), []byte("sample\n"), 0644)
		os.WriteFile(filepath.Join(wd, "lnk", "real.txt"), []byte("real\n"), 0644)
		os.Symlink("../data/sample.txt", filepath.Join(wd, "lnk", "a.txt"))
		os.Symlink("../data/sample.txt", filepath.Join(wd, "lnk", "b.txt"))
		os.Symlink("data", filepath.Join(wd, "ldir"))
		rc := &run.Case{Root: root, Bin: c.Bin, Mode: "tempdir", Args: []string{in, out}, KeepWd: true}
		r := rc.Run()
		if r.Exit != 0 || !strings.Contains(r.Output(), "TD-DONE") {
			c.Violation("tempdir-evaluation-failed", fmt.Sprintf("batch %d exited %d: %s", b, r.Exit, tail(r.Output(), 500)), nil)
			return
		}
		of, _ := os.Open(out)
		defer of.Close()
		sc := bufio.NewScanner(of)
		sc.Buffer(make([]byte, 1<<20), 1<<24)
		for sc.Scan() {
			var x res
			if json.Unmarshal(sc.Bytes(), &x) == nil {
				results[b] = append(results[b], x)
			}
		}
		// a second, independent process must give the same names (stability across runs)
		out2 := filepath.Join(root, "meta", "dirs2.jsonl")
		rc2 := &run.Case{Root: root, Bin: c.Bin, Mode: "tempdir", Args: []string{in, out2}, KeepWd: true, RunNo: 1, Env: map[string]string{"GOMAXPROCS": "1"},
			WdRel: "wd/moved/two/levels/down"} // the project directory was moved between the runs: the name depends on the identity only
		r2 := rc2.Run()
		if r2.Exit == 0 {
			of2, _ := os.Open(out2)
			defer of2.Close()
			sc2 := bufio.NewScanner(of2)
			sc2.Buffer(make([]byte, 1<<20), 1<<24)
			k := 0
			for sc2.Scan() {
				var x res
				if json.Unmarshal(sc2.Bytes(), &x) == nil && k < len(results[b]) {
					if results[b][k].ID == x.ID && results[b][k].Dir != x.Dir {
						results[b][k].Stable = false
					}
					k++
				}
			}
			c.Count("identities_evaluated_in_two_processes", k)
		}
	})
	groups := map[string][]int{}
	for _, rs := range results {
		for _, x := range rs {
			c.Eval(1)
			cs := byID[x.ID]
			if !x.Stable {
				c.Violation("tempdir-unstable", fmt.Sprintf("identity %s gave different temp directories in repeated evaluations", cs.Canon()), map[string]interface{}{"identity": cs})
			}
			if x.Dir == "" || strings.Contains(x.Dir, "/") || len(x.Dir) > 255 {
				c.Violation("tempdir-not-a-valid-segment", fmt.Sprintf("identity with a %d-byte process name: temp directory name has %d bytes / is not a single path segment: %s", len(cs.Name), len(x.Dir), clip(x.Dir, 80)), map[string]interface{}{"identity": cs, "dir": x.Dir})
			} else if x.Dir != cs.RefName() {
				// informational only: the property does not fix the recipe (the suite pins one value of it)
				c.Count("names_differing_from_the_documented_recipe", 1)
			}
			groups[x.Dir] = append(groups[x.Dir], x.ID)
			c.Nontrivial(cs.Canon())
		}
	}
	ncoll := 0
	for dir, ids := range groups {
		canon := map[string]*gen.TDCase{}
		for _, id := range ids {
			canon[byID[id].Canon()] = byID[id]
		}
		if len(canon) < 2 {
			continue
		}
		ncoll++
		// explained by the separator-less pre-image?
		pre := map[string]bool{}
		var list []string
		for k, cs := range canon {
			pre[cs.Preimage()] = true
			list = append(list, k)
		}
		if len(list) > 4 {
			list = list[:4]
		}
		if len(pre) == 1 {
			c.Violation("preimage-concat-ambiguity", fmt.Sprintf("%d different task identities share %s: %v", len(canon), dir, list), map[string]interface{}{"dir": dir, "identities": list})
		} else {
			c.Violation("tempdir-collision", fmt.Sprintf("%d different task identities share %s and their reference pre-images differ: %v", len(canon), dir, list), map[string]interface{}{"dir": dir, "identities": list})
		}
	}
	c.Set("directories_shared_by_different_identities", ncoll)
	c.Set("distinct_directories", len(groups))
	for i := 0; i < 3 && i < len(cases); i++ {
		cs := cases[(i*7919)%len(cases)]
		c.Sample(map[string]interface{}{"identity": cs.Canon(), "reference_dir": cs.RefName()})
	}
	c.Finish()
}
