package main

func runFmt(in, out string)     {}
func runTempDir(in, out string) {}
func runAuditRT(in, out string) {}
