package main

import (
	"bufio"
	"encoding/json"
	"fmt"
	"os"
	"strconv"
	"strings"

	sp "github.com/scipipe/scipipe"

	"verif/internal/spec"
	"verif/internal/vproto"
)

func runFmt(in, out string)     { runFmtImpl(in, out) }
func runTempDir(in, out string) { runTempDirImpl(in, out) }

// runAuditRT: for every data file listed in `list` (paths relative to the
// current directory) load its audit record through the library and write it
// back through the library; the original file is kept as <path>.audit.json.orig
// so that the harness can compare both as JSON values.
func runAuditRT(list, _ string) {
	sp.InitLogError()
	f, err := os.Open(list)
	if err != nil {
		fmt.Fprintln(os.Stderr, err)
		os.Exit(64)
	}
	defer f.Close()
	sc := bufio.NewScanner(f)
	n := 0
	for sc.Scan() {
		p := strings.TrimSpace(sc.Text())
		if p == "" {
			continue
		}
		ip, err := sp.NewFileIP(p)
		if err != nil {
			fmt.Println("AUDITRT-ERROR", p, err)
			continue
		}
		ai := ip.AuditInfo()
		_ = ai
		if err := os.Rename(p+".audit.json", p+".audit.json.orig"); err != nil {
			fmt.Println("AUDITRT-ERROR", p, err)
			continue
		}
		ip.WriteAuditLogToFile()
		n++
	}
	b, _ := json.Marshal(map[string]int{"roundtrips": n})
	fmt.Println("AUDITRT-DONE", string(b))
}

// TaskAPISpec drives tasks through the exported task API (NewTask, Task.Execute, Task.Done) the way a custom
// scheduler would: every task gets its own core count, all of them are started at once.
type TaskAPISpec struct {
	Max       int `json:"max"`
	ProcCores int `json:"proc_cores"`
	Tasks     []struct {
		Cores int `json:"cores"`
		MS    int `json:"ms"`
	} `json:"tasks"`
}

func runTaskAPI(path string) {
	b, err := os.ReadFile(path)
	if err != nil {
		fmt.Fprintln(os.Stderr, err)
		os.Exit(64)
	}
	var s TaskAPISpec
	if err := json.Unmarshal(b, &s); err != nil {
		fmt.Fprintln(os.Stderr, err)
		os.Exit(64)
	}
	wf := sp.NewWorkflow("taskapi", s.Max)
	p := wf.NewProc("custom", spec.VcmdPath+" run id=API{p:n} o=out:{o:out} p=n:{p:n} sleep={p:ms}")
	p.SetOut("out", "api_{p:n}.out")
	if s.ProcCores > 0 {
		p.CoresPerTask = s.ProcCores
	}
	var tasks []*sp.Task
	for i, ts := range s.Tasks {
		params := map[string]string{"n": fmt.Sprintf("%02d", i), "ms": strconv.Itoa(ts.MS)}
		t := sp.NewTask(wf, p, p.Name(), p.CommandPattern, map[string]*sp.FileIP{}, p.PathFuncs, p.PortInfo, params, map[string]string{}, "", nil, ts.Cores)
		tasks = append(tasks, t)
	}
	for _, t := range tasks {
		go t.Execute()
	}
	for _, t := range tasks {
		<-t.Done
	}
	t := vproto.MonoNS()
	rec := map[string]interface{}{"t": t, "children": liveChildren(), "listing": listDir(".")}
	jb, _ := json.Marshal(rec)
	vproto.Emit(&vproto.Event{Ev: "ret", T: t})
	os.Stdout.WriteString("\nRUN-RETURNED " + string(jb) + "\n")
}
