package main

import (
	"bufio"
	"encoding/json"
	"fmt"
	"os"
	"strings"

	sp "github.com/scipipe/scipipe"
)

func runFmt(in, out string)     { runFmtImpl(in, out) }
func runTempDir(in, out string) { runTempDirImpl(in, out) }

// runAuditRT: for every data file listed in `list` (paths relative to the
// current directory) load its audit record through the library and write it
// back through the library; the original file is kept as <path>.audit.json.orig
// so that the harness can compare both as JSON values.
func runAuditRT(list, _ string) {
	sp.InitLogError()
	f, err := os.Open(list)
	if err != nil {
		fmt.Fprintln(os.Stderr, err)
		os.Exit(64)
	}
	defer f.Close()
	sc := bufio.NewScanner(f)
	n := 0
	for sc.Scan() {
		p := strings.TrimSpace(sc.Text())
		if p == "" {
			continue
		}
		ip, err := sp.NewFileIP(p)
		if err != nil {
			fmt.Println("AUDITRT-ERROR", p, err)
			continue
		}
		ai := ip.AuditInfo()
		_ = ai
		if err := os.Rename(p+".audit.json", p+".audit.json.orig"); err != nil {
			fmt.Println("AUDITRT-ERROR", p, err)
			continue
		}
		ip.WriteAuditLogToFile()
		n++
	}
	b, _ := json.Marshal(map[string]int{"roundtrips": n})
	fmt.Println("AUDITRT-DONE", string(b))
}
