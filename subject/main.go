// wfrun is the subject of the runtime monitors: it links scipipe (from /repo's
// working tree, built with -tags verif), builds a workflow from a JSON spec
// through the public API only, runs it and reports what is visible at the
// instant Run returns.
package main

import (
	"encoding/json"
	"fmt"
	"io"
	"os"
	"os/signal"
	"path/filepath"
	"regexp"
	"sort"
	"strconv"
	"strings"
	"sync"
	"syscall"
	"time"

	sp "github.com/scipipe/scipipe"
	"github.com/scipipe/scipipe/components"

	"verif/internal/spec"
	"verif/internal/vproto"
)

func main() {
	if len(os.Args) < 3 {
		fmt.Fprintln(os.Stderr, "usage: wfrun run|fmt|tempdir|auditrt|taskapi <file>")
		os.Exit(64)
	}
	if v := os.Getenv("VERIF_FSIZE"); v != "" {
		// a file size limit (quota-like fault): writes beyond it fail with EFBIG - the signal that comes with it is
		// ignored, as a long-running service would have it
		var n uint64
		fmt.Sscanf(v, "%d", &n)
		signal.Ignore(syscall.SIGXFSZ)
		var rl syscall.Rlimit
		if syscall.Getrlimit(syscall.RLIMIT_FSIZE, &rl) == nil && n > 0 {
			rl.Cur = n
			syscall.Setrlimit(syscall.RLIMIT_FSIZE, &rl)
		}
	}
	switch os.Args[1] {
	case "run":
		runSpec(os.Args[2])
	case "fmt":
		runFmt(os.Args[2], os.Args[3])
	case "tempdir":
		runTempDir(os.Args[2], os.Args[3])
	case "auditrt":
		runAuditRT(os.Args[2], os.Args[3])
	case "taskapi":
		runTaskAPI(os.Args[2])
	default:
		fmt.Fprintln(os.Stderr, "unknown mode")
		os.Exit(64)
	}
}

// node gives uniform access to the ports of the different process types.
type node struct {
	proc     sp.WorkflowProcess
	in       func(string) *sp.InPort
	out      func(string) *sp.OutPort
	inParam  func(string) *sp.InParamPort
	outParam func(string) *sp.OutParamPort
}

func tagValue(rule string, path string) string {
	base := filepath.Base(path)
	switch {
	case rule == "stem":
		if i := strings.Index(base, "."); i > 0 {
			return base[:i]
		}
		return base
	case rule == "ext":
		return strings.TrimPrefix(filepath.Ext(base), ".")
	case rule == "idx":
		d := regexp.MustCompile(`[0-9]+`).FindString(base)
		if d == "" {
			return "0"
		}
		return d
	case strings.HasPrefix(rule, "const:"):
		return rule[len("const:"):]
	case rule == "parity":
		// "even" / "odd" after the first number in the base name: two groups
		d := regexp.MustCompile(`[0-9]+`).FindString(base)
		n := 0
		fmt.Sscanf(d, "%d", &n)
		return []string{"even", "odd"}[n%2]
	case rule == "noext":
		// the whole base name without its last extension: values with dots, dashes and underscores in them
		return strings.TrimSuffix(base, filepath.Ext(base))
	case rule == "sparse3":
		// a tag for every third file only (the map function returns no tag for the others)
		d := regexp.MustCompile(`[0-9]+`).FindString(base)
		n := 0
		fmt.Sscanf(d, "%d", &n)
		if n%3 == 0 {
			return "t" + d
		}
		return ""
	}
	return "x"
}

func predicate(pred string) func(ip *sp.FileIP) bool {
	var mu sync.Mutex
	count := map[string]int{}
	switch {
	case pred == "all" || pred == "":
		return func(*sp.FileIP) bool { return true }
	case pred == "none":
		return func(*sp.FileIP) bool { return false }
	case strings.HasPrefix(pred, "notcontains:"):
		s := pred[len("notcontains:"):]
		return func(ip *sp.FileIP) bool { return !strings.Contains(filepath.Base(ip.Path()), s) }
	case strings.HasPrefix(pred, "contains:"):
		s := pred[len("contains:"):]
		return func(ip *sp.FileIP) bool { return strings.Contains(filepath.Base(ip.Path()), s) }
	}
	_ = mu
	_ = count
	return func(*sp.FileIP) bool { return true }
}

func buildWorkflow(s *spec.Spec) (*sp.Workflow, map[string]*node) {
	var wf *sp.Workflow
	if s.LogFile != "" {
		wf = sp.NewWorkflowCustomLogFile(s.Name, s.MaxTasks, s.LogFile)
	} else {
		wf = sp.NewWorkflow(s.Name, s.MaxTasks)
	}
	nodes := map[string]*node{}
	for _, ps := range s.Procs {
		ps := ps
		switch ps.Kind {
		case spec.KCmd, spec.KGoFunc:
			// both documented constructors: the method, and the package-level function used by wrapper components
			var p *sp.Process
			if len(ps.Name)%3 == 1 {
				p = sp.NewProc(wf, ps.Name, ps.Cmd)
			} else {
				p = wf.NewProc(ps.Name, ps.Cmd)
			}
			for _, o := range ps.Outs {
				o := o
				if o.Func != nil {
					p.SetOutFunc(o.Port, func(t *sp.Task) string {
						path := o.Func.Prefix
						if o.Func.InPort != "" {
							path += filepath.Base(t.InPath(o.Func.InPort))
						}
						if o.Func.Param != "" {
							path += "." + t.Param(o.Func.Param)
						}
						return path + o.Func.Suffix
					})
				} else {
					p.SetOut(o.Port, o.Pattern)
				}
			}
			if ps.NoSpawn {
				p.Spawn = false
			}
			if ps.Cores == -1 {
				p.CoresPerTask = 0 // a light-weight helper step that is not throttled
			}
			if ps.Cores > 0 {
				p.CoresPerTask = ps.Cores
			}
			p.Prepend = ps.Prepend
			if ps.Kind == spec.KGoFunc {
				if ps.ExecCmd {
					// a Go function that shells out through the library's helper; the tool writes into the task's temp directory
					p.CustomExecute = func(t *sp.Task) {
						sp.ExecCmd("cd " + t.TempDir() + " && " + t.Command + " && cd ..")
					}
				} else if ps.WriteAPI {
					p.CustomExecute = func(t *sp.Task) { goFuncWriteAPI(ps, t) }
				} else {
					p.CustomExecute = func(t *sp.Task) { goFunc(ps, t) }
				}
			}
			for _, f := range ps.Feeds {
				switch f.How {
				case "int":
					// one scratch slice for all numeric feeds of the program, overwritten after each call (a sweep that
					// fills one buffer per process): FromInt / FromFloat have taken their values when they return
					ints := scratchInts[:0]
					for _, v := range f.Values {
						n, _ := strconv.Atoi(v)
						ints = append(ints, n)
					}
					scratchInts = ints
					p.InParam(f.Port).FromInt(ints...)
					for k := range ints {
						ints[k] = -7777
					}
				case "float":
					fl := scratchFloats[:0]
					for _, v := range f.Values {
						x, _ := strconv.ParseFloat(v, 64)
						fl = append(fl, x)
					}
					scratchFloats = fl
					p.InParam(f.Port).FromFloat(fl...)
					for k := range fl {
						fl[k] = -7777.5
					}
				default:
					p.InParam(f.Port).FromStr(f.Values...)
				}
			}
			// processes with exactly one in-port / out-port are wired through the documented short form In("") /
			// Out("") when their name has even length (both forms must name the same port)
			short := len(ps.Name)%2 == 0
			inF := func(n string) *sp.InPort {
				if short && len(p.InPorts()) == 1 {
					if _, ok := p.InPorts()[n]; ok {
						return p.In("")
					}
				}
				return p.In(n)
			}
			outF := func(n string) *sp.OutPort {
				if short && len(p.OutPorts()) == 1 {
					if _, ok := p.OutPorts()[n]; ok {
						return p.Out("")
					}
				}
				return p.Out(n)
			}
			nodes[ps.Name] = &node{proc: p, in: inF, out: outF, inParam: p.InParam, outParam: p.OutParam}
		case spec.KFileSource:
			p := components.NewFileSource(wf, ps.Name, ps.Files...)
			nodes[ps.Name] = &node{proc: p, out: func(string) *sp.OutPort { return p.Out() }}
		case spec.KParamSource:
			p := components.NewParamSource(wf, ps.Name, ps.Values...)
			nodes[ps.Name] = &node{proc: p, outParam: func(string) *sp.OutParamPort { return p.Out() }}
		case spec.KMapToTags:
			p := components.NewMapToTags(wf, ps.Name, func(ip *sp.FileIP) map[string]string {
				m := map[string]string{}
				for _, r := range ps.Tags {
					if r.Rule == "blank" {
						m[r.Key] = "" // the tag is attached with an empty value (to be filled in later)
					} else if v := tagValue(r.Rule, ip.Path()); v != "" {
						m[r.Key] = v
					}
				}
				return m
			})
			nodes[ps.Name] = &node{proc: p, in: func(string) *sp.InPort { return p.In() }, out: func(string) *sp.OutPort { return p.Out() }}
		case spec.KSubStream:
			p := components.NewStreamToSubStream(wf, ps.Name)
			nodes[ps.Name] = &node{proc: p, in: func(string) *sp.InPort { return p.In() }, out: func(string) *sp.OutPort { return p.OutSubStream() }}
		case spec.KManualSub:
			p := newManualSub(wf, ps.Name)
			nodes[ps.Name] = &node{proc: p, in: func(string) *sp.InPort { return p.InPort("in") }, out: func(string) *sp.OutPort { return p.OutPort("substream") }}
		case spec.KConcat:
			p := components.NewConcatenator(wf, ps.Name, ps.OutPath)
			p.GroupByTag = ps.GroupBy
			nodes[ps.Name] = &node{proc: p, in: func(string) *sp.InPort { return p.In() }, out: func(string) *sp.OutPort { return p.Out() }}
		case spec.KFileComb:
			p := components.NewFileCombinator(wf, ps.Name)
			for _, pt := range ps.Ports {
				p.In(pt)
			}
			nodes[ps.Name] = &node{proc: p, in: p.In, out: p.Out}
		case spec.KParamComb:
			p := components.NewParamCombinator(wf, ps.Name)
			for _, pt := range ps.Ports {
				p.InParam(pt)
			}
			nodes[ps.Name] = &node{proc: p, inParam: p.InParam, outParam: p.OutParam}
		case spec.KSelector:
			p := components.NewIPSelectorSync(wf, ps.Name, predicate(ps.Pred))
			for _, pt := range ps.Ports {
				p.In(pt)
				p.Out(pt)
			}
			nodes[ps.Name] = &node{proc: p, in: p.In, out: p.Out}
		case spec.KSplitter:
			p := components.NewFileSplitter(wf, ps.Name, ps.Lines)
			nodes[ps.Name] = &node{proc: p, in: func(string) *sp.InPort { return p.InFile() }, out: func(string) *sp.OutPort { return p.OutSplitFile() }}
		case spec.KGlobber:
			var p *components.FileGlobber
			if ps.DepIn {
				p = components.NewFileGlobberDependent(wf, ps.Name, ps.Files...)
			} else {
				p = components.NewFileGlobber(wf, ps.Name, ps.Files...)
			}
			nodes[ps.Name] = &node{proc: p, in: func(string) *sp.InPort { return p.InDependency() }, out: func(string) *sp.OutPort { return p.Out() }}
		case spec.KFileParams:
			p := components.NewFileToParamsReader(wf, ps.Name, ps.File)
			nodes[ps.Name] = &node{proc: p, outParam: func(string) *sp.OutParamPort { return p.OutLine() }}
		case spec.KCmdParams:
			p := components.NewCommandToParams(wf, ps.Name, ps.Shell)
			nodes[ps.Name] = &node{proc: p, outParam: func(string) *sp.OutParamPort { return p.OutParam() }}
		case spec.KRecorder:
			p := newRecorder(wf, ps.Name)
			p.delay = time.Duration(ps.DelayMS) * time.Millisecond
			nodes[ps.Name] = &node{proc: p, in: func(string) *sp.InPort { return p.InPort("in") }, out: func(string) *sp.OutPort { return p.OutPort("out") }}
		case spec.KParamRec:
			p := newParamRecorder(wf, ps.Name)
			nodes[ps.Name] = &node{proc: p, inParam: func(string) *sp.InParamPort { return p.InParamPort("in") }, outParam: func(string) *sp.OutParamPort { return p.OutParamPort("out") }}
		default:
			fmt.Fprintln(os.Stderr, "wfrun: unknown kind", ps.Kind)
			os.Exit(64)
		}
	}
	for _, c := range s.Conns {
		fp, fport := spec.SplitPort(c.From)
		tp, tport := spec.SplitPort(c.To)
		fn, tn := nodes[fp], nodes[tp]
		if fn == nil || tn == nil {
			fmt.Fprintln(os.Stderr, "wfrun: bad connection", c.From, c.To)
			os.Exit(64)
		}
		if c.Param {
			if c.Via == "to" {
				fn.outParam(fport).To(tn.inParam(tport))
			} else {
				tn.inParam(tport).From(fn.outParam(fport))
			}
		} else {
			if c.Via == "to" {
				fn.out(fport).To(tn.in(tport))
			} else {
				tn.in(tport).From(fn.out(fport))
			}
			if c.Undo != "" {
				// the connection is taken off again through the ports' public Disconnect
				tn.in(tport).Disconnect(fn.out(fport).Name())
				if c.Undo == "both" {
					fn.out(fport).Disconnect(tn.in(tport).Name())
				}
			}
		}
	}
	return wf, nodes
}

type listing struct {
	Path string `json:"path"`
	Size int64  `json:"size"`
	Mode string `json:"mode"`
}

func listDir(root string) []listing {
	var out []listing
	filepath.Walk(root, func(p string, fi os.FileInfo, err error) error {
		if err != nil || p == root {
			return nil
		}
		rel, _ := filepath.Rel(root, p)
		if rel == "log" || strings.HasPrefix(rel, "log/") || strings.HasPrefix(rel, ".verif") {
			if fi.IsDir() {
				return filepath.SkipDir
			}
			return nil
		}
		m := "f"
		switch {
		case fi.IsDir():
			m = "d"
		case fi.Mode()&os.ModeNamedPipe != 0:
			m = "p"
		case fi.Mode()&os.ModeSymlink != 0:
			m = "l"
		}
		out = append(out, listing{rel, fi.Size(), m})
		return nil
	})
	sort.Slice(out, func(i, j int) bool { return out[i].Path < out[j].Path })
	return out
}

func liveChildren() []int {
	var kids []int
	tasks, _ := filepath.Glob("/proc/self/task/*/children")
	for _, t := range tasks {
		b, err := os.ReadFile(t)
		if err != nil {
			continue
		}
		for _, f := range strings.Fields(string(b)) {
			n, _ := strconv.Atoi(f)
			kids = append(kids, n)
		}
	}
	return kids
}

var (
	scratchInts   []int
	scratchFloats []float64
)

// wrappedProc is a component in the documented style: a struct that embeds a *scipipe.Process.
type wrappedProc struct {
	*sp.Process
}

func runSpec(path string) {
	s, err := spec.Load(path)
	if err != nil {
		fmt.Fprintln(os.Stderr, "wfrun:", err)
		os.Exit(64)
	}
	if os.Getenv("VERIF_DEBUGLOG") != "" {
		sp.InitLogDebug() // the documented DEBUG level, chosen before the workflow is made (the first initialisation wins)
	}
	for it := 1; it < s.Run.Repeat; it++ {
		wfi, _ := buildWorkflow(s)
		wfi.Run()
		if it%500 == 0 {
			os.Stdout.WriteString(fmt.Sprintf("\nITERATIONS-DONE %d\n", it))
		}
	}
	// further workflows of the same program, run concurrently with the main one
	var alsoDone []chan struct{}
	for _, a := range s.Also {
		wfa, _ := buildWorkflow(a)
		ch := make(chan struct{})
		alsoDone = append(alsoDone, ch)
		go func() {
			wfa.Run()
			close(ch)
		}()
	}
	defer func() {
		for _, ch := range alsoDone {
			<-ch
		}
	}()
	wf, nodes := buildWorkflow(s)
	if os.Getenv("VERIF_QUIETLOG") != "" {
		sp.InitLogError()
	}
	switch s.Run.Mode {
	case "", "run":
		wf.Run()
	case "runto":
		wf.RunTo(s.Run.Targets...)
	case "runtoregex":
		wf.RunToRegex(s.Run.Targets...)
	case "runtoprocs":
		ps := []sp.WorkflowProcess{}
		for i, t := range s.Run.Targets {
			// every second target is passed as a re-usable-component wrapper (a struct embedding *Process), the
			// documented way to build components
			if pr, ok := nodes[t].proc.(*sp.Process); ok && (len(t)+i)%2 == 0 {
				ps = append(ps, &wrappedProc{pr})
			} else {
				ps = append(ps, nodes[t].proc)
			}
		}
		wf.RunToProcs(ps...)
	}
	// The very next statements after Run returned.
	t := vproto.MonoNS()
	kids := liveChildren()
	ls := listDir(".")
	rec := map[string]interface{}{"t": t, "children": kids, "listing": ls}
	b, _ := json.Marshal(rec)
	vproto.Emit(&vproto.Event{Ev: "ret", T: t})
	os.Stdout.WriteString("\nRUN-RETURNED " + string(b) + "\n")
}

// goFunc performs the task protocol in-process: the formatted command of the
// task is interpreted the way vcmd would, with every relative path resolved
// against the task's temp directory (where a command would have run).
func goFunc(ps *spec.Proc, t *sp.Task) {
	toks := strings.Fields(t.Command)
	// drop everything up to and including "run"
	for i, tk := range toks {
		if tk == "run" {
			toks = toks[i+1:]
			break
		}
	}
	env := &vproto.Env{Cwd: t.TempDir(), WfDir: ".", InProc: true, Fail: func(msg string) { t.Failf("%s", msg) }}
	st := vproto.Exec(toks, env)
	if st != 0 {
		t.Failf("go function task failed with status %d", st)
	}
}

// goFuncWriteAPI uses the API documented in docs/howtos/golang_components.md.
func goFuncWriteAPI(ps *spec.Proc, t *sp.Task) {
	toks := strings.Fields(t.Command)
	for i, tk := range toks {
		if tk == "run" {
			toks = toks[i+1:]
			break
		}
	}
	c := vproto.Parse(toks)
	key := c.Key()
	vproto.Emit(&vproto.Event{Ev: "start", ID: c.ID, Key: key, Pid: os.Getpid(), Argv: toks, InProc: true})
	if d, err := strconv.Atoi(c.Opts["sleep"]); err == nil && d > 0 {
		time.Sleep(time.Duration(d) * time.Millisecond)
	}
	// The accessors of the documented API must agree with each other and with what the command line says.
	mismatch := func(format string, a ...interface{}) {
		t.Failf("Task / FileIP API mismatch in Go function of %s: %s", key, fmt.Sprintf(format, a...))
	}
	inShas := []vproto.KV{}
	for _, kv := range c.Ins {
		ip := t.InIP(kv.K)
		data := ip.Read()
		fh := ip.Open()
		viaOpen, _ := io.ReadAll(fh)
		fh.Close()
		if string(viaOpen) != string(data) {
			mismatch("InIP(%s).Open() and .Read() return different bytes", kv.K)
		}
		if fi, err := os.Stat(ip.Path()); err == nil && !fi.IsDir() && ip.Size() != int64(len(data)) {
			mismatch("InIP(%s).Size() = %d, Read() returned %d bytes", kv.K, ip.Size(), len(data))
		}
		if t.InPath(kv.K) != ip.Path() {
			mismatch("InPath(%s) = %q, InIP().Path() = %q", kv.K, t.InPath(kv.K), ip.Path())
		}
		if filepath.Clean(vproto.NormIn(kv.V)) != filepath.Clean(ip.Path()) && !filepath.IsAbs(ip.Path()) && !strings.Contains(ip.Path(), "..") {
			mismatch("the command line names %q for in-port %s, InIP().Path() is %q", kv.V, kv.K, ip.Path())
		}
		inShas = append(inShas, vproto.KV{K: kv.K, V: vproto.Sha(data)})
	}
	for _, kv := range c.Params {
		if t.Param(kv.K) != kv.V {
			mismatch("Param(%s) = %q, the command line has %q", kv.K, t.Param(kv.K), kv.V)
		}
	}
	size := 40
	if n, err := strconv.Atoi(c.Opts["size"]); err == nil {
		size = n
	}
	outs := map[string]string{}
	// every out-port of the task, also those declared only through SetOut / SetOutFunc
	for port := range t.OutIPs {
		if t.OutPath(port) != t.OutIP(port).Path() {
			mismatch("OutPath(%s) = %q, OutIP().Path() = %q", port, t.OutPath(port), t.OutIP(port).Path())
		}
		data := vproto.Content(c.ID, port, c.Params, c.Tags, inShas, nil, size)
		t.OutIP(port).Write(data)
		outs[port] = vproto.Sha(data)
	}
	ins := map[string]string{}
	for _, kv := range inShas {
		ins[kv.K] = kv.V
	}
	switch vproto.OptsFor(c, key)["fail"] {
	case "exit-after-write":
		// the function reports a failure after it has written all its outputs
		vproto.Emit(&vproto.Event{Ev: "end", ID: c.ID, Key: key, Pid: os.Getpid(), Status: 3, Note: "exit-after-write", Ins: ins, Outs: outs, InProc: true})
		t.Failf("go function of %s failed after writing its outputs", key)
	case "panic-after-write":
		vproto.Emit(&vproto.Event{Ev: "end", ID: c.ID, Key: key, Pid: os.Getpid(), Status: 2, Note: "panic-after-write", Ins: ins, Outs: outs, InProc: true})
		panic("injected panic in the Go function of task " + key)
	}
	vproto.Emit(&vproto.Event{Ev: "end", ID: c.ID, Key: key, Pid: os.Getpid(), Status: 0, Ins: ins, Outs: outs, InProc: true})
}

// manualSub is a hand-written gathering component: it collects the IPs of its in-port and hands them on as the
// sub-stream of one carrier IP, feeding the carrier's SubStream port itself (not through StreamToSubStream).
type manualSub struct {
	sp.BaseProcess
}

func newManualSub(wf *sp.Workflow, name string) *manualSub {
	p := &manualSub{BaseProcess: sp.NewBaseProcess(wf, name)}
	p.InitInPort(p, "in")
	p.InitOutPort(p, "substream")
	wf.AddProc(p)
	return p
}

func (p *manualSub) Run() {
	defer p.CloseAllOutPorts()
	var members []*sp.FileIP
	for ip := range p.InPort("in").Chan {
		members = append(members, ip)
	}
	carrier, err := sp.NewFileIP("carrier_of_" + p.Name() + ".tmp")
	if err != nil {
		p.Fail(err)
	}
	sub := sp.NewInPort("members")
	carrier.SubStream = sub
	go func() {
		for _, m := range members {
			sub.Chan <- m
		}
		close(sub.Chan)
	}()
	p.OutPort("substream").Send(carrier)
}

// ---------------------------------------------------------------------------
// Recorders: pass-through processes that log what passes, in order.
// ---------------------------------------------------------------------------

type recorder struct {
	sp.BaseProcess
	delay time.Duration
}

func newRecorder(wf *sp.Workflow, name string) *recorder {
	p := &recorder{BaseProcess: sp.NewBaseProcess(wf, name)}
	p.InitInPort(p, "in")
	p.InitOutPort(p, "out")
	wf.AddProc(p)
	return p
}

func (p *recorder) Run() {
	defer p.CloseAllOutPorts()
	i := 0
	for {
		if p.delay > 0 {
			time.Sleep(p.delay)
		}
		ip, ok := <-p.InPort("in").Chan
		if !ok {
			break
		}
		// is the file there at the moment the item is handed over? (sub-stream carriers and streamed items have none)
		_, statErr := os.Stat(ip.Path())
		vproto.Emit(&vproto.Event{Ev: "rec", Rec: p.Name(), Seq: i, Path: ip.Path(), Exists: statErr == nil})
		i++
		p.OutPort("out").Send(ip)
	}
}

type paramRecorder struct {
	sp.BaseProcess
}

func newParamRecorder(wf *sp.Workflow, name string) *paramRecorder {
	p := &paramRecorder{BaseProcess: sp.NewBaseProcess(wf, name)}
	p.InitInParamPort(p, "in")
	p.InitOutParamPort(p, "out")
	wf.AddProc(p)
	return p
}

func (p *paramRecorder) Run() {
	defer p.CloseAllOutPorts()
	i := 0
	for v := range p.InParamPort("in").Chan {
		vproto.Emit(&vproto.Event{Ev: "rec", Rec: p.Name(), Seq: i, Path: v})
		i++
		p.OutParamPort("out").Send(v)
	}
}
