package main

import (
	"bufio"
	"encoding/json"
	"fmt"
	"os"
	"sort"

	sp "github.com/scipipe/scipipe"
)

// FmtCase is one formatting case (C15): a process definition and one input set.
type FmtCase struct {
	ID      int                 `json:"id"`
	Proc    string              `json:"proc"`
	Cmd     string              `json:"cmd"`
	Outs    map[string]string   `json:"outs"` // SetOut patterns
	In      map[string]string   `json:"in"`
	Joined  map[string][]string `json:"joined"`
	Params  map[string]string   `json:"params"`
	Tags    map[string]string   `json:"tags"`
	Prepend string              `json:"prepend"`
	// in-ports whose file arrives as a stream: the IP is the out-IP of an upstream task with an {os:...} port
	InStream map[string]bool `json:"in_stream"`
}

// FmtResult is what the library produced.
type FmtResult struct {
	ID      int               `json:"id"`
	Command string            `json:"command"`
	Outs    map[string]string `json:"outs"`
	Again   bool              `json:"again"` // 8 evaluations gave identical results
}

var fmtWf *sp.Workflow

func newTaskFor(c *FmtCase) *sp.Task {
	if fmtWf == nil {
		fmtWf = sp.NewWorkflowCustomLogFile("fmt", 1, os.DevNull)
	}
	wf := fmtWf
	// one process at a time: forget the process of the previous case (Procs() is the workflow's own map)
	for k := range wf.Procs() {
		delete(wf.Procs(), k)
	}
	p := wf.NewProc(c.Proc, c.Cmd)
	ks := []string{}
	for k := range c.Outs {
		ks = append(ks, k)
	}
	sort.Strings(ks)
	for _, k := range ks {
		p.SetOut(k, c.Outs[k])
	}
	p.Prepend = c.Prepend
	inIPs := map[string]*sp.FileIP{}
	for port, path := range c.In {
		if c.InStream[port] {
			up := wf.NewProc("up_"+port, "gen > {os:s}")
			up.SetOut("s", path)
			ut := sp.NewTask(wf, up, up.Name(), up.CommandPattern, map[string]*sp.FileIP{}, up.PathFuncs, up.PortInfo, map[string]string{}, map[string]string{}, "", nil, 1)
			inIPs[port] = ut.OutIPs["s"]
			delete(wf.Procs(), up.Name())
			continue
		}
		ip, err := sp.NewFileIP(path)
		if err != nil {
			fmt.Println("FMT-ERROR", c.ID, err)
			os.Exit(3)
		}
		inIPs[port] = ip
	}
	for port, members := range c.Joined {
		carrier, err := sp.NewFileIP("carrier." + port)
		if err != nil {
			fmt.Println("FMT-ERROR", c.ID, err)
			os.Exit(3)
		}
		sub := sp.NewInPort("sub")
		for _, m := range members {
			ip, err := sp.NewFileIP(m)
			if err != nil {
				fmt.Println("FMT-ERROR", c.ID, err)
				os.Exit(3)
			}
			sub.Chan <- ip
		}
		close(sub.Chan)
		carrier.SubStream = sub
		inIPs[port] = carrier
	}
	params := map[string]string{}
	for k, v := range c.Params {
		params[k] = v
	}
	tags := map[string]string{}
	for k, v := range c.Tags {
		tags[k] = v
	}
	// every second task belongs to a Go-function process: its command pattern is expanded like any other (wrappers
	// hand t.Command to ssh or a scheduler, and the checks for missing values live in the expansion)
	var ce func(*sp.Task)
	if c.ID%2 == 1 {
		ce = func(*sp.Task) {}
	}
	return sp.NewTask(wf, p, p.Name(), p.CommandPattern, inIPs, p.PathFuncs, p.PortInfo, params, tags, p.Prepend, ce, 1)
}

func runFmtImpl(in, out string) {
	b, err := os.ReadFile(in)
	if err != nil {
		fmt.Fprintln(os.Stderr, err)
		os.Exit(64)
	}
	var cases []*FmtCase
	if err := json.Unmarshal(b, &cases); err != nil {
		fmt.Fprintln(os.Stderr, err)
		os.Exit(64)
	}
	of, _ := os.OpenFile(out, os.O_APPEND|os.O_CREATE|os.O_WRONLY, 0644)
	w := bufio.NewWriter(of)
	for _, c := range cases {
		// log the case before attempting it: a missing value ends the process
		fmt.Fprintf(w, "{\"attempt\":%d}\n", c.ID)
		w.Flush()
		t := newTaskFor(c)
		r := &FmtResult{ID: c.ID, Command: t.Command, Outs: map[string]string{}, Again: true}
		for port, ip := range t.OutIPs {
			r.Outs[port] = ip.Path()
		}
		for k := 0; k < 7; k++ {
			t2 := newTaskFor(c)
			if t2.Command != r.Command {
				r.Again = false
			}
			for port, ip := range t2.OutIPs {
				if r.Outs[port] != ip.Path() {
					r.Again = false
				}
			}
		}
		jb, _ := json.Marshal(r)
		w.Write(jb)
		w.WriteString("\n")
		w.Flush()
	}
	fmt.Println("FMT-DONE")
}

// TDCase is one task identity (C14).
type TDCase struct {
	ID     int                 `json:"id"`
	Name   string              `json:"name"`
	In     map[string]string   `json:"in"`
	Joined map[string][]string `json:"joined"`
	Params map[string]string   `json:"params"`
	Tags   map[string]string   `json:"tags"`
}

func tempDirOf(c *TDCase) string {
	cmd := "x"
	for port := range c.In {
		cmd += " {i:" + port + "}"
	}
	for port := range c.Joined {
		cmd += " {i:" + port + "|join: }"
	}
	fc := &FmtCase{ID: c.ID, Proc: c.Name, Cmd: cmd, In: c.In, Joined: c.Joined, Params: c.Params, Tags: c.Tags}
	if len(c.Joined) == 0 {
		// the public constructor alone is enough
		inIPs := map[string]*sp.FileIP{}
		for port, path := range c.In {
			ip, err := sp.NewFileIP(path)
			if err != nil {
				fmt.Println("TD-ERROR", c.ID, err)
				os.Exit(3)
			}
			inIPs[port] = ip
		}
		params := map[string]string{}
		for k, v := range c.Params {
			params[k] = v
		}
		tags := map[string]string{}
		for k, v := range c.Tags {
			tags[k] = v
		}
		t := sp.NewTask(nil, nil, c.Name, "", inIPs, nil, nil, params, tags, "", nil, 1)
		return t.TempDir()
	}
	return newTaskFor(fc).TempDir()
}

func runTempDirImpl(in, out string) {
	sp.InitLogError() // the library logs through package-level loggers that a workflow constructor would set up
	f, err := os.Open(in)
	if err != nil {
		fmt.Fprintln(os.Stderr, err)
		os.Exit(64)
	}
	defer f.Close()
	of, _ := os.Create(out)
	w := bufio.NewWriter(of)
	defer w.Flush()
	sc := bufio.NewScanner(f)
	sc.Buffer(make([]byte, 1<<20), 1<<24)
	n := 0
	for sc.Scan() {
		var c TDCase
		if json.Unmarshal(sc.Bytes(), &c) != nil {
			continue
		}
		first := tempDirOf(&c)
		stable := true
		for k := 0; k < 7; k++ {
			if tempDirOf(&c) != first {
				stable = false
			}
		}
		jb, _ := json.Marshal(map[string]interface{}{"id": c.ID, "dir": first, "stable": stable})
		w.Write(jb)
		w.WriteString("\n")
		n++
	}
	w.Flush()
	fmt.Println("TD-DONE", n)
}
