package main

func runFmtImpl(in, out string)     {}
func runTempDirImpl(in, out string) {}
