package ref

import (
	"fmt"
	"path/filepath"
	"regexp"
	"sort"
	"strings"

	"verif/internal/spec"
	"verif/internal/vproto"
)

// Audit is the expected provenance record of a file.
type Audit struct {
	ProcessName string
	Command     string
	Params      map[string]string
	Tags        map[string]string
	OutFiles    map[string]string
	Upstream    map[string]*Audit
	FromDisk    bool // record was loaded from a pre-existing audit file; compared against that file, not predicted
	DiskPath    string
}

func emptyAudit() *Audit {
	return &Audit{Params: map[string]string{}, Tags: map[string]string{}, OutFiles: map[string]string{}, Upstream: map[string]*Audit{}}
}

// Item is one information packet on a stream.
type Item struct {
	Path     string
	Tags     map[string]string
	Audit    *Audit
	Sub      []*Item // members of a sub-stream carrier
	Carrier  bool
	Stream   bool  // delivered through a FIFO
	Producer *Task // nil for sources
}

// Task is one expected task.
type Task struct {
	Proc    string
	Idx     int
	Key     string
	In      map[string]*Item
	Params  map[string]string
	Tags    map[string]string
	Outs    map[string]string
	Streams map[string]bool
	Command string
	Content map[string][]byte
	Skipped bool
	Cores   int
	TempDir string
	InProc  bool
	Audit   *Audit
	Extras  []string
	DirOut  map[string]bool
}

// Input is what the evaluator is given.
type Input struct {
	Spec   *spec.Spec
	Files  map[string][]byte // files existing before the run (sources, pre-existing outputs)
	Audits map[string]*Audit // pre-existing audit records by data-file path
	Behav  vproto.Behaviours
}

// Result is the expectation.
type Result struct {
	Procs    []string
	InRun    map[string]bool
	Tasks    []*Task
	ByProc   map[string][]*Task
	Out      map[string][]*Item
	POut     map[string][]string
	Files    map[string][]byte // expected new regular files (outputs, extras, component outputs)
	AuditFor map[string]*Audit // expected audit record by output path
	OrderAmb map[string]bool   // "proc.port": order of this stream depends on timing
	TupleAmb map[string]bool   // proc: alignment across ports is only defined as a multiset of tuples
	Err      string
}

// TaskByKey finds a task.
func (r *Result) TaskByKey(key string) *Task {
	for _, t := range r.Tasks {
		if t.Key == key {
			return t
		}
	}
	return nil
}

// Closure computes the processes RunTo(targets) has to run.
func Closure(s *spec.Spec, targets []string) map[string]bool {
	in := map[string]bool{}
	var visit func(string)
	visit = func(p string) {
		if in[p] {
			return
		}
		in[p] = true
		for _, c := range s.Conns {
			tp, _ := spec.SplitPort(c.To)
			if tp == p {
				fp, _ := spec.SplitPort(c.From)
				visit(fp)
			}
		}
	}
	for _, t := range targets {
		visit(t)
	}
	return in
}

// RunSet computes the set of processes a spec's run mode executes.
func RunSet(s *spec.Spec) map[string]bool {
	switch s.Run.Mode {
	case "", "run":
		all := map[string]bool{}
		for _, p := range s.Procs {
			all[p.Name] = true
		}
		return all
	case "runtoregex":
		var ts []string
		for _, pat := range s.Run.Targets {
			re := regexp.MustCompile(pat)
			for _, p := range s.Procs {
				if re.MatchString(p.Name) {
					ts = append(ts, p.Name)
				}
			}
		}
		return Closure(s, ts)
	default:
		return Closure(s, s.Run.Targets)
	}
}

func copyMap(m map[string]string) map[string]string {
	c := map[string]string{}
	for k, v := range m {
		c[k] = v
	}
	return c
}

// TagValue mirrors the subject's tag rules (harness convention, not scipipe).
func TagValue(rule string, path string) string {
	base := filepath.Base(path)
	switch {
	case rule == "stem":
		if i := strings.Index(base, "."); i > 0 {
			return base[:i]
		}
		return base
	case rule == "ext":
		return strings.TrimPrefix(filepath.Ext(base), ".")
	case rule == "idx":
		d := regexp.MustCompile(`[0-9]+`).FindString(base)
		if d == "" {
			return "0"
		}
		return d
	case strings.HasPrefix(rule, "const:"):
		return rule[len("const:"):]
	case rule == "parity":
		// "even" / "odd" after the first number in the base name: two groups
		d := regexp.MustCompile(`[0-9]+`).FindString(base)
		n := 0
		fmt.Sscanf(d, "%d", &n)
		return []string{"even", "odd"}[n%2]
	case rule == "noext":
		// the whole base name without its last extension: values with dots, dashes and underscores in them
		return strings.TrimSuffix(base, filepath.Ext(base))
	case rule == "sparse3":
		// a tag for every third file only (the map function returns no tag for the others)
		d := regexp.MustCompile(`[0-9]+`).FindString(base)
		n := 0
		fmt.Sscanf(d, "%d", &n)
		if n%3 == 0 {
			return "t" + d
		}
		return ""
	}
	return "x"
}

// Pred mirrors the subject's selector predicates.
func Pred(pred string, path string) bool {
	base := filepath.Base(path)
	switch {
	case pred == "all" || pred == "":
		return true
	case pred == "none":
		return false
	case strings.HasPrefix(pred, "notcontains:"):
		return !strings.Contains(base, pred[len("notcontains:"):])
	case strings.HasPrefix(pred, "contains:"):
		return strings.Contains(base, pred[len("contains:"):])
	}
	return true
}

// Eval evaluates the workflow.
func Eval(in *Input) *Result {
	s := in.Spec
	r := &Result{InRun: RunSet(s), ByProc: map[string][]*Task{}, Out: map[string][]*Item{}, POut: map[string][]string{},
		Files: map[string][]byte{}, AuditFor: map[string]*Audit{}, OrderAmb: map[string]bool{}, TupleAmb: map[string]bool{}}
	files := map[string][]byte{}
	for k, v := range in.Files {
		files[k] = v
	}
	// topological order over the run set
	deps := map[string]map[string]bool{}
	for _, p := range s.Procs {
		if r.InRun[p.Name] {
			deps[p.Name] = map[string]bool{}
		}
	}
	for _, c := range s.Conns {
		fp, _ := spec.SplitPort(c.From)
		tp, _ := spec.SplitPort(c.To)
		if r.InRun[fp] && r.InRun[tp] {
			deps[tp][fp] = true
		}
	}
	var order []string
	done := map[string]bool{}
	for len(order) < len(deps) {
		progress := false
		for _, p := range s.Procs {
			if !r.InRun[p.Name] || done[p.Name] {
				continue
			}
			ok := true
			for d := range deps[p.Name] {
				if !done[d] {
					ok = false
				}
			}
			if ok {
				done[p.Name] = true
				order = append(order, p.Name)
				progress = true
			}
		}
		if !progress {
			r.Err = "cyclic graph"
			return r
		}
	}
	r.Procs = order

	sourceItem := func(path string) *Item {
		it := &Item{Path: path, Tags: map[string]string{}}
		if a, ok := in.Audits[path]; ok {
			it.Audit = a
			for k, v := range a.Tags {
				it.Tags[k] = v
			}
		} else {
			it.Audit = emptyAudit()
		}
		return it
	}

	inStream := func(proc, port string) ([]*Item, bool) {
		var out []*Item
		nonEmpty := 0
		amb := false
		for _, c := range s.Conns {
			if c.Param || c.To != proc+"."+port {
				continue
			}
			fp, _ := spec.SplitPort(c.From)
			if !r.InRun[fp] {
				continue
			}
			st := r.Out[c.From]
			if len(st) > 0 {
				nonEmpty++
			}
			if r.OrderAmb[c.From] {
				amb = true
			}
			out = append(out, st...)
		}
		if nonEmpty > 1 {
			amb = true
		}
		return out, amb
	}
	paramStream := func(p *spec.Proc, port string) ([]string, bool) {
		var out []string
		nonEmpty := 0
		amb := false
		for _, f := range p.Feeds {
			if f.Port == port {
				vals := f.Values
				if len(vals) > 0 {
					nonEmpty++
				}
				out = append(out, vals...)
			}
		}
		for _, c := range s.Conns {
			if !c.Param || c.To != p.Name+"."+port {
				continue
			}
			fp, _ := spec.SplitPort(c.From)
			if !r.InRun[fp] {
				continue
			}
			st := r.POut[c.From]
			if len(st) > 0 {
				nonEmpty++
			}
			if r.OrderAmb[c.From] {
				amb = true
			}
			out = append(out, st...)
		}
		if nonEmpty > 1 {
			amb = true
		}
		return out, amb
	}

	for _, name := range order {
		p := s.Proc(name)
		switch p.Kind {
		case spec.KCmd, spec.KGoFunc:
			if !evalProc(in, r, p, files, inStream, paramStream) {
				return r
			}
		case spec.KFileSource:
			for _, f := range p.Files {
				r.Out[name+".out"] = append(r.Out[name+".out"], sourceItem(f))
			}
		case spec.KParamSource:
			r.POut[name+".out"] = append([]string{}, p.Values...)
		case spec.KFileParams:
			r.POut[name+".line"] = append([]string{}, p.Values...)
		case spec.KCmdParams:
			r.POut[name+".param"] = append([]string{}, p.Values...)
		case spec.KRecorder:
			st, amb := inStream(name, "in")
			r.Out[name+".out"] = st
			r.OrderAmb[name+".out"] = amb
		case spec.KParamRec:
			st, amb := paramStream(p, "in")
			r.POut[name+".out"] = st
			r.OrderAmb[name+".out"] = amb
		case spec.KMapToTags:
			st, amb := inStream(name, "in")
			for _, it := range st {
				nt := &Item{Path: it.Path, Tags: copyMap(it.Tags), Audit: it.Audit, Producer: it.Producer}
				for _, tr := range p.Tags {
					v := TagValue(tr.Rule, it.Path)
					if tr.Rule == "blank" {
						// attached with an empty value; an empty value never overrides, and is overridden by, a later one
						if _, has := nt.Tags[tr.Key]; !has {
							nt.Tags[tr.Key] = ""
						}
						continue
					}
					if v == "" {
						continue // the map function returned no such tag for this file
					}
					nt.Tags[tr.Key] = v
				}
				// the record written for the file carries the tags the incoming IP had in memory plus the new ones
				if it.Audit != nil {
					for k, v := range nt.Tags {
						it.Audit.Tags[k] = v
					}
				}
				r.Out[name+".out"] = append(r.Out[name+".out"], nt)
			}
			r.OrderAmb[name+".out"] = amb
		case spec.KSubStream:
			st, _ := inStream(name, "in")
			car := &Item{Path: "<substream-carrier>", Tags: map[string]string{}, Audit: emptyAudit(), Sub: st, Carrier: true}
			r.Out[name+".substream"] = []*Item{car}
		case spec.KConcat:
			st, amb := inStream(name, "in")
			var main []byte
			byTag := map[string][]byte{}
			var tagOrder []string
			for _, it := range st {
				c, ok := files[it.Path]
				if !ok {
					r.Err = "concat: unknown content of " + it.Path
					return r
				}
				tv := ""
				if p.GroupBy != "" {
					tv = it.Tags[p.GroupBy]
				}
				if tv != "" {
					if _, ok := byTag[tv]; !ok {
						tagOrder = append(tagOrder, tv)
					}
					byTag[tv] = append(append(byTag[tv], c...), '\n')
				} else {
					main = append(append(main, c...), '\n')
				}
			}
			if main == nil {
				main = []byte{}
			}
			files[p.OutPath] = main
			r.Files[p.OutPath] = main
			r.Out[name+".out"] = append(r.Out[name+".out"], &Item{Path: p.OutPath, Tags: map[string]string{}, Audit: emptyAudit()})
			for _, tv := range tagOrder {
				path := fmt.Sprintf("%s.%s_%s", p.OutPath, p.GroupBy, tv)
				files[path] = byTag[tv]
				r.Files[path] = byTag[tv]
				r.Out[name+".out"] = append(r.Out[name+".out"], &Item{Path: path, Tags: map[string]string{p.GroupBy: tv}, Audit: emptyAudit()})
			}
			if amb || len(tagOrder) > 1 {
				r.OrderAmb[name+".out"] = true
			}
			if amb {
				r.TupleAmb[name] = true // content order follows arrival order
			}
		case spec.KFileComb:
			streams := map[string][]*Item{}
			for _, pt := range p.Ports {
				st, _ := inStream(name, pt)
				streams[pt] = st
			}
			ports := append([]string{}, p.Ports...)
			sort.Strings(ports)
			n := 1
			for _, pt := range ports {
				n *= len(streams[pt])
			}
			for idx := 0; idx < n; idx++ {
				rem := idx
				for k := len(ports) - 1; k >= 0; k-- {
					l := len(streams[ports[k]])
					r.Out[name+"."+ports[k]] = append(r.Out[name+"."+ports[k]], streams[ports[k]][rem%l])
					rem /= l
				}
			}
			if len(ports) > 1 {
				r.TupleAmb[name] = true
				for _, pt := range ports {
					r.OrderAmb[name+"."+pt] = true
				}
			}
		case spec.KParamComb:
			streams := map[string][]string{}
			for _, pt := range p.Ports {
				st, _ := paramStream(p, pt)
				streams[pt] = st
			}
			ports := append([]string{}, p.Ports...)
			sort.Strings(ports)
			n := 1
			for _, pt := range ports {
				n *= len(streams[pt])
			}
			for idx := 0; idx < n; idx++ {
				rem := idx
				for k := len(ports) - 1; k >= 0; k-- {
					l := len(streams[ports[k]])
					r.POut[name+"."+ports[k]] = append(r.POut[name+"."+ports[k]], streams[ports[k]][rem%l])
					rem /= l
				}
			}
			if len(ports) > 1 {
				r.TupleAmb[name] = true
				for _, pt := range ports {
					r.OrderAmb[name+"."+pt] = true
				}
			}
		case spec.KSelector:
			streams := map[string][]*Item{}
			n := -1
			amb := false
			for _, pt := range p.Ports {
				st, a := inStream(name, pt)
				streams[pt] = st
				amb = amb || a
				if n < 0 || len(st) < n {
					n = len(st)
				}
			}
			for i := 0; i < n; i++ {
				ok := true
				for _, pt := range p.Ports {
					if !Pred(p.Pred, streams[pt][i].Path) {
						ok = false
					}
				}
				if ok {
					for _, pt := range p.Ports {
						r.Out[name+"."+pt] = append(r.Out[name+"."+pt], streams[pt][i])
					}
				}
			}
			for _, pt := range p.Ports {
				r.OrderAmb[name+"."+pt] = amb
			}
		case spec.KSplitter:
			st, amb := inStream(name, "file")
			for _, it := range st {
				c, ok := files[it.Path]
				if !ok {
					r.Err = "splitter: unknown content of " + it.Path
					return r
				}
				lines := splitLines(c)
				q := len(lines) / p.Lines
				for k := 0; k <= q; k++ {
					lo, hi := k*p.Lines, (k+1)*p.Lines
					if hi > len(lines) {
						hi = len(lines)
					}
					var part []byte
					for _, l := range lines[lo:hi] {
						part = append(append(part, l...), '\n')
					}
					if part == nil {
						part = []byte{}
					}
					path := fmt.Sprintf("%s.split_%d", it.Path, k+1)
					files[path] = part
					r.Files[path] = part
					r.Out[name+".split_file"] = append(r.Out[name+".split_file"], &Item{Path: path, Tags: map[string]string{}, Audit: emptyAudit()})
				}
			}
			r.OrderAmb[name+".split_file"] = amb
		case spec.KGlobber:
			var all []string
			for f := range in.Files {
				all = append(all, f)
			}
			sort.Strings(all)
			for _, pat := range p.Files {
				for _, f := range all {
					if GlobMatch(pat, f) {
						r.Out[name+".out"] = append(r.Out[name+".out"], sourceItem(f))
					}
				}
			}
		default:
			r.Err = "unknown kind " + p.Kind
			return r
		}
	}
	return r
}

func splitLines(b []byte) [][]byte {
	var out [][]byte
	s := string(b)
	if s == "" {
		return nil
	}
	parts := strings.Split(s, "\n")
	if parts[len(parts)-1] == "" {
		parts = parts[:len(parts)-1]
	}
	for _, p := range parts {
		out = append(out, []byte(p))
	}
	return out
}

// GlobMatch is an independent matcher for the subset of glob syntax used by
// the generators: '*', '?', '[ab]' inside one path segment; '/' separates.
func GlobMatch(pat, path string) bool {
	ps := strings.Split(pat, "/")
	fs := strings.Split(path, "/")
	if len(ps) != len(fs) {
		return false
	}
	for i := range ps {
		if !segMatch(ps[i], fs[i]) {
			return false
		}
	}
	return true
}

func segMatch(p, s string) bool {
	if p == "" {
		return s == ""
	}
	switch p[0] {
	case '*':
		for i := 0; i <= len(s); i++ {
			if segMatch(p[1:], s[i:]) {
				return true
			}
		}
		return false
	case '?':
		return len(s) > 0 && segMatch(p[1:], s[1:])
	case '[':
		end := strings.IndexByte(p, ']')
		if end < 0 || len(s) == 0 {
			return false
		}
		if !strings.ContainsRune(p[1:end], rune(s[0])) {
			return false
		}
		return segMatch(p[end+1:], s[1:])
	default:
		return len(s) > 0 && s[0] == p[0] && segMatch(p[1:], s[1:])
	}
}

func evalProc(in *Input, r *Result, p *spec.Proc, files map[string][]byte,
	inStream func(string, string) ([]*Item, bool), paramStream func(*spec.Proc, string) ([]string, bool)) bool {
	ports := Ports(p.Cmd)
	var inPorts, paramPorts, outPorts []string
	streamOut := map[string]bool{}
	for n, pi := range ports {
		switch pi.Type {
		case "i":
			inPorts = append(inPorts, n)
		case "p":
			paramPorts = append(paramPorts, n)
		case "o":
			outPorts = append(outPorts, n)
		case "os":
			outPorts = append(outPorts, n)
			streamOut[n] = true
		}
	}
	// parameter ports that exist only because something is connected to them (InParam(name) without a {p:name}
	// in the command): they take part in forming tasks and in the audit record, but the command does not see them
	hidden := map[string]bool{}
	for _, f := range p.Feeds {
		if _, ok := ports[f.Port]; !ok && !hidden[f.Port] {
			hidden[f.Port] = true
			paramPorts = append(paramPorts, f.Port)
		}
	}
	for _, cn := range in.Spec.Conns {
		tp, tport := spec.SplitPort(cn.To)
		if _, ok := ports[tport]; cn.Param && tp == p.Name && !ok && !hidden[tport] {
			hidden[tport] = true
			paramPorts = append(paramPorts, tport)
		}
	}
	outCfg := map[string]*spec.Out{}
	for _, o := range p.Outs {
		outCfg[o.Port] = o
		if _, ok := ports[o.Port]; !ok {
			outPorts = append(outPorts, o.Port)
		}
	}
	sort.Strings(inPorts)
	sort.Strings(paramPorts)
	sort.Strings(outPorts)
	n := -1
	anyAmb := false
	ins := map[string][]*Item{}
	for _, pt := range inPorts {
		st, amb := inStream(p.Name, pt)
		ins[pt] = st
		anyAmb = anyAmb || amb
		if n < 0 || len(st) < n {
			n = len(st)
		}
	}
	pars := map[string][]string{}
	for _, pt := range paramPorts {
		st, amb := paramStream(p, pt)
		pars[pt] = st
		anyAmb = anyAmb || amb
		if n < 0 || len(st) < n {
			n = len(st)
		}
	}
	if n < 0 {
		n = 1
	}
	if anyAmb && len(inPorts)+len(paramPorts) > 1 {
		r.TupleAmb[p.Name] = true
	}
	cores := p.Cores
	if cores == 0 {
		cores = 1
	}
	for j := 0; j < n; j++ {
		t := &Task{Proc: p.Name, Idx: j, In: map[string]*Item{}, Params: map[string]string{}, Tags: map[string]string{},
			Outs: map[string]string{}, Streams: map[string]bool{}, Content: map[string][]byte{}, Cores: cores, InProc: p.Kind == spec.KGoFunc}
		tv := &TaskView{Proc: p.Name, In: map[string]string{}, InStream: map[string]bool{}, Joined: map[string][]string{}, Params: t.Params, Tags: t.Tags, Outs: t.Outs}
		var keyIns []vproto.KV
		var keyJoined []string
		recTags := map[string]string{}
		for _, pt := range inPorts {
			it := ins[pt][j]
			t.In[pt] = it
			tv.In[pt] = it.Path
			if it.Stream {
				tv.InStream[pt] = true
			}
			if ports[pt].Join {
				for _, m := range it.Sub {
					tv.Joined[pt] = append(tv.Joined[pt], m.Path)
					keyJoined = append(keyJoined, m.Path)
				}
			} else {
				kp := it.Path
				if it.Stream {
					kp += ".fifo"
				}
				keyIns = append(keyIns, vproto.KV{K: pt, V: kp})
			}
			for k, v := range it.Tags {
				t.Tags[pt+"."+k] = v
				recTags[k] = v
			}
		}
		var keyPars []vproto.KV
		for _, pt := range paramPorts {
			t.Params[pt] = pars[pt][j]
			if !hidden[pt] {
				keyPars = append(keyPars, vproto.KV{K: pt, V: pars[pt][j]})
			}
		}
		t.Key = vproto.TaskKey(p.Name, keyIns, keyPars, keyJoined)
		// output paths
		for _, op := range outPorts {
			var path string
			var err error
			if oc := outCfg[op]; oc != nil && oc.Func != nil {
				path = oc.Func.Prefix
				if oc.Func.InPort != "" {
					path += filepath.Base(tv.In[oc.Func.InPort])
				}
				if oc.Func.Param != "" {
					path += "." + t.Params[oc.Func.Param]
				}
				path += oc.Func.Suffix
			} else if oc != nil {
				path, err = FormatPath(oc.Pattern, tv, func(string) (string, error) { return "", &FormatErr{"{o:} in SetOut not supported by the reference"} })
			} else {
				ext := ""
				if pi := ports[op]; pi != nil {
					ext = pi.Ext
				}
				path = DefaultName(tv, op, ext)
			}
			if err != nil {
				r.Err = "format path: " + err.Error()
				return false
			}
			t.Outs[op] = path
			if streamOut[op] {
				t.Streams[op] = true
			}
		}
		cmd, err := FormatCommand(p.Cmd, p.Prepend, tv)
		if err != nil {
			r.Err = "format command: " + err.Error()
			return false
		}
		t.Command = cmd
		id := &TempDirIdentity{Name: p.Name, In: tv.In, Joined: tv.Joined, Params: t.Params, Tags: t.Tags}
		hasCarrier := false
		for _, pt := range inPorts {
			if ports[pt].Join {
				hasCarrier = true
			}
		}
		if !hasCarrier {
			t.TempDir = TempDirName(id)
		}
		dirOut := map[string]bool{}
		for _, tk := range strings.Fields(cmd) {
			if strings.HasPrefix(tk, "od=") {
				if i := strings.Index(tk, ":"); i > 3 {
					dirOut[tk[3:i]] = true
				}
			}
		}
		t.DirOut = dirOut
		// skipped?
		for _, op := range outPorts {
			if streamOut[op] {
				continue
			}
			if _, ok := in.Files[t.Outs[op]]; ok {
				t.Skipped = true
			}
			for f := range in.Files {
				if strings.HasPrefix(f, t.Outs[op]+"/") {
					t.Skipped = true // the output is an existing directory
				}
			}
		}
		// audit
		a := emptyAudit()
		a.ProcessName = p.Name
		a.Command = cmd
		a.Params = copyMap(t.Params)
		a.Tags = recTags
		a.OutFiles = copyMap(t.Outs)
		for _, pt := range inPorts {
			it := t.In[pt]
			if ports[pt].Join {
				for _, m := range it.Sub {
					a.Upstream[m.Path] = m.Audit
				}
				continue
			}
			a.Upstream[it.Path] = it.Audit
		}
		t.Audit = a
		// contents (vcmd protocol)
		if !t.Skipped {
			toks := strings.Fields(cmd)
			isV := false
			for i, tk := range toks {
				if tk == "run" && i > 0 && strings.HasSuffix(toks[i-1], "vcmd") {
					toks = toks[i+1:]
					isV = true
					break
				}
			}
			if isV {
				c := vproto.Parse(toks)
				size := 40
				opts := map[string]string{}
				for k, v := range c.Opts {
					opts[k] = v
				}
				for k, v := range in.Behav[p.Name] {
					opts[k] = v
				}
				for k, v := range in.Behav[t.Key] {
					opts[k] = v
				}
				if sz, ok := opts["size"]; ok {
					fmt.Sscanf(sz, "%d", &size)
				}
				var inShas []vproto.KV
				okc := true
				for _, kv := range c.Ins {
					np := vproto.NormIn(kv.V)
					np = strings.TrimSuffix(np, ".fifo")
					b, ok := files[np]
					if !ok {
						b, ok = files[np+"/data"] // pre-existing directory output
					}
					if !ok {
						okc = false
						break
					}
					inShas = append(inShas, vproto.KV{K: kv.K, V: vproto.Sha(b)})
				}
				var jShas []string
				for _, m := range c.Joined {
					b, ok := files[vproto.NormIn(m)]
					if !ok {
						okc = false
						break
					}
					jShas = append(jShas, vproto.Sha(b))
				}
				if okc {
					for _, op := range outPorts {
						data := vproto.Content(c.ID, op, c.Params, c.Tags, inShas, jShas, size)
						t.Content[op] = data
					}
				}

				if ex := opts["extra"]; ex != "" {
					t.Extras = strings.Split(ex, ",")
				}
			}
		}
		for _, op := range outPorts {
			path := t.Outs[op]
			it := &Item{Path: path, Tags: copyMap(recTags), Audit: a, Producer: t, Stream: streamOut[op]}
			if t.Skipped {
				if pa, ok := in.Audits[path]; ok {
					it.Audit = pa
					it.Tags = copyMap(pa.Tags)
				} else {
					it.Audit = emptyAudit()
					it.Tags = map[string]string{}
				}
			} else {
				if c, ok := t.Content[op]; ok {
					files[path] = c
					if dirOut[op] {
						r.Files[path+"/data"] = c
						for k := 1; k <= 2; k++ {
							r.Files[fmt.Sprintf("%s/aa_part%d", path, k)] = vproto.DirPart(p.Name, op, k)
						}
					} else if !streamOut[op] {
						r.Files[path] = c
					}
				}
				if !streamOut[op] {
					r.AuditFor[path] = a
				}
			}
			r.Out[p.Name+"."+op] = append(r.Out[p.Name+"."+op], it)
		}
		if !t.Skipped {
			for _, ex := range t.Extras {
				r.Files[ex] = vproto.ExtraContent(p.Name, ex)
			}
		}
		r.Tasks = append(r.Tasks, t)
		r.ByProc[p.Name] = append(r.ByProc[p.Name], t)
	}
	if anyAmb {
		for _, op := range outPorts {
			r.OrderAmb[p.Name+"."+op] = true
		}
	}
	return true
}
