// Package ref is the independent reference: it does not import scipipe. It
// implements the documented placeholder / modifier / naming rules and the
// flow semantics of a workflow graph (DESIGN.md Appendix A).
package ref

import (
	"crypto/sha1"
	"encoding/hex"
	"path/filepath"
	"regexp"
	"sort"
	"strings"
)

var phRe = regexp.MustCompile(`\{(o|os|i|is|p|t):([^{}]+)\}`)

// Placeholder is one {type:name|mod|mod} occurrence.
type Placeholder struct {
	Text string
	Type string
	Name string
	Mods []string
}

// Placeholders lists the placeholders of a pattern in order of occurrence.
func Placeholders(pat string) []Placeholder {
	var out []Placeholder
	for _, m := range phRe.FindAllStringSubmatch(pat, -1) {
		parts := strings.Split(m[2], "|")
		out = append(out, Placeholder{Text: m[0], Type: m[1], Name: parts[0], Mods: parts[1:]})
	}
	return out
}

// PortInfo is what a command pattern says about a port.
type PortInfo struct {
	Type    string // i o os p t
	Ext     string
	Join    bool
	JoinSep string
}

var extRe = regexp.MustCompile(`\.([a-z0-9\.\-\_]+)`)
var joinRe = regexp.MustCompile(`join:([^{}|]+)`)

// Ports derives the ports of a command pattern.
func Ports(cmd string) map[string]*PortInfo {
	out := map[string]*PortInfo{}
	for _, ph := range Placeholders(cmd) {
		pi := &PortInfo{Type: ph.Type}
		for _, m := range ph.Mods {
			if mm := extRe.FindStringSubmatch(m); mm != nil {
				pi.Ext = mm[1]
			}
			if mm := joinRe.FindStringSubmatch(m); mm != nil {
				pi.Join = true
				pi.JoinSep = mm[1]
			}
		}
		out[ph.Name] = pi
	}
	return out
}

// ApplyMods applies the documented path modifiers left to right.
func ApplyMods(v string, mods []string) string {
	for _, m := range mods {
		switch {
		case m == "basename":
			if i := strings.LastIndex(v, "/"); i >= 0 {
				v = v[i+1:]
			}
		case m == "dirname":
			if i := strings.LastIndex(v, "/"); i >= 0 {
				v = v[:i]
			}
		case strings.HasPrefix(m, "%"):
			suf := m[1:]
			if len(suf) < len(v) && strings.HasSuffix(v, suf) {
				v = v[:len(v)-len(suf)]
			}
		case strings.HasPrefix(m, "s/"):
			parts := strings.Split(m, "/")
			// s/search/replace/
			if len(parts) >= 4 && parts[1] != "" {
				v = strings.Replace(v, parts[1], parts[2], 1)
			}
		}
	}
	return v
}

func hasMod(mods []string, m string) bool {
	for _, x := range mods {
		if x == m {
			return true
		}
	}
	return false
}

// TempEncode is the name an output path has inside the task's temp directory.
func TempEncode(p string) string {
	p = encodeParents(p)
	if strings.HasPrefix(p, "/") {
		p = "__fsroot__" + p
	}
	return p
}

func upDir(p string) string {
	if strings.HasPrefix(p, "/") {
		return p
	}
	return "../" + p
}

// Sanitize is the documented sanitization of a process name for use in paths.
func Sanitize(s string) string {
	s = strings.ToLower(s)
	return regexp.MustCompile(`[^a-z0-9_\-\.]+`).ReplaceAllString(s, "_")
}

// TaskView is what formatting needs to know about a task.
type TaskView struct {
	Proc     string
	In       map[string]string   // in-port -> path
	InStream map[string]bool     // in-port receives a streamed (FIFO) IP
	Joined   map[string][]string // joined in-port -> member paths
	Params   map[string]string
	Tags     map[string]string // "<inport>.<key>" -> value
	Outs     map[string]string // out-port -> final path
}

// FormatErr reports a missing value.
type FormatErr struct{ Msg string }

func (e *FormatErr) Error() string { return e.Msg }

// FormatPath expands a SetOut pattern.
func FormatPath(pat string, tv *TaskView, pathOf func(port string) (string, error)) (string, error) {
	out := pat
	for _, ph := range Placeholders(pat) {
		var v string
		switch ph.Type {
		case "i":
			p, ok := tv.In[ph.Name]
			if !ok {
				return "", &FormatErr{"no in-port " + ph.Name}
			}
			v = p
		case "p":
			p, ok := tv.Params[ph.Name]
			if !ok {
				return "", &FormatErr{"no param " + ph.Name}
			}
			v = p
		case "t":
			p, ok := tv.Tags[ph.Name]
			if !ok {
				return "", &FormatErr{"no tag " + ph.Name}
			}
			v = p
		case "o":
			p, err := pathOf(ph.Name)
			if err != nil {
				return "", err
			}
			v = p
		default:
			return "", &FormatErr{"bad placeholder " + ph.Text}
		}
		v = ApplyMods(v, ph.Mods)
		out = strings.ReplaceAll(out, ph.Text, v)
	}
	return out, nil
}

// DefaultName is the README's default output name.
func DefaultName(tv *TaskView, port, ext string) string {
	var pcs []string
	for _, k := range sortedKeys(tv.In) {
		pcs = append(pcs, filepath.Base(tv.In[k]))
	}
	pcs = append(pcs, Sanitize(tv.Proc))
	for _, k := range sortedKeys(tv.Params) {
		pcs = append(pcs, k+"_"+tv.Params[k])
	}
	for _, k := range sortedKeys(tv.Tags) {
		pcs = append(pcs, k+"_"+tv.Tags[k])
	}
	pcs = append(pcs, port)
	if ext != "" {
		pcs = append(pcs, ext)
	}
	return strings.Join(pcs, ".")
}

// FormatCommand expands a command pattern for a task.
func FormatCommand(cmd string, prepend string, tv *TaskView) (string, error) {
	ports := Ports(cmd)
	out := cmd
	for _, ph := range Placeholders(cmd) {
		var v string
		switch ph.Type {
		case "o":
			p, ok := tv.Outs[ph.Name]
			if !ok {
				return "", &FormatErr{"missing out path " + ph.Name}
			}
			v = encodeParents(ApplyMods(TempEncode(p), ph.Mods))
		case "os":
			p, ok := tv.Outs[ph.Name]
			if !ok {
				return "", &FormatErr{"missing out path " + ph.Name}
			}
			v = ApplyMods(p+".fifo", ph.Mods)
			if !hasMod(ph.Mods, "basename") {
				v = upDir(v)
			}
		case "i":
			pi := ports[ph.Name]
			if pi != nil && pi.Join {
				var ps []string
				for _, m := range tv.Joined[ph.Name] {
					ps = append(ps, upDir(ApplyMods(m, ph.Mods)))
				}
				v = strings.Join(ps, pi.JoinSep)
			} else {
				p, ok := tv.In[ph.Name]
				if !ok || p == "" {
					return "", &FormatErr{"missing in path " + ph.Name}
				}
				if tv.InStream[ph.Name] {
					p += ".fifo"
				}
				v = ApplyMods(p, ph.Mods)
				if !hasMod(ph.Mods, "basename") {
					v = upDir(v)
				}
			}
		case "p":
			p := tv.Params[ph.Name]
			if p == "" {
				return "", &FormatErr{"missing param " + ph.Name}
			}
			v = ApplyMods(p, ph.Mods)
		case "t":
			p := tv.Tags[ph.Name]
			if p == "" {
				return "", &FormatErr{"missing tag " + ph.Name}
			}
			v = ApplyMods(p, ph.Mods)
		default:
			return "", &FormatErr{"bad placeholder " + ph.Text}
		}
		out = strings.ReplaceAll(out, ph.Text, v)
	}
	if prepend != "" {
		out = prepend + " " + out
	}
	return out, nil
}

func sortedKeys(m map[string]string) []string {
	ks := make([]string, 0, len(m))
	for k := range m {
		ks = append(ks, k)
	}
	sort.Strings(ks)
	return ks
}

// pathComponents splits a path into its components, dropping the root.
func pathComponents(p string) []string {
	var out []string
	for _, c := range strings.Split(filepath.Clean(p), "/") {
		if c != "" {
			out = append(out, c)
		}
	}
	return out
}

// TempDirIdentity is the identity of a task for temp-dir purposes.
type TempDirIdentity struct {
	Name   string
	In     map[string]string
	Joined map[string][]string
	Params map[string]string
	Tags   map[string]string
}

// TempDirPreimage is the documented recipe of the hash pre-image pieces.
func TempDirPreimage(id *TempDirIdentity) []string {
	pcs := []string{id.Name}
	for _, k := range sortedKeys(id.In) {
		pcs = append(pcs, pathComponents(id.In[k])...)
	}
	jk := []string{}
	for k := range id.Joined {
		jk = append(jk, k)
	}
	sort.Strings(jk)
	for _, k := range jk {
		for _, m := range id.Joined[k] {
			pcs = append(pcs, pathComponents(m)...)
		}
	}
	for _, k := range sortedKeys(id.Params) {
		pcs = append(pcs, k+"_"+id.Params[k])
	}
	for _, k := range sortedKeys(id.Tags) {
		pcs = append(pcs, k+"_"+id.Tags[k])
	}
	return pcs
}

// TempDirName computes the expected temp directory name.
func TempDirName(id *TempDirIdentity) string {
	prefix := "_scipipe_tmp." + Sanitize(id.Name)
	pcs := TempDirPreimage(id)
	if len(prefix) > 255-40-1 {
		pcs = append(pcs, prefix)
		prefix = "_scipipe_tmp"
	}
	h := sha1.Sum([]byte(strings.Join(pcs, "")))
	return prefix + "." + hex.EncodeToString(h[:])
}

// encodeParents replaces every whole ".." segment (followed by "/") by the placeholder.
func encodeParents(p string) string {
	segs := strings.Split(p, "/")
	out := ""
	for i, s := range segs {
		last := i == len(segs)-1
		switch {
		case s == ".." && !last:
			out += "__parent__"
		case !last:
			out += s + "/"
		default:
			out += s
		}
	}
	return out
}
