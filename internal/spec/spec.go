// Package spec defines the JSON description of a workflow that the subject
// (subject/wfrun) builds through scipipe's public API and that the reference
// evaluator (internal/ref) evaluates independently.
package spec

import (
	"encoding/json"
	"fmt"
	"os"
	"sort"
	"strings"
)

// Spec is one workflow program.
type Spec struct {
	Name     string            `json:"name"`
	MaxTasks int               `json:"max_tasks"`
	LogFile  string            `json:"log_file,omitempty"` // non-empty: NewWorkflowCustomLogFile
	Also     []*Spec           `json:"also,omitempty"`     // further workflows built and run concurrently with this one in the same process (same working directory)
	Links    map[string]string `json:"links,omitempty"`    // symbolic links (path below the working directory -> target) made before the sources are written
	Procs    []*Proc           `json:"procs"`
	Conns    []*Conn           `json:"conns"`
	Run      Run               `json:"run"`
	Sources  map[string]string `json:"sources,omitempty"` // files present before the run (path relative to wd or absolute) -> content
	Dirs     []string          `json:"dirs,omitempty"`    // directories to pre-create
}

// Process kinds.
const (
	KCmd         = "cmd"
	KGoFunc      = "gofunc"
	KFileSource  = "filesource"
	KParamSource = "paramsource"
	KMapToTags   = "maptotags"
	KSubStream   = "substream"
	KManualSub   = "manualsub" // a hand-written component that collects its in-IPs and feeds them into the SubStream port of a carrier IP itself
	KConcat      = "concat"
	KFileComb    = "fcomb"
	KParamComb   = "pcomb"
	KSelector    = "selector"
	KSplitter    = "splitter"
	KGlobber     = "globber"
	KFileParams  = "fileparams"
	KCmdParams   = "cmdparams"
	KRecorder    = "recorder"
	KParamRec    = "precorder"
)

// Proc is one process.
type Proc struct {
	Name     string     `json:"name"`
	Kind     string     `json:"kind"`
	Cmd      string     `json:"cmd,omitempty"`
	Outs     []*Out     `json:"outs,omitempty"`
	Cores    int        `json:"cores,omitempty"`
	NoSpawn  bool       `json:"no_spawn,omitempty"` // cmd / gofunc: the process's public Spawn field is set to false
	Prepend  string     `json:"prepend,omitempty"`
	Feeds    []*Feed    `json:"feeds,omitempty"`
	Files    []string   `json:"files,omitempty"`  // filesource: paths; globber: patterns
	Values   []string   `json:"values,omitempty"` // paramsource
	Tags     []*TagRule `json:"tags,omitempty"`   // maptotags
	OutPath  string     `json:"out_path,omitempty"`
	GroupBy  string     `json:"group_by,omitempty"`
	Lines    int        `json:"lines,omitempty"`
	Ports    []string   `json:"ports,omitempty"` // fcomb / pcomb / selector
	Pred     string     `json:"pred,omitempty"`  // selector predicate: "all" | "none" | "mask:<bits>" | "notcontains:<s>"
	File     string     `json:"file,omitempty"`
	Shell    string     `json:"shell,omitempty"`
	WriteAPI bool       `json:"write_api,omitempty"` // gofunc: use the documented OutIP(p).Write()
	ExecCmd  bool       `json:"exec_cmd,omitempty"`  // gofunc: the function runs the formatted command through the library's ExecCmd helper
	DepIn    bool       `json:"dep_in,omitempty"`    // globber: NewFileGlobberDependent
	DelayMS  int        `json:"delay_ms,omitempty"`  // recorder: pause before every receive (a slow consumer)
}

// Out configures the path of an out-port.
type Out struct {
	Port    string   `json:"port"`
	Pattern string   `json:"pattern,omitempty"` // SetOut pattern
	Func    *OutFunc `json:"func,omitempty"`    // SetOutFunc closure
}

// OutFunc is a closure shape for SetOutFunc: Prefix + base(in-path of InPort) + "." + param(Param) + Suffix.
type OutFunc struct {
	Prefix string `json:"prefix,omitempty"`
	InPort string `json:"in_port,omitempty"`
	Param  string `json:"param,omitempty"`
	Suffix string `json:"suffix,omitempty"`
}

// Feed is a literal parameter feed.
type Feed struct {
	Port   string   `json:"port"`
	How    string   `json:"how"` // str | int | float
	Values []string `json:"values"`
}

// TagRule derives a tag from an IP's path.
type TagRule struct {
	Key  string `json:"key"`
	Rule string `json:"rule"` // stem | ext | const:<v> | idx (digits of the basename) | noext | sparse3 | blank (attached with an empty value)
}

// Conn connects an out-port to an in-port.
type Conn struct {
	From  string `json:"from"` // "proc.port"
	To    string `json:"to"`
	Param bool   `json:"param,omitempty"`
	Via   string `json:"via,omitempty"`  // "from": In.From(Out) (default) | "to": Out.To(In)
	Undo  string `json:"undo,omitempty"` // file connections: taken off again through the public InPort.Disconnect ("in") or through both ports' Disconnect ("both")
}

// Run says how to run the workflow.
type Run struct {
	Mode    string   `json:"mode,omitempty"` // run | runto | runtoregex | runtoprocs
	Targets []string `json:"targets,omitempty"`
	Repeat  int      `json:"repeat,omitempty"` // build and run the workflow this many times in one process (command-free graphs)
}

// Load reads a spec from a file.
func Load(path string) (*Spec, error) {
	b, err := os.ReadFile(path)
	if err != nil {
		return nil, err
	}
	s := &Spec{}
	if err := json.Unmarshal(b, s); err != nil {
		return nil, err
	}
	return s, nil
}

// Save writes a spec to a file.
func (s *Spec) Save(path string) error {
	b, err := json.MarshalIndent(s, "", " ")
	if err != nil {
		return err
	}
	return os.WriteFile(path, b, 0644)
}

// Clone deep-copies a spec.
func (s *Spec) Clone() *Spec {
	b, _ := json.Marshal(s)
	c := &Spec{}
	json.Unmarshal(b, c)
	if c.Sources == nil {
		c.Sources = map[string]string{}
	}
	return c
}

// Proc returns the process with the given name.
func (s *Spec) Proc(name string) *Proc {
	for _, p := range s.Procs {
		if p.Name == name {
			return p
		}
	}
	return nil
}

// SplitPort splits "proc.port" at the last dot (process names may contain dots, port names do not).
func SplitPort(s string) (string, string) {
	i := strings.LastIndex(s, ".")
	if i < 0 {
		return s, ""
	}
	return s[:i], s[i+1:]
}

// VcmdPath is the absolute path of the task command; set by the driver.
var VcmdPath = "/verif/bin/vcmd"

// PortDecl describes a port of a command built with BuildCmd.
type PortDecl struct {
	Name   string
	Ext    string // out-port: "|.ext" modifier
	Stream bool   // out-port: {os:}
	Dir    bool   // out-port: the output is a directory
	Join   string // in-port: join separator name (space|comma|colon|dashI); "" = none
	Mods   string // extra modifiers for in-ports, e.g. "|%.txt"
}

// BuildCmd assembles a vcmd command pattern.
func BuildCmd(proc string, ins, outs []PortDecl, params []string, tags map[string]string, opts map[string]string) string {
	var toks []string
	toks = append(toks, VcmdPath, "run", "id="+proc)
	for _, o := range outs {
		ph := "o"
		if o.Stream {
			ph = "os"
		}
		ext := ""
		if o.Ext != "" {
			ext = "|." + o.Ext
		}
		key := ph
		if o.Dir {
			key = "od"
		}
		toks = append(toks, fmt.Sprintf("%s=%s:{%s:%s%s}", key, o.Name, ph, o.Name, ext))
	}
	var joined *PortDecl
	for i := range ins {
		in := ins[i]
		if in.Join != "" {
			joined = &ins[i]
			continue
		}
		toks = append(toks, fmt.Sprintf("i=%s:{i:%s%s}", in.Name, in.Name, in.Mods))
	}
	for _, p := range params {
		toks = append(toks, fmt.Sprintf("p=%s:{p:%s}", p, p))
	}
	tk := []string{}
	for k := range tags {
		tk = append(tk, k)
	}
	sort.Strings(tk)
	for _, k := range tk {
		toks = append(toks, fmt.Sprintf("t=%s:{t:%s}", k, tags[k]))
	}
	ok := []string{}
	for k := range opts {
		ok = append(ok, k)
	}
	sort.Strings(ok)
	for _, k := range ok {
		toks = append(toks, k+"="+opts[k])
	}
	if joined != nil {
		sep := JoinSep(joined.Join)
		toks = append(toks, "jsep="+joined.Join, "--", fmt.Sprintf("{i:%s|join:%s%s}", joined.Name, sep, joined.Mods))
	}
	return strings.Join(toks, " ")
}

// JoinSep maps a separator name to the separator string.
func JoinSep(name string) string {
	switch name {
	case "comma":
		return ","
	case "colon":
		return ":"
	case "dashI":
		return " -I "
	case "dotdot":
		return ".."
	case "dotand":
		return ".and."
	case "semi2":
		return ";;"
	default:
		return " "
	}
}
