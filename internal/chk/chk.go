// Package chk is the plumbing shared by all property checks: tier / seed,
// scratch directory, subject build, evidence file, three-valued verdicts,
// known findings, replay files.
package chk

import (
	"encoding/json"
	"fmt"
	"math/rand"
	"os"
	"path/filepath"
	"sort"
	"strconv"
	"strings"
	"sync"
	"time"

	"verif/internal/run"
)

// Finding is one entry of known_findings.json.
type Finding struct {
	Property string `json:"property"`
	Key      string `json:"key"`
	Status   string `json:"status"` // open | fixed
	Commit   string `json:"commit,omitempty"`
	What     string `json:"what"`
}

// Ctx is the state of one check invocation.
type Ctx struct {
	Prop    string
	Level   string
	Tier    string
	Seed    int64
	Scratch string
	Bin     string
	RaceBin string
	Start   time.Time

	mu          sync.Mutex
	evals       int
	nontrivial  map[string]bool
	samples     []interface{}
	extra       map[string]interface{}
	counters    map[string]int
	rule        string
	assumptions []string
	inconcl     []string
	viol        map[string]string // signature -> replay path
	violOrder   []string
	known       []Finding
	knownSeen   map[string]int
	minNontriv  int
	exhaustive  bool
	caseNo      int
}

// New prepares a check.
func New(prop, level string, args []string) *Ctx {
	c := &Ctx{Prop: prop, Level: level, Tier: "quick", Seed: 1, Start: time.Now(), nontrivial: map[string]bool{}, extra: map[string]interface{}{},
		counters: map[string]int{}, viol: map[string]string{}, knownSeen: map[string]int{}, minNontriv: 2}
	if t := os.Getenv("VERIF_TIER"); t == "quick" || t == "thorough" {
		c.Tier = t
	}
	for i := 0; i < len(args); i++ {
		switch {
		case args[i] == "--tier" && i+1 < len(args):
			c.Tier = args[i+1]
			i++
		case strings.HasPrefix(args[i], "--tier="):
			c.Tier = args[i][len("--tier="):]
		case args[i] == "--seed" && i+1 < len(args):
			c.Seed, _ = strconv.ParseInt(args[i+1], 10, 64)
			i++
		}
	}
	if s := os.Getenv("VERIF_SEED"); s != "" {
		if n, err := strconv.ParseInt(s, 10, 64); err == nil {
			c.Seed = n
		}
	}
	// known findings
	if b, err := os.ReadFile(filepath.Join(run.Root(), "known_findings.json")); err == nil {
		var kf struct {
			Findings []Finding `json:"findings"`
		}
		if json.Unmarshal(b, &kf) == nil {
			for _, f := range kf.Findings {
				if f.Property == prop && f.Status == "open" {
					c.known = append(c.known, f)
				}
			}
		}
	}
	sc, err := run.Scratch(prop)
	if err != nil {
		c.Broken("cannot create scratch directory: " + err.Error())
	}
	c.Scratch = sc
	return c
}

// Thorough reports whether the thorough tier was requested.
func (c *Ctx) Thorough() bool { return c.Tier == "thorough" }

// Pick returns q in the quick tier and t in the thorough tier.
func (c *Ctx) Pick(q, t int) int {
	if c.Thorough() {
		return t
	}
	return q
}

// Rand returns a PRNG determined by the seed and a label.
func (c *Ctx) Rand(label string) *rand.Rand {
	var h int64 = 1469598103934665603
	for i := 0; i < len(label); i++ {
		h ^= int64(label[i])
		h *= 1099511628211
	}
	return rand.New(rand.NewSource(c.Seed*1000003 ^ h))
}

// Build builds the subject (and optionally the race-instrumented subject).
func (c *Ctx) Build(race bool) {
	bin, err := run.BuildSubject(c.Scratch, false)
	if err != nil {
		c.Broken(err.Error())
	}
	c.Bin = bin
	if race {
		rb, err := run.BuildSubject(c.Scratch, true)
		if err != nil {
			c.Broken(err.Error())
		}
		c.RaceBin = rb
	}
}

// CaseDir returns a fresh case root below the scratch directory.
func (c *Ctx) CaseDir() string {
	c.mu.Lock()
	c.caseNo++
	n := c.caseNo
	c.mu.Unlock()
	d := filepath.Join(c.Scratch, fmt.Sprintf("c%06d", n))
	os.MkdirAll(d, 0777)
	return d
}

// Drop removes a case root (used when a case held; violated cases are kept until Finish).
func (c *Ctx) Drop(dir string) { os.RemoveAll(dir) }

// Eval counts executions.
func (c *Ctx) Eval(n int) {
	c.mu.Lock()
	c.evals += n
	c.mu.Unlock()
}

// Nontrivial registers a distinct non-trivial case by its signature.
func (c *Ctx) Nontrivial(sig string) {
	c.mu.Lock()
	c.nontrivial[sig] = true
	c.mu.Unlock()
}

// Sample keeps up to 5 written-out cases.
func (c *Ctx) Sample(s interface{}) {
	c.mu.Lock()
	if len(c.samples) < 5 {
		c.samples = append(c.samples, s)
	}
	c.mu.Unlock()
}

// Count increments a named counter reported in the evidence.
func (c *Ctx) Count(name string, n int) {
	c.mu.Lock()
	c.counters[name] += n
	c.mu.Unlock()
}

// Max keeps the maximum of a named counter.
func (c *Ctx) Max(name string, n int) {
	c.mu.Lock()
	if n > c.counters[name] {
		c.counters[name] = n
	}
	c.mu.Unlock()
}

// Set stores an extra coverage key.
func (c *Ctx) Set(k string, v interface{}) {
	c.mu.Lock()
	c.extra[k] = v
	c.mu.Unlock()
}

// Rule states how cases are generated and what counts as non-trivial.
func (c *Ctx) Rule(r string) { c.rule = r }

// Assume records an assumption.
func (c *Ctx) Assume(a ...string) { c.assumptions = append(c.assumptions, a...) }

// MinNontrivial sets the floor below which the check is "blind".
func (c *Ctx) MinNontrivial(n int) { c.minNontriv = n }

// Exhaustive marks a completely enumerated finite space.
func (c *Ctx) Exhaustive(b bool) { c.exhaustive = b }

// Inconclusive records a case that could not be decided.
func (c *Ctx) Inconclusive(why string) {
	c.mu.Lock()
	c.inconcl = append(c.inconcl, why)
	c.mu.Unlock()
}

// Violation reports a refuting observation. sig is the canonical signature;
// replay is written to a file. Returns true if it was a known finding.
func (c *Ctx) Violation(sig string, what string, replay interface{}) bool {
	c.mu.Lock()
	defer c.mu.Unlock()
	for _, f := range c.known {
		if f.Key == sig {
			c.knownSeen[sig]++
			return true
		}
	}
	if _, dup := c.viol[sig]; dup {
		return false
	}
	dir := filepath.Join(run.Root(), "replays", c.Prop)
	os.MkdirAll(dir, 0777)
	path := filepath.Join(dir, fmt.Sprintf("%s-%s-seed%d-%d.json", c.Prop, c.Tier, c.Seed, len(c.viol)+1))
	b, _ := json.MarshalIndent(map[string]interface{}{"property": c.Prop, "signature": sig, "what": what, "seed": c.Seed, "tier": c.Tier, "replay": replay}, "", " ")
	os.WriteFile(path, b, 0644)
	c.viol[sig] = path
	c.violOrder = append(c.violOrder, sig)
	fmt.Printf("VIOLATION property=%s replay=%s\n", c.Prop, path)
	fmt.Printf("  signature: %s\n  %s\n", sig, what)
	return false
}

// Broken ends the check as broken / blind (exit 2, never a violation).
func (c *Ctx) Broken(msg string) {
	fmt.Printf("BROKEN: property=%s %s\n", c.Prop, msg)
	if c.Scratch != "" && os.Getenv("VERIF_KEEP") == "" {
		os.RemoveAll(c.Scratch)
	}
	os.Exit(2)
}

// Finish writes the evidence file and exits.
func (c *Ctx) Finish() {
	c.mu.Lock()
	cov := map[string]interface{}{
		"evaluations":         c.evals,
		"distinct_nontrivial": len(c.nontrivial),
		"rule":                c.rule,
		"samples":             c.samples,
		"inconclusive":        len(c.inconcl),
	}
	if c.exhaustive {
		cov["exhaustive"] = true
	}
	for k, v := range c.counters {
		cov[k] = v
	}
	for k, v := range c.extra {
		cov[k] = v
	}
	if len(c.inconcl) > 0 {
		n := len(c.inconcl)
		if n > 10 {
			n = 10
		}
		cov["inconclusive_reasons"] = c.inconcl[:n]
	}
	ks := []string{}
	for k, n := range c.knownSeen {
		ks = append(ks, fmt.Sprintf("%s (x%d)", k, n))
	}
	sort.Strings(ks)
	cov["known_findings_seen"] = ks
	if len(c.samples) == 0 {
		cov["samples"] = []interface{}{"(no case was executed)"}
	}
	ev := map[string]interface{}{
		"property_id": c.Prop,
		"tier":        c.Tier,
		"seed":        c.Seed,
		"level":       c.Level,
		"coverage":    cov,
		"assumptions": c.assumptions,
		"wall_s":      time.Since(c.Start).Seconds(),
		"violations":  len(c.viol),
	}
	nviol := len(c.viol)
	nnon := len(c.nontrivial)
	c.mu.Unlock()
	b, _ := json.MarshalIndent(ev, "", " ")
	evdir := filepath.Join(run.Root(), "evidence")
	if r := os.Getenv("VERIF_REPO"); r != "" && filepath.Clean(r) != "/repo" {
		// a run against a scratch copy (seeded change, mutant) must not replace the evidence of /repo
		evdir = filepath.Join(run.Root(), "work", "evidence-other-tree")
	}
	os.MkdirAll(evdir, 0777)
	os.WriteFile(filepath.Join(evdir, c.Prop+".json"), b, 0644)
	for _, f := range c.known {
		if c.knownSeen[f.Key] > 0 {
			fmt.Printf("KNOWN-FINDING: property=%s %s [%s] (seen %d times)\n", c.Prop, f.What, f.Key, c.knownSeen[f.Key])
		}
	}
	if os.Getenv("VERIF_KEEP") == "" {
		os.RemoveAll(c.Scratch)
	} else {
		fmt.Println("scratch kept:", c.Scratch)
	}
	fmt.Printf("%s tier=%s seed=%d evaluations=%d distinct_nontrivial=%d inconclusive=%d violations=%d wall=%.1fs\n",
		c.Prop, c.Tier, c.Seed, c.evals, nnon, len(c.inconcl), nviol, time.Since(c.Start).Seconds())
	if nviol > 0 {
		os.Exit(1)
	}
	if nnon < c.minNontriv {
		fmt.Printf("BROKEN: property=%s observed too little: %d distinct non-trivial cases (floor %d)\n", c.Prop, nnon, c.minNontriv)
		os.Exit(2)
	}
	os.Exit(0)
}
