// Package vproto implements the protocol spoken by the command that workflow
// tasks execute (cmd/vcmd) and by Go-function tasks inside the subject. The
// command is itself a probe: it logs start/end events with CLOCK_MONOTONIC
// stamps, writes deterministic output content, can fail in several ways, can
// kill its process group, can rendezvous with siblings and can look at its own
// final output path while it runs.
package vproto

import (
	"crypto/sha256"
	"encoding/hex"
	"encoding/json"
	"fmt"
	"io"
	"os"
	"os/exec"
	"path/filepath"
	"sort"
	"strconv"
	"strings"
	"syscall"
	"time"
	"unsafe"
)

// Event is one line of the trace file ($VERIF_TRACE).
type Event struct {
	Ev     string            `json:"ev"` // start | end | probe | rv | rec | ret
	ID     string            `json:"id,omitempty"`
	Key    string            `json:"key,omitempty"`
	Pid    int               `json:"pid,omitempty"`
	T      int64             `json:"t"`
	Argv   []string          `json:"argv,omitempty"`
	Cwd    string            `json:"cwd,omitempty"`
	Status int               `json:"status"`
	Outs   map[string]string `json:"outs,omitempty"`
	Ins    map[string]string `json:"ins,omitempty"`
	Joined []string          `json:"joined,omitempty"`
	Note   string            `json:"note,omitempty"`
	Phase  string            `json:"phase,omitempty"`
	Path   string            `json:"path,omitempty"`
	Exists bool              `json:"exists,omitempty"`
	Rec    string            `json:"rec,omitempty"`
	Seq    int               `json:"seq,omitempty"`
	InProc bool              `json:"inproc,omitempty"`
	Cores  int               `json:"cores,omitempty"`
	Stdin  string            `json:"stdin,omitempty"` // start events of commands: what the command's standard input is (readlink of fd 0)
}

// MonoNS reads CLOCK_MONOTONIC.
func MonoNS() int64 {
	var ts syscall.Timespec
	syscall.Syscall(syscall.SYS_CLOCK_GETTIME, 1, uintptr(unsafe.Pointer(&ts)), 0)
	return ts.Sec*1e9 + ts.Nsec
}

// Emit appends one event to $VERIF_TRACE with a single write on an O_APPEND fd.
func Emit(e *Event) {
	p := os.Getenv("VERIF_TRACE")
	if p == "" {
		return
	}
	if e.T == 0 {
		e.T = MonoNS()
	}
	b, _ := json.Marshal(e)
	b = append(b, '\n')
	f, err := os.OpenFile(p, os.O_APPEND|os.O_CREATE|os.O_WRONLY, 0644)
	if err != nil {
		return
	}
	f.Write(b)
	f.Close()
}

// KV is an ordered key/value pair.
type KV struct{ K, V string }

// Call is a parsed invocation.
type Call struct {
	ID     string
	Outs   []KV // port -> path (regular outputs)
	SOuts  []KV // port -> fifo path (streaming outputs)
	DOuts  []KV // port -> path of an output that is a directory (holding one file 'data')
	Ins    []KV // port -> path
	Params []KV
	Tags   []KV
	Joined []string
	Opts   map[string]string
	Argv   []string
}

// Parse parses the argument tokens.
func Parse(args []string) *Call {
	c := &Call{Opts: map[string]string{}, Argv: args}
	rest := false
	for _, a := range args {
		if rest {
			c.Joined = append(c.Joined, a)
			continue
		}
		if a == "--" {
			rest = true
			continue
		}
		eq := strings.Index(a, "=")
		if eq < 0 {
			continue
		}
		k, v := a[:eq], a[eq+1:]
		switch k {
		case "id":
			c.ID = v
		case "o", "os", "od", "i", "p", "t":
			col := strings.Index(v, ":")
			if col < 0 {
				continue
			}
			kv := KV{v[:col], v[col+1:]}
			switch k {
			case "o":
				c.Outs = append(c.Outs, kv)
			case "os":
				c.SOuts = append(c.SOuts, kv)
			case "od":
				c.DOuts = append(c.DOuts, kv)
			case "i":
				c.Ins = append(c.Ins, kv)
			case "p":
				c.Params = append(c.Params, kv)
			case "t":
				c.Tags = append(c.Tags, kv)
			}
		default:
			c.Opts[k] = v
		}
	}
	// joined members may be separated by a token (jsep=dashI) or a character
	if len(c.Joined) > 0 {
		var mem []string
		switch c.Opts["jsep"] {
		case "comma":
			for _, j := range c.Joined {
				mem = append(mem, splitNonEmpty(j, ",")...)
			}
		case "colon":
			for _, j := range c.Joined {
				mem = append(mem, splitNonEmpty(j, ":")...)
			}
		case "dashI":
			for _, j := range c.Joined {
				if j != "-I" {
					mem = append(mem, j)
				}
			}
		case "dotand":
			for _, j := range c.Joined {
				mem = append(mem, splitNonEmpty(j, ".and.")...)
			}
		default:
			mem = c.Joined
		}
		c.Joined = mem
	}
	return c
}

func splitNonEmpty(s, sep string) []string {
	var out []string
	for _, p := range strings.Split(s, sep) {
		if p != "" {
			out = append(out, p)
		}
	}
	return out
}

// NormIn turns an input path as seen from inside the task's temp directory
// into the path relative to the workflow's working directory.
func NormIn(p string) string {
	if strings.HasPrefix(p, "../") {
		return p[3:]
	}
	return p
}

// TaskKey is the identity of a task as the harness sees it.
func TaskKey(proc string, ins []KV, params []KV, joined []string) string {
	var is, ps []string
	for _, kv := range ins {
		is = append(is, kv.K+"="+kv.V)
	}
	for _, kv := range params {
		ps = append(ps, kv.K+"="+kv.V)
	}
	sort.Strings(is)
	sort.Strings(ps)
	s := proc + "|" + strings.Join(is, ";") + "|" + strings.Join(ps, ";")
	if len(joined) > 0 {
		s += "|j=" + strings.Join(joined, ",")
	}
	return s
}

// Key computes the task key of a call.
func (c *Call) Key() string {
	ins := make([]KV, len(c.Ins))
	for i, kv := range c.Ins {
		ins[i] = KV{kv.K, NormIn(kv.V)}
	}
	var j []string
	for _, m := range c.Joined {
		j = append(j, NormIn(m))
	}
	return TaskKey(c.ID, ins, c.Params, j)
}

// Sha returns the hex sha256 of b.
func Sha(b []byte) string {
	s := sha256.Sum256(b)
	return hex.EncodeToString(s[:])
}

// Content is the deterministic content of an output.
func Content(proc, port string, params, tags, inShas []KV, joinedShas []string, size int) []byte {
	if size < 0 {
		return []byte{} // a legitimately empty output (grep without a hit)
	}
	var sb strings.Builder
	fmt.Fprintf(&sb, "VOUT1 id=%s port=%s\n", proc, port)
	srt := func(kvs []KV) []KV {
		c := append([]KV(nil), kvs...)
		sort.Slice(c, func(i, j int) bool { return c[i].K < c[j].K })
		return c
	}
	for _, kv := range srt(params) {
		fmt.Fprintf(&sb, "p %s=%s\n", kv.K, kv.V)
	}
	for _, kv := range srt(tags) {
		fmt.Fprintf(&sb, "t %s=%s\n", kv.K, kv.V)
	}
	for _, kv := range srt(inShas) {
		fmt.Fprintf(&sb, "i %s %s\n", kv.K, kv.V)
	}
	for i, s := range joinedShas {
		fmt.Fprintf(&sb, "j %d %s\n", i, s)
	}
	sb.WriteString("F ")
	if size > 0 {
		sb.WriteString(strings.Repeat("x", size))
	}
	sb.WriteString("\n")
	return []byte(sb.String())
}

// ExtraContent is the content of an additional (undeclared) file.
func ExtraContent(proc, rel string) []byte {
	return []byte("EXTRA id=" + proc + " path=" + rel + "\n")
}

// Behaviours maps a task key or a process name to option overrides.
type Behaviours map[string]map[string]string

func loadBehav() Behaviours {
	p := os.Getenv("VERIF_BEHAV")
	if p == "" {
		return nil
	}
	b, err := os.ReadFile(p)
	if err != nil {
		return nil
	}
	var m Behaviours
	json.Unmarshal(b, &m)
	return m
}

// OptsFor returns the options of a parsed command with the overrides of the behaviours file applied (process name
// first, then task key).
func OptsFor(c *Call, key string) map[string]string {
	opts := map[string]string{}
	for k, v := range c.Opts {
		opts[k] = v
	}
	if bh := loadBehav(); bh != nil {
		for k, v := range bh[c.ID] {
			opts[k] = v
		}
		for k, v := range bh[key] {
			opts[k] = v
		}
	}
	return opts
}

// Env abstracts how the protocol ends the caller.
type Env struct {
	Cwd    string           // directory the task "runs" in (temp dir); "" = process cwd
	WfDir  string           // workflow working directory relative to which probe paths resolve
	InProc bool             // Go-function task inside the workflow process
	Fail   func(msg string) // in-process failure (t.Failf); nil for commands
	Cores  int
}

func atoi(s string, def int) int {
	if s == "" {
		return def
	}
	n, err := strconv.Atoi(s)
	if err != nil {
		return def
	}
	return n
}

func (e *Env) abs(p string) string {
	if filepath.IsAbs(p) || e.Cwd == "" {
		return p
	}
	// no lexical cleaning: "dir/../x" must be resolved by the kernel (dir may be a symbolic link)
	return e.Cwd + "/" + p
}

func killGroup() {
	syscall.Kill(-syscall.Getpgrp(), syscall.SIGKILL)
	for {
		time.Sleep(time.Hour)
	}
}

// DirPart is the content of the k-th companion file of a directory output.
func DirPart(proc, port string, k int) []byte {
	return []byte(fmt.Sprintf("VDIRPART id=%s port=%s part=%d\n", proc, port, k))
}

// evPid is the process id events are reported under: a background helper reports under the id of the command
// that started it, so that start and end event of one task carry the same id.
func evPid() int {
	if v := os.Getenv("VERIF_BGHELPER"); v != "" {
		if n, err := strconv.Atoi(v); err == nil {
			return n
		}
	}
	return os.Getpid()
}

// Exec performs one task. It returns the exit status a command should use.
func Exec(args []string, env *Env) int {
	c := Parse(args)
	key := c.Key()
	opts := map[string]string{}
	for k, v := range c.Opts {
		opts[k] = v
	}
	if bh := loadBehav(); bh != nil {
		for k, v := range bh[c.ID] {
			opts[k] = v
		}
		for k, v := range bh[key] {
			opts[k] = v
		}
	}
	cwd, _ := os.Getwd()
	helper := os.Getenv("VERIF_BGHELPER") != ""
	if !helper {
		stdin := ""
		if !env.InProc {
			stdin, _ = os.Readlink("/proc/self/fd/0")
		}
		Emit(&Event{Ev: "start", ID: c.ID, Key: key, Pid: evPid(), Argv: args, Cwd: cwd, InProc: env.InProc, Cores: env.Cores, Stdin: stdin})
	}
	if opts["bgwrite"] != "" && !env.InProc && !helper {
		// The command's work is done by a helper that outlives it (a background job, a bash process substitution):
		// the helper inherits stdout / stderr, so whoever reads the command's output sees EOF only when it is done.
		// The command itself returns at once with status 0; the helper writes the outputs and the end event.
		h := exec.Command(os.Args[0], os.Args[1:]...)
		h.Env = append(os.Environ(), fmt.Sprintf("VERIF_BGHELPER=%d", os.Getpid()))
		h.Stdout, h.Stderr = os.Stdout, os.Stderr
		if err := h.Start(); err != nil {
			Emit(&Event{Ev: "end", ID: c.ID, Key: key, Pid: evPid(), Status: 6, Note: "cannot start helper: " + err.Error()})
			return 6
		}
		return 0
	}

	probe := func(phase string) {
		for k, v := range opts {
			if strings.HasPrefix(k, "probe.") {
				p := v
				if !filepath.IsAbs(p) {
					p = filepath.Join(env.WfDir, p)
				}
				_, err := os.Lstat(p)
				Emit(&Event{Ev: "probe", ID: c.ID, Key: key, Phase: phase, Path: v, Exists: err == nil})
			}
		}
	}
	finish := func(status int, note string, outs, ins map[string]string) int {
		if d := atoi(opts["post"], 0); d > 0 {
			time.Sleep(time.Duration(d) * time.Millisecond)
		}
		Emit(&Event{Ev: "end", ID: c.ID, Key: key, Pid: evPid(), Status: status, Note: note, Outs: outs, Ins: ins, InProc: env.InProc})
		if n := atoi(opts["noise"], 0); n > 0 && status != 0 && !env.InProc {
			// a verbose failing tool: a long error report on stderr
			line := strings.Repeat("error detail ", 8) + "\n"
			for w := 0; w < n; w += len(line) {
				os.Stderr.WriteString(line)
			}
		}
		return status
	}
	fail := opts["fail"]
	kg := opts["killgroup"]

	probe("start")
	if kg == "start" {
		killGroup()
	}
	// rendezvous
	if rv := opts["rv"]; rv != "" {
		parts := strings.SplitN(rv, ":", 2)
		k := atoi(parts[0], 1)
		name := "rv"
		if len(parts) > 1 {
			name = parts[1]
		}
		dir := filepath.Join(os.Getenv("VERIF_RVDIR"), name)
		os.MkdirAll(dir, 0777)
		os.WriteFile(filepath.Join(dir, fmt.Sprintf("%d-%d", os.Getpid(), MonoNS())), nil, 0644)
		t0 := MonoNS()
		to := int64(atoi(opts["rvto"], 20000)) * 1e6
		ok := false
		for {
			ents, _ := os.ReadDir(dir)
			if len(ents) >= k {
				ok = true
				break
			}
			if MonoNS()-t0 > to {
				break
			}
			time.Sleep(2 * time.Millisecond)
		}
		note := "ok"
		if !ok {
			note = "timeout"
		}
		Emit(&Event{Ev: "rv", ID: c.ID, Key: key, Note: note, Seq: k, Path: name})
	}
	if n := atoi(opts["chatter"], 0); n > 0 && !env.InProc {
		// a verbose tool: progress lines on stdout and stderr (nothing of it goes into a file)
		line := strings.Repeat("progress ", 7) + "\n"
		for w := 0; w < n; w += 2 * len(line) {
			os.Stdout.WriteString(line)
			os.Stderr.WriteString(line)
		}
	}
	if opts["readstdin"] != "" && !env.InProc {
		// a tool that takes optional input on its standard input (reads it to the end before it starts)
		io.Copy(io.Discard, os.Stdin)
	}
	if d := atoi(opts["sleep"], 0); d > 0 {
		time.Sleep(time.Duration(d) * time.Millisecond)
	}
	if fail == "exit-before-write" {
		return finish(3, fail, nil, nil)
	}

	// read inputs
	inShas := []KV{}
	insMap := map[string]string{}
	for _, kv := range c.Ins {
		ipath := env.abs(kv.V)
		if fi, e := os.Stat(ipath); e == nil && fi.IsDir() {
			ipath = filepath.Join(ipath, "data")
		}
		b, err := os.ReadFile(ipath)
		if err != nil {
			return finish(4, "input unreadable: "+kv.V+": "+err.Error(), nil, nil)
		}
		s := Sha(b)
		inShas = append(inShas, KV{kv.K, s})
		insMap[kv.K] = s
	}
	var jShas []string
	for _, m := range c.Joined {
		b, err := os.ReadFile(env.abs(m))
		if err != nil {
			return finish(4, "joined input unreadable: "+m+": "+err.Error(), nil, nil)
		}
		jShas = append(jShas, Sha(b))
	}

	size := atoi(opts["size"], 40)
	pause := atoi(opts["pause"], 0)
	outs := map[string]string{}
	type wr struct {
		port, path string
		stream     bool
		dir        bool
	}
	var ws []wr
	for _, kv := range c.Outs {
		ws = append(ws, wr{kv.K, kv.V, false, false})
	}
	for _, kv := range c.SOuts {
		ws = append(ws, wr{kv.K, kv.V, true, false})
	}
	for _, kv := range c.DOuts {
		ws = append(ws, wr{kv.K, kv.V, false, true})
	}
	sort.SliceStable(ws, func(i, j int) bool { return ws[i].port < ws[j].port })
	firstFile := -1 // the first output that is not a stream: the one the omit-output / wrong-place modes leave out
	for idx, w := range ws {
		if !w.stream && firstFile < 0 {
			firstFile = idx
		}
	}
	for idx, w := range ws {
		data := Content(c.ID, w.port, c.Params, c.Tags, inShas, jShas, size)
		path := w.path
		if idx == firstFile && fail == "omit-output" {
			continue
		}
		if idx == firstFile && fail == "wrong-place" {
			path = path + ".wrong"
		}
		full := env.abs(path)
		if opts["linkout"] != "" && !w.stream && !w.dir && len(c.Ins) > 0 {
			// the tool leaves a relative symbolic link to its input as its output ("ln -s {i:in} {o:out}")
			os.Symlink(c.Ins[0].V, full)
			outs[w.port] = "link:" + c.Ins[0].V
			continue
		}
		if w.dir {
			// a directory output holds several files: two parts (written first, sorting before "data") and "data"
			os.MkdirAll(full, 0777)
			for k := 1; k <= 2; k++ {
				os.WriteFile(filepath.Join(full, fmt.Sprintf("aa_part%d", k)), DirPart(c.ID, w.port, k), 0644)
			}
			full = filepath.Join(full, "data")
		}
		var f *os.File
		var err error
		if w.stream {
			f, err = os.OpenFile(full, os.O_WRONLY, 0)
		} else {
			if env.InProc {
				os.MkdirAll(filepath.Dir(full), 0777)
			}
			flags := os.O_CREATE | os.O_WRONLY | os.O_TRUNC
			if opts["append"] != "" {
				// a command that builds on what it finds (">>" loops, resumable tools)
				flags = os.O_CREATE | os.O_WRONLY | os.O_APPEND
			}
			f, err = os.OpenFile(full, flags, 0644)
		}
		if err != nil {
			return finish(5, "cannot open output "+path+": "+err.Error(), outs, insMap)
		}
		half := len(data) / 2
		f.Write(data[:half])
		if idx == 0 {
			probe("mid")
			if kg == "mid" {
				killGroup()
			}
			if fail == "exit-mid-write" {
				f.Close()
				return finish(3, fail, outs, insMap)
			}
			if fail == "panic-mid-write" && env.InProc {
				// a Go function that panics after having written half of its output
				f.Close()
				Emit(&Event{Ev: "end", ID: c.ID, Key: key, Pid: evPid(), Status: 2, Note: fail, InProc: true})
				panic("injected panic in the Go function of task " + key)
			}
			if fail == "sigkill-self" && !env.InProc {
				Emit(&Event{Ev: "end", ID: c.ID, Key: key, Pid: evPid(), Status: 137, Note: fail})
				syscall.Kill(os.Getpid(), syscall.SIGKILL)
				time.Sleep(time.Hour)
			}
		}
		if pause > 0 {
			time.Sleep(time.Duration(pause) * time.Millisecond)
		}
		f.Write(data[half:])
		f.Close()
		if opts["mtime"] == "old" {
			// a tool that restores the modification time of what it unpacks / copies (tar x, cp -p, rsync -a)
			old := time.Date(2001, 2, 3, 4, 5, 6, 0, time.UTC)
			if !w.stream {
				os.Chtimes(full, old, old)
			}
		}
		outs[w.port] = Sha(data)
	}
	if ex := opts["extra"]; ex != "" {
		for _, rel := range strings.Split(ex, ",") {
			if k := strings.Index(rel, "@@"); k > 0 {
				// an additional file that is a symbolic link (tools leave 'latest' links behind)
				full := env.abs(rel[:k])
				os.MkdirAll(filepath.Dir(full), 0777)
				os.Symlink(rel[k+2:], full)
				continue
			}
			full := env.abs(rel)
			os.MkdirAll(filepath.Dir(full), 0777)
			os.WriteFile(full, ExtraContent(c.ID, rel), 0644)
		}
	}
	probe("end")
	if kg == "end" {
		killGroup()
	}
	switch fail {
	case "panic-after-write":
		if env.InProc {
			Emit(&Event{Ev: "end", ID: c.ID, Key: key, Pid: evPid(), Status: 2, Note: fail, Outs: outs, InProc: true})
			panic("injected panic in the Go function of task " + key)
		}
		return finish(3, fail, outs, insMap)
	case "exit-after-write":
		return finish(3, fail, outs, insMap)
	case "sigsegv-self":
		if !env.InProc {
			Emit(&Event{Ev: "end", ID: c.ID, Key: key, Pid: evPid(), Status: 139, Note: fail})
			syscall.Kill(os.Getpid(), syscall.SIGSEGV)
			time.Sleep(time.Hour)
		}
		return finish(3, fail, outs, insMap)
	case "omit-output", "wrong-place":
		return finish(0, fail, outs, insMap)
	case "sigkill-shell", "sigterm-shell":
		// the shell that runs the command line is killed by a signal (as an
		// OOM killer or an operator would) after all output was written
		if !env.InProc {
			sig := syscall.SIGKILL
			if fail == "sigterm-shell" {
				sig = syscall.SIGTERM
			}
			Emit(&Event{Ev: "end", ID: c.ID, Key: key, Pid: evPid(), Status: 128 + int(sig), Note: fail, Outs: outs})
			// (a shell given a single simple command replaces itself by it: then this process *is* what the library
			// started as the task's shell, and its parent is the workflow program)
			target := os.Getppid()
			if comm, err := os.ReadFile(fmt.Sprintf("/proc/%d/comm", target)); err != nil || (strings.TrimSpace(string(comm)) != "bash" && strings.TrimSpace(string(comm)) != "sh") {
				target = os.Getpid()
			}
			syscall.Kill(target, sig)
			time.Sleep(50 * time.Millisecond)
			return 0
		}
		return finish(3, fail, outs, insMap)
	}
	return finish(0, "", outs, insMap)
}
