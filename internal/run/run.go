// Package run executes the subject as a child process per case: scratch
// directory, own process group, environment, watchdog, hang classification,
// file-system snapshots.
package run

import (
	"bufio"
	"bytes"
	"crypto/sha256"
	"encoding/hex"
	"encoding/json"
	"fmt"
	"io"
	"os"
	"os/exec"
	"path/filepath"
	"regexp"
	"sort"
	"strconv"
	"strings"
	"sync"
	"syscall"
	"time"

	"verif/internal/spec"
	"verif/internal/vproto"
)

// Root is the /verif directory (derived from the executable's location).
func Root() string {
	if r := os.Getenv("VERIF_ROOT"); r != "" {
		return r
	}
	exe, err := os.Executable()
	if err == nil {
		d := filepath.Dir(filepath.Dir(exe))
		if _, err := os.Stat(filepath.Join(d, "go.mod")); err == nil {
			return d
		}
	}
	return "/verif"
}

// Repo is the scipipe tree to verify.
func Repo() string {
	if r := os.Getenv("VERIF_REPO"); r != "" {
		return r
	}
	return "/repo"
}

func goEnv() []string {
	env := os.Environ()
	env = append(env, "GOFLAGS=-mod=mod", "GOPROXY=off", "GOSUMDB=off", "GOTOOLCHAIN=local", "CGO_ENABLED=0")
	return env
}

// Scratch creates a private scratch directory for one check invocation.
func Scratch(prefix string) (string, error) {
	base := os.Getenv("VERIF_SCRATCH")
	if base == "" {
		base = os.TempDir()
	}
	return os.MkdirTemp(base, "verif-"+prefix+"-")
}

// modfile returns the -modfile argument needed to point the build at Repo().
func modfile(scratch string) (string, error) {
	root := Root()
	b, err := os.ReadFile(filepath.Join(root, "go.mod"))
	if err != nil {
		return "", err
	}
	re := regexp.MustCompile(`(?m)^replace github.com/scipipe/scipipe => .*$`)
	nb := re.ReplaceAll(b, []byte("replace github.com/scipipe/scipipe => "+Repo()))
	mf := filepath.Join(scratch, "go.mod")
	if err := os.WriteFile(mf, nb, 0644); err != nil {
		return "", err
	}
	if sb, err := os.ReadFile(filepath.Join(root, "go.sum")); err == nil {
		os.WriteFile(filepath.Join(scratch, "go.sum"), sb, 0644)
	}
	return mf, nil
}

// BuildSubject builds subject/wfrun from the current working tree of the
// repository, with hooks enabled, into scratch.
func BuildSubject(scratch string, race bool) (string, error) {
	out := filepath.Join(scratch, "wfrun")
	args := []string{"build", "-tags", "verif"}
	env := goEnv()
	if os.Getenv("VERIF_COVER") != "" && !race {
		// diagnostic mode (tools/coverage.sh): which statements of the library do the workloads execute at all?
		args = append(args, "-cover", "-coverpkg=verif/subject,github.com/scipipe/scipipe,github.com/scipipe/scipipe/components")
	}
	if race {
		out += "-race"
		args = append(args, "-race")
		env = append(env, "CGO_ENABLED=1")
	}
	mf, err := modfile(scratch)
	if err != nil {
		return "", err
	}
	args = append(args, "-modfile="+mf, "-o", out, "./subject")
	cmd := exec.Command("go", args...)
	cmd.Dir = Root()
	cmd.Env = env
	b, err := cmd.CombinedOutput()
	if err != nil {
		return "", fmt.Errorf("building subject failed: %v\n%s", err, b)
	}
	return out, nil
}

// BuildCLI builds cmd/scipipe of the repository into scratch.
func BuildCLI(scratch string) (string, error) {
	out := filepath.Join(scratch, "scipipe-cli")
	cmd := exec.Command("go", "build", "-tags", "verif", "-o", out, "./cmd/scipipe")
	cmd.Dir = Repo()
	cmd.Env = goEnv()
	b, err := cmd.CombinedOutput()
	if err != nil {
		return "", fmt.Errorf("building scipipe CLI failed: %v\n%s", err, b)
	}
	return out, nil
}

// HookEvent is one line of the hook event log.
type HookEvent struct {
	Seq  int64  `json:"seq"`
	T    int64  `json:"t"`
	G    int64  `json:"g"`
	Pt   string `json:"pt"`
	Who  string `json:"who"`
	Tmp  string `json:"tmp"`
	N    int    `json:"n"`
	Held int    `json:"held"`
}

// Case is one execution of the subject.
type Case struct {
	Root            string // case root: wd/, meta/ are created below it
	Bin             string
	Spec            *spec.Spec
	Env             map[string]string
	Behav           vproto.Behaviours
	Soft            time.Duration // budget after which the hang classifier looks
	Hard            time.Duration // watchdog
	Wrap            []string      // command prefix (e.g. strace ...)
	Mode            string        // subject mode, default "run"
	Args            []string      // extra args for other modes
	StdinOpen       bool          // the subject's standard input is a pipe that stays open and silent (a terminal nobody types on)
	SlowStderr      bool          // the subject's stderr is a pipe with a slow reader
	KeepWd          bool          // do not (re)create sources; re-run in place
	RunNo           int           // run number inside the same root (separate meta files)
	WdRel           string        // working directory relative to Root (default "wd")
	KillWhenExists  []string      // SIGKILL the process group as soon as one of these absolute paths exists
	KillAtTraceLine int           // > 0: SIGKILL the process group as soon as the command trace has this many lines (a logical instant)
}

// Result is what was observed.
type Result struct {
	Exit       int            `json:"exit"`
	Signal     string         `json:"signal,omitempty"`
	Returned   bool           `json:"returned"` // RUN-RETURNED marker seen
	Ret        *RetRec        `json:"ret,omitempty"`
	Hang       string         `json:"hang,omitempty"` // "" | deadlock:<why> | inconclusive:<why>
	HangInfo   string         `json:"hang_info,omitempty"`
	WallMS     int64          `json:"wall_ms"`
	StdinPipe  string         `json:"stdin_pipe,omitempty"` // with StdinOpen: how the subject's standard input reads in /proc/<pid>/fd (pipe:[inode])
	Trace      []vproto.Event `json:"-"`
	Events     []HookEvent    `json:"-"`
	OutPath    string         `json:"out_path"`
	Wd         string         `json:"wd"`
	Meta       string         `json:"meta"`
	GoDeadlock bool           `json:"go_deadlock,omitempty"`
}

// RetRec is the RUN-RETURNED record printed by the subject.
type RetRec struct {
	T        int64 `json:"t"`
	Children []int `json:"children"`
	Listing  []struct {
		Path string `json:"path"`
		Size int64  `json:"size"`
		Mode string `json:"mode"`
	} `json:"listing"`
}

// Output returns the combined stdout/stderr of the run.
func (r *Result) Output() string {
	b, _ := os.ReadFile(r.OutPath)
	return string(b)
}

// Prepare creates wd and meta and writes sources.
func (c *Case) Prepare() (wd, meta string, err error) {
	wdRel := c.WdRel
	if wdRel == "" {
		wdRel = "wd"
	}
	wd = filepath.Join(c.Root, wdRel)
	meta = filepath.Join(c.Root, "meta")
	os.MkdirAll(wd, 0777)
	os.MkdirAll(meta, 0777)
	if !c.KeepWd && c.Spec != nil {
		for _, d := range c.Spec.Dirs {
			p := d
			if !filepath.IsAbs(p) {
				p = filepath.Join(wd, p)
			}
			os.MkdirAll(p, 0777)
		}
		for l, target := range c.Spec.Links {
			lp := filepath.Join(wd, l)
			os.MkdirAll(filepath.Dir(lp), 0777)
			os.Symlink(target, lp)
		}
		for p, content := range c.Spec.Sources {
			if !filepath.IsAbs(p) {
				p = filepath.Join(wd, p)
			}
			os.MkdirAll(filepath.Dir(p), 0777)
			if err = os.WriteFile(p, []byte(content), 0644); err != nil {
				return
			}
		}
	}
	return
}

// Run executes the case.
func (c *Case) Run() *Result {
	wd, meta, err := c.Prepare()
	res := &Result{Wd: wd, Meta: meta}
	if err != nil {
		res.Exit = -1
		res.Hang = "inconclusive:prepare:" + err.Error()
		return res
	}
	sfx := ""
	if c.RunNo > 0 {
		sfx = "." + strconv.Itoa(c.RunNo)
	}
	specPath := filepath.Join(meta, "spec"+sfx+".json")
	if c.Spec != nil {
		c.Spec.Save(specPath)
	}
	tracePath := filepath.Join(meta, "trace"+sfx+".jsonl")
	evPath := filepath.Join(meta, "ev"+sfx+".jsonl")
	outPath := filepath.Join(meta, "out"+sfx+".txt")
	behavPath := filepath.Join(meta, "behav"+sfx+".json")
	rvDir := filepath.Join(meta, "rv"+sfx)
	os.Remove(tracePath)
	os.Remove(evPath)
	res.OutPath = outPath
	if c.Behav != nil {
		b, _ := json.Marshal(c.Behav)
		os.WriteFile(behavPath, b, 0644)
	}
	mode := c.Mode
	if mode == "" {
		mode = "run"
	}
	argv := append([]string{}, c.Wrap...)
	argv = append(argv, c.Bin, mode)
	if c.Spec != nil {
		argv = append(argv, specPath)
	}
	argv = append(argv, c.Args...)
	cmd := exec.Command(argv[0], argv[1:]...)
	cmd.Dir = wd
	outF, _ := os.Create(outPath)
	defer outF.Close()
	cmd.Stdout = outF
	cmd.Stderr = outF
	if c.StdinOpen {
		if pr, pw, err := os.Pipe(); err == nil {
			cmd.Stdin = pr
			defer pw.Close()
			defer pr.Close()
			if fi, err := pr.Stat(); err == nil {
				if st, ok := fi.Sys().(*syscall.Stat_t); ok {
					res.StdinPipe = fmt.Sprintf("pipe:[%d]", st.Ino)
				}
			}
		}
	}
	var slowDone chan struct{}
	var slowPW *os.File
	if c.SlowStderr {
		// the subject's stderr is a pipe with a slow reader (a terminal, a pager, ssh): 128 kB every 10 ms
		pr, pw, err := os.Pipe()
		if err == nil {
			cmd.Stderr = pw
			slowDone = make(chan struct{})
			go func() {
				defer close(slowDone)
				buf := make([]byte, 128<<10)
				for {
					n, err := pr.Read(buf)
					if n > 0 {
						outF.Write(buf[:n])
						time.Sleep(10 * time.Millisecond)
					}
					if err != nil {
						pr.Close()
						return
					}
				}
			}()
			slowPW = pw
			defer func() {
				pw.Close()
				select {
				case <-slowDone:
				case <-time.After(5 * time.Second):
				}
			}()
		}
	}
	cmd.SysProcAttr = &syscall.SysProcAttr{Setsid: true}
	env := []string{"PATH=" + os.Getenv("PATH"), "HOME=" + os.Getenv("HOME"), "LANG=C",
		"VERIF_TRACE=" + tracePath, "VERIF_EVLOG=" + evPath, "VERIF_RVDIR=" + rvDir, "TMPDIR=" + meta}
	if c.Behav != nil {
		env = append(env, "VERIF_BEHAV="+behavPath)
	}
	if cd := os.Getenv("VERIF_COVER"); cd != "" {
		env = append(env, "GOCOVERDIR="+cd)
	}
	keys := []string{}
	for k := range c.Env {
		keys = append(keys, k)
	}
	sort.Strings(keys)
	for _, k := range keys {
		env = append(env, k+"="+c.Env[k])
	}
	cmd.Env = env
	soft, hard := c.Soft, c.Hard
	if soft == 0 {
		soft = 20 * time.Second
	}
	if hard == 0 {
		hard = 90 * time.Second
	}
	t0 := time.Now()
	if err := cmd.Start(); err != nil {
		res.Exit = -1
		res.Hang = "inconclusive:start:" + err.Error()
		return res
	}
	if slowPW != nil {
		slowPW.Close() // the reader sees end-of-file when the subject is gone
	}
	pgid := cmd.Process.Pid
	done := make(chan error, 1)
	go func() { done <- cmd.Wait() }()
	stopWatch := make(chan struct{})
	defer close(stopWatch)
	if len(c.KillWhenExists) > 0 {
		go func() {
			for {
				select {
				case <-stopWatch:
					return
				default:
				}
				for _, p := range c.KillWhenExists {
					if _, err := os.Lstat(p); err == nil {
						syscall.Kill(-pgid, syscall.SIGKILL)
						return
					}
				}
				time.Sleep(100 * time.Microsecond)
			}
		}()
	}
	if c.KillAtTraceLine > 0 {
		go func() {
			for {
				select {
				case <-stopWatch:
					return
				default:
				}
				if b, err := os.ReadFile(tracePath); err == nil && bytes.Count(b, []byte("\n")) >= c.KillAtTraceLine {
					syscall.Kill(-pgid, syscall.SIGKILL)
					return
				}
				time.Sleep(300 * time.Microsecond)
			}
		}()
	}
	var werr error
	select {
	case werr = <-done:
	case <-time.After(soft):
		// hang classification
		verdict, info, exited, e2 := classifyHang(pgid, tracePath, evPath, outPath, done, hard-soft)
		res.Hang, res.HangInfo = verdict, info
		if exited {
			werr = e2
			if verdict == "" || strings.HasPrefix(verdict, "slow") {
				res.Hang = ""
			}
		} else {
			syscall.Kill(-pgid, syscall.SIGKILL)
			werr = <-done
		}
	}
	// reap orphans of the group
	syscall.Kill(-pgid, syscall.SIGKILL)
	res.WallMS = time.Since(t0).Milliseconds()
	if werr != nil {
		if ee, ok := werr.(*exec.ExitError); ok {
			ws := ee.Sys().(syscall.WaitStatus)
			if ws.Signaled() {
				res.Signal = ws.Signal().String()
				res.Exit = 128 + int(ws.Signal())
			} else {
				res.Exit = ws.ExitStatus()
			}
		} else {
			res.Exit = -1
		}
	}
	outF.Sync()
	ob, _ := os.ReadFile(outPath)
	if i := bytes.LastIndex(ob, []byte("\nRUN-RETURNED ")); i >= 0 {
		line := ob[i+len("\nRUN-RETURNED "):]
		if j := bytes.IndexByte(line, '\n'); j >= 0 {
			line = line[:j]
		}
		rr := &RetRec{}
		if json.Unmarshal(line, rr) == nil {
			res.Returned = true
			res.Ret = rr
		}
	}
	if bytes.Contains(ob, []byte("all goroutines are asleep - deadlock!")) {
		res.GoDeadlock = true
		if res.Hang == "" || strings.HasPrefix(res.Hang, "inconclusive") {
			res.Hang = "deadlock:go-runtime"
		}
	}
	res.Trace = ReadTrace(tracePath)
	res.Events = ReadEvents(evPath)
	if why := environmentFailure(ob); why != "" && (res.Hang == "" || strings.HasPrefix(res.Hang, "deadlock")) {
		// the machine, not the library: no verdict can be based on this run
		res.Hang = "inconclusive:environment:" + why
	}
	return res
}

// environmentFailure recognises runs that failed because the machine ran out of process slots, memory or
// disk space (seen: fork/exec EAGAIN while a mutation analysis had leaked thousands of test processes).
func environmentFailure(out []byte) string {
	lo := bytes.ToLower(out)
	switch {
	case bytes.Contains(lo, []byte("resource temporarily unavailable")) && (bytes.Contains(lo, []byte("fork")) || bytes.Contains(lo, []byte("newosproc")) || bytes.Contains(lo, []byte("failed to create new os thread"))):
		return "out-of-process-slots (fork: resource temporarily unavailable)"
	case bytes.Contains(lo, []byte("failed to create new os thread")):
		return "out-of-threads"
	case bytes.Contains(lo, []byte("cannot allocate memory")):
		return "out-of-memory"
	case bytes.Contains(lo, []byte("no space left on device")):
		return "disk-full"
	}
	return ""
}

// ReadTrace parses a trace file.
func ReadTrace(path string) []vproto.Event {
	f, err := os.Open(path)
	if err != nil {
		return nil
	}
	defer f.Close()
	var out []vproto.Event
	sc := bufio.NewScanner(f)
	sc.Buffer(make([]byte, 1<<20), 1<<26)
	for sc.Scan() {
		var e vproto.Event
		if json.Unmarshal(sc.Bytes(), &e) == nil {
			out = append(out, e)
		}
	}
	return out
}

// ReadEvents parses a hook event log.
func ReadEvents(path string) []HookEvent {
	f, err := os.Open(path)
	if err != nil {
		return nil
	}
	defer f.Close()
	var out []HookEvent
	sc := bufio.NewScanner(f)
	sc.Buffer(make([]byte, 1<<20), 1<<26)
	for sc.Scan() {
		var e HookEvent
		if json.Unmarshal(sc.Bytes(), &e) == nil {
			out = append(out, e)
		}
	}
	return out
}

// ---------------------------------------------------------------------------
// Hang classification (DESIGN 5.3)
// ---------------------------------------------------------------------------

type procSample struct {
	pid   int
	comm  string
	state string
	cpu   int64
	wchan string
}

func groupProcs(pgid int) []procSample {
	var out []procSample
	ents, _ := os.ReadDir("/proc")
	for _, e := range ents {
		pid, err := strconv.Atoi(e.Name())
		if err != nil {
			continue
		}
		b, err := os.ReadFile(filepath.Join("/proc", e.Name(), "stat"))
		if err != nil {
			continue
		}
		s := string(b)
		rp := strings.LastIndex(s, ")")
		lp := strings.Index(s, "(")
		if rp < 0 || lp < 0 {
			continue
		}
		f := strings.Fields(s[rp+1:])
		if len(f) < 14 {
			continue
		}
		pg, _ := strconv.Atoi(f[2])
		if pg != pgid {
			continue
		}
		ut, _ := strconv.ParseInt(f[11], 10, 64)
		st, _ := strconv.ParseInt(f[12], 10, 64)
		// sum over threads
		var cpu int64 = ut + st
		w, _ := os.ReadFile(filepath.Join("/proc", e.Name(), "wchan"))
		out = append(out, procSample{pid, s[lp+1 : rp], f[0], cpu, string(w)})
	}
	sort.Slice(out, func(i, j int) bool { return out[i].pid < out[j].pid })
	return out
}

func fileSize(p string) int64 {
	fi, err := os.Stat(p)
	if err != nil {
		return 0
	}
	return fi.Size()
}

var blockedStates = []string{"chan receive", "chan send", "select", "semacquire", "sync.Mutex.Lock", "sync.WaitGroup.Wait", "sync.Cond.Wait", "sync.RWMutex", "select (no cases)", "chan receive (nil chan)", "chan send (nil chan)"}

// classifyHang is called when a run exceeded its soft budget.
func classifyHang(pgid int, tracePath, evPath, outPath string, done chan error, remaining time.Duration) (verdict, info string, exited bool, werr error) {
	deadline := time.Now().Add(remaining)
	for {
		s1 := groupProcs(pgid)
		t1, e1 := fileSize(tracePath), fileSize(evPath)
		select {
		case werr = <-done:
			return "slow", "", true, werr
		case <-time.After(2 * time.Second):
		}
		s2 := groupProcs(pgid)
		t2, e2 := fileSize(tracePath), fileSize(evPath)
		stable := t1 == t2 && e1 == e2 && len(s1) == len(s2)
		if stable {
			for i := range s1 {
				if s1[i].pid != s2[i].pid || s1[i].cpu != s2[i].cpu || (s2[i].state != "S" && s2[i].state != "Z") {
					stable = false
				}
			}
		}
		if stable {
			var sb strings.Builder
			subjectAlive := false
			childStuck := true
			nChildren := 0
			for _, p := range s2 {
				fmt.Fprintf(&sb, "pid=%d comm=%s state=%s cpu=%d wchan=%s\n", p.pid, p.comm, p.state, p.cpu, p.wchan)
				if p.pid == pgid {
					subjectAlive = true
					continue
				}
				if p.state == "Z" {
					continue
				}
				nChildren++
				switch {
				case strings.Contains(p.wchan, "wait_for_partner"), strings.Contains(p.wchan, "fifo_open"):
				case strings.Contains(p.wchan, "do_wait"), strings.Contains(p.wchan, "wait4"), strings.Contains(p.wchan, "do_wait4"):
					// a shell waiting for its own child; judged through that child
				case strings.Contains(p.wchan, "pipe_read"), strings.Contains(p.wchan, "pipe_wait"), strings.Contains(p.wchan, "pipe_write"), strings.Contains(p.wchan, "anon_pipe"):
				default:
					childStuck = false
				}
			}
			if !subjectAlive {
				select {
				case werr = <-done:
					return "slow", "", true, werr
				case <-time.After(time.Second):
				}
			}
			// threads of the subject itself that sit in the open of a FIFO without a partner
			subjectOnFifo := false
			if ths, err := filepath.Glob(fmt.Sprintf("/proc/%d/task/*/wchan", pgid)); err == nil {
				for _, th := range ths {
					w, _ := os.ReadFile(th)
					if strings.Contains(string(w), "wait_for_partner") || strings.Contains(string(w), "fifo_open") {
						subjectOnFifo = true
						fmt.Fprintf(&sb, "subject thread %s wchan=%s\n", filepath.Base(filepath.Dir(th)), strings.TrimSpace(string(w)))
					}
				}
			}
			// SIGQUIT the subject and read the goroutine dump
			syscall.Kill(pgid, syscall.SIGQUIT)
			select {
			case werr = <-done:
			case <-time.After(5 * time.Second):
				syscall.Kill(-pgid, syscall.SIGKILL)
				werr = <-done
			}
			dump, _ := os.ReadFile(outPath)
			allBlocked, summary := goroutinesBlocked(string(dump), subjectOnFifo)
			info = sb.String() + summary
			if allBlocked && childStuck {
				why := "all-goroutines-blocked"
				if nChildren > 0 {
					why += "+children-blocked-on-fifo"
				}
				return "deadlock:" + why, info, true, werr
			}
			return "inconclusive:stable-but-not-provably-blocked", info, true, werr
		}
		if time.Now().After(deadline) {
			var sb strings.Builder
			for _, p := range s2 {
				fmt.Fprintf(&sb, "pid=%d comm=%s state=%s cpu=%d wchan=%s\n", p.pid, p.comm, p.state, p.cpu, p.wchan)
			}
			return "inconclusive:watchdog", sb.String(), false, nil
		}
	}
}

var goroutineHdr = regexp.MustCompile(`(?m)^goroutine (\d+)[^\[]*\[([^\]]+)\]:$`)

// goroutinesBlocked parses a SIGQUIT dump.
func goroutinesBlocked(dump string, subjectOnFifo bool) (bool, string) {
	idx := goroutineHdr.FindAllStringSubmatchIndex(dump, -1)
	if len(idx) == 0 {
		return false, "no goroutine dump found\n"
	}
	all := true
	var sb strings.Builder
	for i, m := range idx {
		end := len(dump)
		if i+1 < len(idx) {
			end = idx[i+1][0]
		}
		body := dump[m[0]:end]
		state := dump[m[4]:m[5]]
		if k := strings.Index(state, ","); k >= 0 {
			state = state[:k]
		}
		user := strings.Contains(body, "github.com/scipipe/scipipe") || strings.Contains(body, "main.")
		if !user {
			continue
		}
		first := ""
		for _, l := range strings.Split(body, "\n")[1:] {
			if strings.Contains(l, "scipipe") || strings.Contains(l, "main.") {
				first = strings.TrimSpace(l)
				break
			}
		}
		fmt.Fprintf(&sb, "goroutine [%s] %s\n", state, first)
		ok := false
		for _, b := range blockedStates {
			if state == b {
				ok = true
			}
		}
		if state == "syscall" && (strings.Contains(body, "os.(*Process).wait") || strings.Contains(body, "os.(*Process).blockUntilWaitable") || strings.Contains(body, "os/exec.(*Cmd).Wait")) {
			ok = true
		}
		if state == "syscall" && subjectOnFifo && (strings.Contains(body, "os.OpenFile") || strings.Contains(body, "os.Open(")) {
			ok = true // the library itself opens a FIFO nobody holds the other end of (a thread of the subject sits in the kernel's FIFO open)
		}
		if state == "IO wait" && strings.Contains(body, "os/exec.(*Cmd)") {
			ok = true // reading the combined output of a child that is itself blocked
		}
		if !ok {
			all = false
		}
	}
	return all, sb.String()
}

// ---------------------------------------------------------------------------
// File-system snapshots
// ---------------------------------------------------------------------------

// FileInfo is one entry of a snapshot.
type FileInfo struct {
	Mode  string `json:"mode"` // f d p l
	Size  int64  `json:"size"`
	Ino   uint64 `json:"ino"`
	Mtime int64  `json:"mtime_ns"`
	Sha   string `json:"sha,omitempty"`
}

// Snapshot maps path (relative to the root it was taken from) to info.
type Snapshot map[string]FileInfo

// Snap walks root. log/ is skipped.
func Snap(root string) Snapshot {
	s := Snapshot{}
	snapInto(s, root, "")
	return s
}

func snapInto(s Snapshot, root, prefix string) {
	filepath.Walk(root, func(p string, fi os.FileInfo, err error) error {
		if err != nil || p == root {
			return nil
		}
		rel, _ := filepath.Rel(root, p)
		rel = filepath.Join(prefix, rel)
		if rel == "log" {
			return filepath.SkipDir
		}
		if fi.Mode()&os.ModeSymlink != 0 {
			// a symlink to a directory (e.g. an output area on another file system) is followed
			if tfi, e := os.Stat(p); e == nil && tfi.IsDir() {
				if target, e := filepath.EvalSymlinks(p); e == nil {
					s[rel] = FileInfo{Mode: "d"}
					snapInto(s, target, rel)
					return nil
				}
			}
		}
		st, _ := fi.Sys().(*syscall.Stat_t)
		e := FileInfo{Size: fi.Size(), Mtime: fi.ModTime().UnixNano()}
		if st != nil {
			e.Ino = st.Ino
		}
		switch {
		case fi.IsDir():
			e.Mode = "d"
		case fi.Mode()&os.ModeNamedPipe != 0:
			e.Mode = "p"
		case fi.Mode()&os.ModeSymlink != 0:
			e.Mode = "l"
		default:
			e.Mode = "f"
			if f, err := os.Open(p); err == nil {
				h := sha256.New()
				io.Copy(h, f)
				f.Close()
				e.Sha = hex.EncodeToString(h.Sum(nil))
			}
		}
		s[rel] = e
		return nil
	})
}

// Files returns the sorted regular-file paths.
func (s Snapshot) Files() []string {
	var out []string
	for p, e := range s {
		if e.Mode == "f" {
			out = append(out, p)
		}
	}
	sort.Strings(out)
	return out
}

// Leftovers returns temp directories and FIFOs.
func (s Snapshot) Leftovers() []string {
	var out []string
	for p, e := range s {
		base := filepath.Base(p)
		if (e.Mode == "d" && strings.HasPrefix(base, "_scipipe_tmp")) || e.Mode == "p" {
			out = append(out, p)
		}
	}
	sort.Strings(out)
	return out
}

// ---------------------------------------------------------------------------
// Parallel execution
// ---------------------------------------------------------------------------

// Workers is the number of parallel children.
func Workers() int {
	if s := os.Getenv("VERIF_WORKERS"); s != "" {
		if n, err := strconv.Atoi(s); err == nil && n > 0 {
			return n
		}
	}
	return 16
}

// Parallel runs fn(i) for i in [0,n) on Workers() goroutines.
func Parallel(n int, fn func(i int)) {
	ParallelN(Workers(), n, fn)
}

// ParallelN runs fn(i) for i in [0,n) on w goroutines.
func ParallelN(w, n int, fn func(i int)) {
	var wg sync.WaitGroup
	ch := make(chan int)
	for k := 0; k < w; k++ {
		wg.Add(1)
		go func() {
			defer wg.Done()
			for i := range ch {
				fn(i)
			}
		}()
	}
	for i := 0; i < n; i++ {
		ch <- i
	}
	close(ch)
	wg.Wait()
}
