package gen

import (
	"fmt"
	"math/rand"

	"verif/internal/spec"
	"verif/internal/vproto"
)

// ContentionOpts steers the slot-contention workloads (C06, C07).
type ContentionOpts struct {
	Max       int
	Procs     int // number of competing processes
	TasksPer  int // ready tasks per process
	SleepLo   int
	SleepHi   int
	GoFunc    bool
	Skipped   bool // pre-place the outputs of some tasks
	Streaming bool // add one streaming producer/consumer pair
	CoresFn   func(i int) int
	Prepend   bool // some command processes get a Prepend string (the documented way to wrap commands: srun, nice, env)
}

// Contention builds a workflow in which many tasks of different core counts
// are ready at the same time.
func Contention(rng *rand.Rand, name string, o ContentionOpts) (*spec.Spec, vproto.Behaviours) {
	s := &spec.Spec{Name: name, MaxTasks: o.Max, Sources: map[string]string{}}
	bh := vproto.Behaviours{}
	src := &spec.Proc{Name: "src", Kind: spec.KFileSource}
	for i := 0; i < o.TasksPer; i++ {
		f := fmt.Sprintf("s%02d.txt", i)
		src.Files = append(src.Files, f)
		s.Sources[f] = fmt.Sprintf("src %d\n", i)
	}
	s.Procs = append(s.Procs, src)
	for p := 0; p < o.Procs; p++ {
		pn := fmt.Sprintf("w%d", p)
		cores := 1 + rng.Intn(o.Max)
		if o.CoresFn != nil {
			cores = o.CoresFn(p)
		}
		kind := spec.KCmd
		if o.GoFunc && rng.Intn(3) == 0 {
			kind = spec.KGoFunc
		}
		pr := &spec.Proc{Name: pn, Kind: kind, Cores: cores,
			Cmd: spec.BuildCmd(pn, []spec.PortDecl{{Name: "in"}}, []spec.PortDecl{{Name: "out"}}, nil, nil, nil)}
		if o.Prepend && kind == spec.KCmd && rng.Intn(3) == 0 {
			// a multi-line command whose first line is a comment documenting the step
			pr.Cmd = "# step " + pn + ": first line of the command is a comment\n" + pr.Cmd
		}
		if o.Prepend && kind == spec.KCmd && rng.Intn(2) == 0 {
			pr.Prepend = "env VERIF_WRAPPED=" + pn
		}
		s.Procs = append(s.Procs, pr)
		s.Conns = append(s.Conns, &spec.Conn{From: "src.out", To: pn + ".in"})
		for i := 0; i < o.TasksPer; i++ {
			key := vproto.TaskKey(pn, []vproto.KV{{K: "in", V: src.Files[i]}}, nil, nil)
			sl := o.SleepLo
			if o.SleepHi > o.SleepLo {
				sl += rng.Intn(o.SleepHi - o.SleepLo)
			}
			bh[key] = map[string]string{"sleep": fmt.Sprint(sl)}
			if o.Skipped && rng.Intn(5) == 0 {
				out := fmt.Sprintf("%s.%s.out", src.Files[i], pn)
				s.Sources[out] = "pre-existing\n"
			}
		}
	}
	if o.Streaming {
		s.Procs = append(s.Procs, &spec.Proc{Name: "sprod", Kind: spec.KCmd,
			Cmd:  spec.BuildCmd("sprod", nil, []spec.PortDecl{{Name: "out", Stream: true}}, nil, nil, map[string]string{"size": "70000", "pause": fmt.Sprint(o.SleepHi)}),
			Outs: []*spec.Out{{Port: "out", Pattern: "stream.dat"}}})
		s.Procs = append(s.Procs, &spec.Proc{Name: "scons", Kind: spec.KCmd,
			Cmd:  spec.BuildCmd("scons", []spec.PortDecl{{Name: "in"}}, []spec.PortDecl{{Name: "out"}}, nil, nil, map[string]string{"post": fmt.Sprint(o.SleepHi)}),
			Outs: []*spec.Out{{Port: "out", Pattern: "stream.consumed"}}})
		s.Conns = append(s.Conns, &spec.Conn{From: "sprod.out", To: "scons.in"})
	}
	return s, bh
}
