// Package gen contains the seeded workload generators.
package gen

import (
	"fmt"
	"math/rand"
	"sort"
	"strings"

	"verif/internal/spec"
)

// GraphOpts steers the generic acyclic-graph generator.
type GraphOpts struct {
	MaxProcs  int
	Lens      []int // candidate stream lengths of the sources
	Buf       int   // SCIPIPE_BUFSIZE the graph will run under (for the unequal-length guard)
	FanIn     bool
	Params    bool
	GoFunc    bool
	WriteAPI  bool // some Go-function processes use the documented Task / FileIP API (Read, Open, Write, InPath, OutPath, Param) instead of the harness protocol; not for fault-injecting checks
	MultiOut  bool
	Portless  bool
	SubDirs   bool
	Recorders bool
	ParamComb bool
	Prepend   bool
	Cores     int // max CoresPerTask (<= MaxTasks)
	MaxTasks  int
	SleepMax  int  // ms, 0 = none
	Leaf      bool // allow processes without out-ports (driver shapes)
	MapTags   bool
	NoUnequal bool
	DirOut    bool // some outputs are directories
	Join      bool // StreamToSubStream + joined in-port shapes
	TagShared bool // MapToTags also on streams that have other consumers (C12)
}

type stream struct {
	port  string // "proc.port"
	n     int
	amb   bool
	param bool
	uses  int
	multi bool     // produced by a multi-output task
	alias string   // port of the stream whose items this stream carries unchanged
	tags  []string // tag keys carried by the items
}

func (st *stream) id() string {
	if st.alias != "" {
		return st.alias
	}
	return st.port
}

var valAlphabet = []string{"a", "b", "c", "x1", "y2", "z-3", "q_4", "v.5", "K", "m7"}

// Graph generates one workflow.
func Graph(rng *rand.Rand, name string, o GraphOpts) *spec.Spec {
	s := &spec.Spec{Name: name, MaxTasks: o.MaxTasks, Sources: map[string]string{}}
	if s.MaxTasks == 0 {
		s.MaxTasks = 4
	}
	if rng.Intn(4) == 0 {
		s.LogFile = "log/custom-" + name + ".log"
	}
	var streams []*stream
	nsrc := 1 + rng.Intn(2)
	baseLen := o.Lens[rng.Intn(len(o.Lens))]
	for i := 0; i < nsrc; i++ {
		n := baseLen
		if i > 0 && rng.Intn(3) == 0 {
			n = o.Lens[rng.Intn(len(o.Lens))]
		}
		p := &spec.Proc{Name: fmt.Sprintf("src%d", i), Kind: spec.KFileSource}
		for j := 0; j < n; j++ {
			f := fmt.Sprintf("in%d_%02d.txt", i, j)
			if o.SubDirs && rng.Intn(3) == 0 {
				f = "data/" + f
			}
			p.Files = append(p.Files, f)
			s.Sources[f] = fmt.Sprintf("source %s of %s\nline2 %d\n", f, name, j)
		}
		s.Procs = append(s.Procs, p)
		streams = append(streams, &stream{port: p.Name + ".out", n: n})
	}
	nproc := 2 + rng.Intn(o.MaxProcs-1)
	uniq := 0
	uniqVals := func(n int) []string {
		var out []string
		for i := 0; i < n; i++ {
			out = append(out, fmt.Sprintf("%s%d", valAlphabet[rng.Intn(len(valAlphabet))], uniq))
			uniq++
		}
		return out
	}
	pick := func(pred func(*stream) bool) *stream {
		var c []*stream
		for _, st := range streams {
			if pred(st) {
				c = append(c, st)
			}
		}
		if len(c) == 0 {
			return nil
		}
		// prefer streams nobody consumes yet
		sort.SliceStable(c, func(i, j int) bool { return c[i].uses < c[j].uses })
		if rng.Intn(3) > 0 {
			return c[rng.Intn((len(c)+1)/2)]
		}
		return c[rng.Intn(len(c))]
	}
	fileStream := func(st *stream) bool { return !st.param }
	detFile := func(st *stream) bool { return !st.param && !st.amb }
	connect := func(st *stream, to string, param bool) {
		via := "from"
		if rng.Intn(2) == 0 {
			via = "to"
		}
		s.Conns = append(s.Conns, &spec.Conn{From: st.port, To: to, Param: param, Via: via})
		st.uses++
	}
	for i := 0; i < nproc; i++ {
		pname := fmt.Sprintf("p%d", i)
		if rng.Intn(5) == 0 {
			pname = fmt.Sprintf("P%d_x", i)
		}
		p := &spec.Proc{Name: pname, Kind: spec.KCmd}
		if o.GoFunc && rng.Intn(4) == 0 {
			p.Kind = spec.KGoFunc
		}
		var ins []spec.PortDecl
		var params []string
		n := -1
		amb := false
		shape := rng.Intn(10)
		switch {
		case shape < 4: // map over one stream (+ optional param)
			st := pick(fileStream)
			ins = append(ins, spec.PortDecl{Name: "in"})
			connect(st, pname+".in", false)
			n, amb = st.n, st.amb
			if o.Params && !st.amb && rng.Intn(3) == 0 {
				params = append(params, "k")
				pn := st.n
				if !o.NoUnequal && rng.Intn(6) == 0 && st.n > 0 && o.Buf > 0 {
					// unequal lengths below the buffer size: the surplus is dropped
					pn = st.n + 1 + rng.Intn(o.Buf)
				}
				how := []string{"str", "str", "int", "float"}[rng.Intn(4)]
				vals := uniqVals(pn)
				if how == "int" {
					for j := range vals {
						switch (uniq + j) % 3 {
						case 0:
							vals[j] = fmt.Sprintf("%d", 100+uniq+j)
						case 1: // odd numbers above 2^53 (ids, seeds): an int is not a float64
							vals[j] = fmt.Sprintf("%d", 9007199254740993+2*int64(uniq+j))
						default: // nanosecond time stamps
							vals[j] = fmt.Sprintf("%d", 1696500000123456789+int64(uniq+j))
						}
					}
					uniq += pn
				} else if how == "float" {
					for j := range vals {
						switch (uniq + j) % 3 {
						case 0:
							vals[j] = fmt.Sprintf("%d.5", 100+uniq+j)
						case 1: // ten significant digits: distinct values that collapse at 32-bit precision
							vals[j] = fmt.Sprintf("0.12345%04d1", uniq+j)
						default: // odd whole numbers above 2^24
							vals[j] = fmt.Sprintf("%d", 16777217+2*(uniq+j))
						}
					}
					uniq += pn
				}
				if rng.Intn(3) == 0 && how == "str" {
					// through a ParamSource process
					ps := &spec.Proc{Name: pname + "ps", Kind: spec.KParamSource, Values: vals}
					s.Procs = append(s.Procs, ps)
					s.Conns = append(s.Conns, &spec.Conn{From: ps.Name + ".out", To: pname + ".k", Param: true, Via: []string{"from", "to"}[rng.Intn(2)]})
				} else {
					p.Feeds = append(p.Feeds, &spec.Feed{Port: "k", How: how, Values: vals})
				}
			}
		case shape < 6: // zip two deterministic streams of equal length
			a := pick(detFile)
			if a == nil {
				a = streams[0]
			}
			b := pick(func(st *stream) bool { return detFile(st) && st.n == a.n })
			if b == nil {
				b = a
			}
			ins = append(ins, spec.PortDecl{Name: "a"}, spec.PortDecl{Name: "b"})
			connect(a, pname+".a", false)
			connect(b, pname+".b", false)
			n = a.n
		case shape < 7 && o.FanIn: // fan-in of 2-3 upstreams
			k := 2 + rng.Intn(2)
			ins = append(ins, spec.PortDecl{Name: "in"})
			n = 0
			seen := map[string]bool{}
			for j := 0; j < k; j++ {
				st := pick(func(st *stream) bool { return fileStream(st) && !seen[st.id()] })
				if st == nil {
					break
				}
				seen[st.id()] = true
				connect(st, pname+".in", false)
				n += st.n
			}
			amb = true
		case shape < 8 && o.Params: // parameter-only process
			np := 1 + rng.Intn(2)
			pn := o.Lens[rng.Intn(len(o.Lens))]
			if o.ParamComb && np == 2 && rng.Intn(2) == 0 {
				cports := []string{"u", "v"}
				if rng.Intn(2) == 0 {
					cports = []string{"u", "v", "w"}
				}
				pc := &spec.Proc{Name: pname + "pc", Kind: spec.KParamComb, Ports: cports}
				s.Procs = append(s.Procs, pc)
				n = 1
				for ci, cp := range cports {
					l := 1 + rng.Intn(3)
					n *= l
					sn := fmt.Sprintf("%ss%d", pname, ci+1)
					s.Procs = append(s.Procs, &spec.Proc{Name: sn, Kind: spec.KParamSource, Values: uniqVals(l)})
					s.Conns = append(s.Conns, &spec.Conn{From: sn + ".out", To: pc.Name + "." + cp, Param: true},
						&spec.Conn{From: pc.Name + "." + cp, To: pname + "." + cp, Param: true})
				}
				params = cports
				amb = true
			} else {
				for j := 0; j < np; j++ {
					pn2 := fmt.Sprintf("k%d", j)
					params = append(params, pn2)
					p.Feeds = append(p.Feeds, &spec.Feed{Port: pn2, How: "str", Values: uniqVals(pn)})
				}
				n = pn
			}
		case shape < 9 && o.Portless: // no in-ports at all: runs exactly once
			n = 1
		default:
			st := pick(fileStream)
			ins = append(ins, spec.PortDecl{Name: "in"})
			connect(st, pname+".in", false)
			n, amb = st.n, st.amb
		}
		// tags carried by the inputs; some are consumed in the command
		var inTags []string
		tagArgs := map[string]string{}
		for _, cn := range s.Conns {
			if strings.HasPrefix(cn.To, pname+".") {
				for _, st := range streams {
					if st.port == cn.From {
						for _, tk := range st.tags {
							inTags = append(inTags, tk)
							_, port := spec.SplitPort(cn.To)
							if len(ins) > 0 && !amb && rng.Intn(2) == 0 {
								tagArgs["tg"+tk] = port + "." + tk
							}
						}
					}
				}
			}
		}
		joinProc := false
		if o.Join && shape == 9 && len(ins) == 1 && ins[0].Name == "in" && !amb {
			// feed the in-port through a StreamToSubStream and join it
			var conns []*spec.Conn
			ssn := pname + "ss"
			for _, cn := range s.Conns {
				if cn.To == pname+".in" {
					cn.To = ssn + ".in"
				}
				conns = append(conns, cn)
			}
			s.Conns = append(conns, &spec.Conn{From: ssn + ".substream", To: pname + ".in"})
			s.Procs = append(s.Procs, &spec.Proc{Name: ssn, Kind: spec.KSubStream})
			ins[0].Join = []string{"space", "comma", "colon"}[rng.Intn(3)]
			n, amb = 1, false
			params, p.Feeds = nil, nil
			tagArgs = map[string]string{}
			inTags = nil
			joinProc = true
		}
		// outputs
		nout := 1
		if o.MultiOut && rng.Intn(4) == 0 {
			nout = 2
		}
		leaf := o.Leaf && rng.Intn(6) == 0 && len(ins) > 0
		var outs []spec.PortDecl
		if !leaf {
			for j := 0; j < nout; j++ {
				on := []string{"out", "res"}[j]
				od := spec.PortDecl{Name: on}
				mode := rng.Intn(4)
				if joinProc {
					p.Outs = append(p.Outs, &spec.Out{Port: on, Pattern: "joined." + pname + "." + on})
					mode = 99
				}
				switch {
				case mode == 0 && rng.Intn(2) == 0:
					od.Ext = "txt"
				case mode == 1 && len(ins) > 0:
					dir := ""
					if o.SubDirs && rng.Intn(2) == 0 {
						dir = pname + "_d/"
						if rng.Intn(3) == 0 {
							dir += "sub/"
						}
					}
					pat := dir + "{i:" + ins[0].Name + "|basename|%.txt}." + pname + "." + on
					if len(ins) > 1 {
						pat += ".{i:" + ins[1].Name + "|basename|s/in/IN/}"
					}
					for _, pr := range params {
						pat += ".{p:" + pr + "}"
					}
					p.Outs = append(p.Outs, &spec.Out{Port: on, Pattern: pat})
				case mode == 2 && len(ins) > 0 && len(ins) < 2:
					f := &spec.OutFunc{Prefix: "f_" + pname + "_", InPort: ins[0].Name, Suffix: "." + on + ".dat"}
					if len(params) > 0 {
						f.Param = params[0]
					}
					p.Outs = append(p.Outs, &spec.Out{Port: on, Func: f})
				case mode == 3 && len(ins) == 0 && len(params) > 0:
					pat := pname + "_" + on
					for _, pr := range params {
						pat += "_{p:" + pr + "}"
					}
					p.Outs = append(p.Outs, &spec.Out{Port: on, Pattern: pat + ".out"})
				}
				if o.DirOut && rng.Intn(6) == 0 {
					od.Dir = true
				}
				outs = append(outs, od)
			}
		}
		opts := map[string]string{}
		if o.SleepMax > 0 && rng.Intn(2) == 0 {
			opts["sleep"] = fmt.Sprintf("%d", 1+rng.Intn(o.SleepMax))
		}
		if rng.Intn(4) == 0 {
			opts["size"] = fmt.Sprintf("%d", rng.Intn(3000))
		}
		if o.Cores > 1 && rng.Intn(3) == 0 {
			p.Cores = 1 + rng.Intn(o.Cores)
		}
		if o.Prepend && rng.Intn(6) == 0 {
			p.Prepend = "env VERIF_PREPENDED=1"
		}
		p.Cmd = spec.BuildCmd(pname, ins, outs, params, tagArgs, opts)
		if o.WriteAPI && p.Kind == spec.KGoFunc && !joinProc && rng.Intn(2) == 0 {
			plain := true
			for _, od := range outs {
				if od.Dir || od.Stream {
					plain = false
				}
			}
			p.WriteAPI = plain
		}
		s.Procs = append(s.Procs, p)
		for _, od := range outs {
			streams = append(streams, &stream{port: pname + "." + od.Name, n: n, amb: amb, multi: len(outs) > 1, tags: append([]string{}, inTags...)})
		}
		if o.MapTags && len(outs) == 1 && !joinProc && rng.Intn(3) == 0 {
			// tag the (only) output stream; the untagged stream is consumed by the tagging component alone
			mn := pname + "mt"
			key := fmt.Sprintf("t%d", i)
			rule := []string{"stem", "idx", fmt.Sprintf("const:c%d", i), "ext"}[rng.Intn(3)]
			s.Procs = append(s.Procs, &spec.Proc{Name: mn, Kind: spec.KMapToTags, Tags: []*spec.TagRule{{Key: key, Rule: rule}}})
			st := streams[len(streams)-1]
			s.Conns = append(s.Conns, &spec.Conn{From: st.port, To: mn + ".in"})
			nst := &stream{port: mn + ".out", n: st.n, amb: st.amb, tags: append(append([]string{}, st.tags...), key)}
			if o.TagShared {
				streams = append(streams, nst)
			} else {
				streams[len(streams)-1] = nst
			}
		}
		if o.Recorders && len(outs) > 0 && rng.Intn(4) == 0 {
			// put a recorder behind the first out-port
			rn := pname + "rec"
			s.Procs = append(s.Procs, &spec.Proc{Name: rn, Kind: spec.KRecorder})
			st := streams[len(streams)-len(outs)]
			connect(st, rn+".in", false)
			streams = append(streams, &stream{port: rn + ".out", n: st.n, amb: st.amb, alias: st.id()})
		}
	}
	return s
}

// Describe gives a short human-readable shape of a spec.
func Describe(s *spec.Spec) string {
	var sb strings.Builder
	for _, p := range s.Procs {
		switch p.Kind {
		case spec.KFileSource:
			fmt.Fprintf(&sb, "%s[src %d] ", p.Name, len(p.Files))
		case spec.KParamSource:
			fmt.Fprintf(&sb, "%s[params %d] ", p.Name, len(p.Values))
		default:
			fmt.Fprintf(&sb, "%s[%s] ", p.Name, p.Kind)
		}
	}
	sb.WriteString("| ")
	for _, c := range s.Conns {
		fmt.Fprintf(&sb, "%s>%s ", c.From, c.To)
	}
	return strings.TrimSpace(sb.String())
}

// ShapeHash is a stable hash of the structure of a spec.
func ShapeHash(s *spec.Spec) string {
	d := Describe(s)
	var h uint64 = 14695981039346656037
	for i := 0; i < len(d); i++ {
		h ^= uint64(d[i])
		h *= 1099511628211
	}
	return fmt.Sprintf("%016x", h)
}
