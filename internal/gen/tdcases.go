package gen

import (
	"fmt"
	"math/rand"
	"sort"
	"strings"

	"verif/internal/ref"
)

// TDCase mirrors subject.TDCase (a task identity).
type TDCase struct {
	ID     int                 `json:"id"`
	Name   string              `json:"name"`
	In     map[string]string   `json:"in"`
	Joined map[string][]string `json:"joined"`
	Params map[string]string   `json:"params"`
	Tags   map[string]string   `json:"tags"`
}

// Canon is the canonical form of an identity (what makes two tasks "the same").
func (c *TDCase) Canon() string {
	var sb strings.Builder
	sb.WriteString("n=" + c.Name)
	ks := []string{}
	for k := range c.In {
		ks = append(ks, k)
	}
	sort.Strings(ks)
	for _, k := range ks {
		sb.WriteString(";i:" + k + "=" + cleanPath(c.In[k]))
	}
	ks = ks[:0]
	for k := range c.Joined {
		ks = append(ks, k)
	}
	sort.Strings(ks)
	for _, k := range ks {
		sb.WriteString(";j:" + k + "=")
		for _, m := range c.Joined[k] {
			sb.WriteString(cleanPath(m) + ",")
		}
	}
	ks = ks[:0]
	for k := range c.Params {
		ks = append(ks, k)
	}
	sort.Strings(ks)
	for _, k := range ks {
		sb.WriteString(";p:" + k + "=" + c.Params[k])
	}
	ks = ks[:0]
	for k := range c.Tags {
		ks = append(ks, k)
	}
	sort.Strings(ks)
	for _, k := range ks {
		sb.WriteString(";t:" + k + "=" + c.Tags[k])
	}
	return sb.String()
}

func cleanPath(p string) string {
	// identical files may be named by different strings; identities are compared on cleaned paths
	parts := strings.Split(p, "/")
	var out []string
	for i, s := range parts {
		if s == "" && i > 0 {
			continue
		}
		if s == "." {
			continue
		}
		out = append(out, s)
	}
	return strings.Join(out, "/")
}

// Preimage is the reference pre-image of the identity, joined without separator (the documented recipe).
func (c *TDCase) Preimage() string {
	id := &ref.TempDirIdentity{Name: c.Name, In: c.inWithCarriers(), Joined: c.Joined, Params: c.Params, Tags: c.Tags}
	return strings.Join(ref.TempDirPreimage(id), "")
}

// inWithCarriers adds the carrier IP of every joined port (the subject names it "carrier.<port>").
func (c *TDCase) inWithCarriers() map[string]string {
	m := map[string]string{}
	for k, v := range c.In {
		m[k] = v
	}
	for k := range c.Joined {
		m[k] = "carrier." + k
	}
	return m
}

// RefName is the reference temp-dir name.
func (c *TDCase) RefName() string {
	return ref.TempDirName(&ref.TempDirIdentity{Name: c.Name, In: c.inWithCarriers(), Joined: c.Joined, Params: c.Params, Tags: c.Tags})
}

// TDExhaustive enumerates identities over a small alphabet.
func TDExhaustive(full bool) []*TDCase {
	names := []string{"a", "b", "ab", "A"}
	segs := []string{"a", "b", "ab", "c"}
	var paths []string
	for _, s1 := range segs {
		paths = append(paths, s1, "/"+s1)
		for _, s2 := range segs {
			paths = append(paths, s1+"/"+s2)
			if full {
				paths = append(paths, "/"+s1+"/"+s2)
				for _, s3 := range segs[:2] {
					paths = append(paths, s1+"/"+s2+"/"+s3)
				}
			}
		}
	}
	paths = append(paths, "../a", "../../a", "../a/b", ".a/b", "./a", "a/../b", "..a/b", "a/.b")
	vals := []string{"a", "b", "ab", "a_b", "b_c"}
	var kvs []map[string]string
	kvs = append(kvs, map[string]string{})
	for _, v := range vals {
		kvs = append(kvs, map[string]string{"a": v})
	}
	for _, v := range vals[:3] {
		kvs = append(kvs, map[string]string{"a_b": v}, map[string]string{"a": v, "b": "a"})
	}
	// empty values (a parameter port that only a path function reads may be fed ""; a tag may be attached empty): the
	// fields that sort after an empty one still tell identities apart
	kvs = append(kvs, map[string]string{"a": ""})
	for _, v := range vals[:3] {
		kvs = append(kvs, map[string]string{"a": "", "b": v}, map[string]string{"a": "", "a_b": "", "c": v})
	}
	var out []*TDCase
	id := 0
	add := func(c *TDCase) {
		c.ID = id
		id++
		out = append(out, c)
	}
	for _, n := range names {
		// no inputs: params x tags
		for _, p := range kvs {
			for _, t := range kvs {
				add(&TDCase{Name: n, In: map[string]string{}, Params: p, Tags: t})
			}
		}
		for _, p1 := range paths {
			for _, p := range kvs {
				add(&TDCase{Name: n, In: map[string]string{"x": p1}, Params: p, Tags: map[string]string{}})
			}
			for _, t := range kvs[1:4] {
				add(&TDCase{Name: n, In: map[string]string{"x": p1}, Params: map[string]string{}, Tags: t})
			}
			// a second port
			step := 1
			if !full {
				step = 3
			}
			for j := 0; j < len(paths); j += step {
				add(&TDCase{Name: n, In: map[string]string{"x": p1, "y": paths[j]}, Params: map[string]string{}, Tags: map[string]string{}})
			}
			// two joined ports (the keys of the sub-stream map have to be visited in a fixed order)
			add(&TDCase{Name: n, In: map[string]string{}, Joined: map[string][]string{"j": {p1}, "k": {"c"}, "m": {"b", p1}}, Params: map[string]string{}, Tags: map[string]string{}})
			add(&TDCase{Name: n, In: map[string]string{}, Joined: map[string][]string{"left": {p1, "a"}, "right": {"b"}}, Params: map[string]string{}, Tags: map[string]string{}})
			// sub-streams of 0..2 members
			add(&TDCase{Name: n, In: map[string]string{}, Joined: map[string][]string{"j": {}}, Params: map[string]string{}, Tags: map[string]string{}})
			add(&TDCase{Name: n, In: map[string]string{}, Joined: map[string][]string{"j": {p1}}, Params: map[string]string{}, Tags: map[string]string{}})
			for j := 0; j < len(paths); j += 4 * step {
				add(&TDCase{Name: n, In: map[string]string{}, Joined: map[string][]string{"j": {p1, paths[j]}}, Params: map[string]string{}, Tags: map[string]string{}})
			}
		}
	}
	return out
}

// TDRandom generates identities with long names, long paths and many fields.
func TDRandom(rng *rand.Rand, n int, startID int) []*TDCase {
	alpha := "abcdefghijklmnopqrstuvwxyzABCDEFGHIJKLMNOPQRSTUVWXYZ0123456789_-."
	word := func(max int) string {
		l := 1 + rng.Intn(max)
		b := make([]byte, l)
		for i := range b {
			b[i] = alpha[rng.Intn(len(alpha))]
		}
		if b[0] == '.' {
			b[0] = 'x'
		}
		return string(b)
	}
	var out []*TDCase
	for i := 0; i < n; i++ {
		c := &TDCase{ID: startID + i, In: map[string]string{}, Joined: map[string][]string{}, Params: map[string]string{}, Tags: map[string]string{}}
		switch rng.Intn(4) {
		case 0:
			c.Name = word(400)
		case 1:
			c.Name = strings.Repeat("n", 195+rng.Intn(15)) // around the 214-byte prefix boundary
		default:
			c.Name = word(12)
		}
		for k := 0; k < rng.Intn(3); k++ {
			depth := 1 + rng.Intn(5)
			var ps []string
			for d := 0; d < depth; d++ {
				ps = append(ps, word(30))
			}
			p := strings.Join(ps, "/")
			if rng.Intn(4) == 0 {
				p = "/" + p
			}
			c.In[fmt.Sprintf("in%d", k)] = p
		}
		for k := 0; k < rng.Intn(3); k++ {
			c.Params[word(6)] = word(20)
		}
		for k := 0; k < rng.Intn(3); k++ {
			c.Tags["in0."+word(5)] = word(20)
		}
		out = append(out, c)
	}
	// identities that differ only in a "special" value: printf / date verbs with different flags, blanks, case,
	// path-like and non-ASCII values, as parameter value, as tag value and as process name
	special := []string{"%d", "%5d", "%05d", "%s", "%10s", "%-10s", "%.2f", "%8.3f", "%Y-%m-%d", "%Y-%-m-%-d", "100%", "%%", "%", "a b", "a  b", "a_b", "a-b",
		"A", "a", "Qc Report", "qc_report", "qc report", "a/b", "a\\b", "a.b", "\u00e9", "e\u0301", "x=1", "x=1,y=2", "{p:x}", "$HOME", "*", "a*",
		// values as they come out of files and command output: the same word with and without surrounding white space
		"a ", " a", "a\n", "\ta", "a\r\n", " a ", "a  "}
	id := startID + n + 1000
	for _, v := range special {
		id += 3
		out = append(out,
			&TDCase{ID: id, Name: "fmt", In: map[string]string{"in": "d/f.txt"}, Joined: map[string][]string{}, Params: map[string]string{"fmt": v}, Tags: map[string]string{}},
			&TDCase{ID: id + 1, Name: "fmt", In: map[string]string{"in": "d/f.txt"}, Joined: map[string][]string{}, Params: map[string]string{}, Tags: map[string]string{"in.fmt": v}},
			&TDCase{ID: id + 2, Name: "step " + v, In: map[string]string{"in": "d/f.txt"}, Joined: map[string][]string{}, Params: map[string]string{}, Tags: map[string]string{}})
	}
	// input paths that (in the evaluating process's working directory) are symbolic links to the same file, the file
	// itself, and the same file through a symbolic link to its directory
	for k, pth := range []string{"lnk/a.txt", "lnk/b.txt", "lnk/real.txt", "data/sample.txt", "ldir/sample.txt"} {
		out = append(out, &TDCase{ID: id + 20 + k, Name: "linked", In: map[string]string{"in": pth}, Joined: map[string][]string{}, Params: map[string]string{}, Tags: map[string]string{}},
			&TDCase{ID: id + 40 + k, Name: "linked2", In: map[string]string{"in": "d/f.txt"}, Joined: map[string][]string{"parts": {pth, "d/g.txt"}}, Params: map[string]string{}, Tags: map[string]string{}})
	}
	// two parameter names that differ only in case
	for k, v := range []string{"1", "2"} {
		out = append(out, &TDCase{ID: id + 10 + k, Name: "cased", In: map[string]string{"in": "d/f.txt"}, Joined: map[string][]string{}, Params: map[string]string{"n": v, "N": "7"}, Tags: map[string]string{"in.k": "x", "in.K": "y"}})
	}
	// identities larger than 4 kB / 64 kB that differ only in a late piece (a long parameter value first, the
	// differing parameter, tag value or last path after it)
	for k, size := range []int{3000, 5000, 70000} {
		long := strings.Repeat("g", size)
		for v := 0; v < 3; v++ {
			id += 10
			out = append(out,
				&TDCase{ID: id, Name: "big", In: map[string]string{"in": "d/f.txt"}, Joined: map[string][]string{}, Params: map[string]string{"genes": long, "padding": fmt.Sprint(v)}, Tags: map[string]string{}},
				&TDCase{ID: id + 1, Name: "big", In: map[string]string{"in": "d/f.txt"}, Joined: map[string][]string{}, Params: map[string]string{"genes": long}, Tags: map[string]string{"in.zz": fmt.Sprint(v)}},
				&TDCase{ID: id + 2, Name: "big", In: map[string]string{"in": long[:200] + "/" + long[:200] + "/f.txt", "zlast": fmt.Sprintf("d/%d.txt", v+k)}, Joined: map[string][]string{}, Params: map[string]string{"a": long}, Tags: map[string]string{}})
		}
	}
	// every name length around the boundary once
	for l := 1; l <= 420; l++ {
		out = append(out, &TDCase{ID: startID + n + l, Name: strings.Repeat("q", l), In: map[string]string{"in": "d/f.txt"}, Joined: map[string][]string{}, Params: map[string]string{}, Tags: map[string]string{}})
	}
	return out
}
