package gen

import (
	"fmt"
	"math/rand"
	"regexp"
	"strings"

	"verif/internal/ref"
)

// FmtCase mirrors subject.FmtCase.
type FmtCase struct {
	ID       int                 `json:"id"`
	Proc     string              `json:"proc"`
	Cmd      string              `json:"cmd"`
	Outs     map[string]string   `json:"outs"`
	In       map[string]string   `json:"in"`
	Joined   map[string][]string `json:"joined"`
	Params   map[string]string   `json:"params"`
	Tags     map[string]string   `json:"tags"`
	Prepend  string              `json:"prepend"`
	Missing  string              `json:"missing,omitempty"`   // non-empty: a value is missing, the child must die
	InStream map[string]bool     `json:"in_stream,omitempty"` // in-ports whose file arrives as a stream (FIFO)
}

var fmtInPaths = []string{"f.txt", "d/f.txt", "d/e/report.txt", "text.txt", "a-b_c/x.tar.gz", "../up/t.txt", "/abs/dir/g.txt", "data/s.in.txt", "d.x/f", "x/mat.txt", "../../pp/q.gz", "t.txt", "./.hid/in.txt", "./../o.txt", "./x.txt", ".h/y"}
var fmtVals = []string{"v", "x1", "a.b", "p-q", "s", "ttt", "rx.txt", "d/f", "0", "F_f", "$2", "a$b"}
var fmtMods = []string{"basename", "dirname", "%.txt", "%.gz", "%xt", "%t", "s/f/F/", "s/d/D/", "s/.txt/.csv/", "s/t//", "%.tar.gz", "s/./_/", "s/x/../"}

var validPath = regexp.MustCompile(`^[0-9A-Za-z/._-]+$`)

// modOK implements the guards: the documentation fixes the result only in these situations.
func modOK(v, m string) bool {
	switch {
	case m == "basename" || m == "dirname":
		return strings.Contains(v, "/") && !strings.HasSuffix(v, "/")
	case strings.HasPrefix(m, "%"):
		return len(m)-1 < len(v)
	case strings.HasPrefix(m, "s/"):
		parts := strings.Split(m, "/")
		return strings.Count(v, parts[1]) <= 1
	}
	return true
}

// chain picks a modifier chain that respects the guards for value v.
func chain(rng *rand.Rand, v string, maxLen int) []string {
	n := rng.Intn(maxLen + 1)
	var out []string
	cur := v
	for i := 0; i < n; i++ {
		m := fmtMods[rng.Intn(len(fmtMods))]
		if !modOK(cur, m) {
			continue
		}
		nxt := ref.ApplyMods(cur, []string{m})
		if nxt == "" {
			continue
		}
		out = append(out, m)
		cur = nxt
	}
	return out
}

func ph(typ, name string, mods []string) string {
	s := "{" + typ + ":" + name
	for _, m := range mods {
		s += "|" + m
	}
	return s + "}"
}

// AllChains enumerates all guard-respecting chains up to length maxLen for value v.
func AllChains(v string, maxLen int) [][]string {
	out := [][]string{{}}
	var rec func(cur string, pre []string)
	rec = func(cur string, pre []string) {
		if len(pre) >= maxLen {
			return
		}
		for _, m := range fmtMods {
			if !modOK(cur, m) {
				continue
			}
			nxt := ref.ApplyMods(cur, []string{m})
			if nxt == "" {
				continue
			}
			ch := append(append([]string{}, pre...), m)
			out = append(out, ch)
			rec(nxt, ch)
		}
	}
	rec(v, nil)
	return out
}

// FmtRandom generates one random formatting case.
func FmtRandom(rng *rand.Rand, id int) *FmtCase {
	c := &FmtCase{ID: id, Proc: []string{"proc", "My_Proc", "p.1", "Align-Reads"}[rng.Intn(4)], Outs: map[string]string{}, In: map[string]string{}, Joined: map[string][]string{}, Params: map[string]string{}, Tags: map[string]string{}}
	nin := rng.Intn(3)
	ports := []string{"in1", "in2"}
	for i := 0; i < nin; i++ {
		c.In[ports[i]] = fmtInPaths[rng.Intn(len(fmtInPaths))]
	}
	np := rng.Intn(3)
	streamIn := nin > 0 && rng.Intn(8) == 0 // decided after the draws above so that earlier case lists keep their shape
	for i := 0; i < np; i++ {
		c.Params[fmt.Sprintf("k%d", i)] = fmtVals[rng.Intn(len(fmtVals))]
	}
	if nin > 0 && rng.Intn(2) == 0 {
		c.Tags["in1.tg"] = fmtVals[rng.Intn(len(fmtVals))]
	}
	if nin > 0 && rng.Intn(3) == 0 {
		c.Tags["in1.aa"] = fmtVals[rng.Intn(len(fmtVals))]
		c.Tags["in1.zz"] = fmtVals[rng.Intn(len(fmtVals))]
	}
	if rng.Intn(5) == 0 {
		for _, jp := range []string{"jn", "jm"} {
			n := rng.Intn(4)
			var ms []string
			for i := 0; i < n; i++ {
				ms = append(ms, fmtInPaths[rng.Intn(len(fmtInPaths))])
			}
			c.Joined[jp] = ms
			if rng.Intn(2) == 0 {
				break
			}
		}
	}
	var toks []string
	toks = append(toks, "tool")
	occ := 1 + rng.Intn(2)
	if streamIn {
		// the first in-port receives a streamed file: the placeholder stands for the FIFO's path, modifiers apply to it
		c.InStream = map[string]bool{"in1": true}
	}
	for port, path := range c.In {
		for o := 0; o < occ; o++ {
			if c.InStream[port] {
				toks = append(toks, "-i"+ph("i", port, chain(rng, path+".fifo", 3)))
				continue
			}
			toks = append(toks, "-i"+ph("i", port, chain(rng, path, 3)))
		}
	}
	for k, v := range c.Params {
		toks = append(toks, "--"+k+"="+ph("p", k, chain(rng, v, 2)))
		if rng.Intn(3) == 0 {
			toks = append(toks, ph("p", k, nil)+"_"+ph("p", k, nil))
		}
	}
	for k, v := range c.Tags {
		toks = append(toks, "-t "+ph("t", k, chain(rng, v, 2)))
	}
	for port, ms := range c.Joined {
		sep := []string{" ", ",", ":", " -I ", "\" \"", "','", ";"}[rng.Intn(7)] // (also separators that quote every member)
		var mods []string
		if len(ms) > 0 && rng.Intn(2) == 0 {
			// a chain valid for every member
			cand := chain(rng, ms[0], 2)
			ok := true
			for _, m := range ms {
				cur := m
				for _, md := range cand {
					if !modOK(cur, md) {
						ok = false
					}
					cur = ref.ApplyMods(cur, []string{md})
					if cur == "" {
						ok = false
					}
				}
			}
			if ok {
				mods = cand
			}
		}
		toks = append(toks, "-j "+ph("i", port, append([]string{"join:" + sep}, mods...)))
		if len(ms) > 0 && rng.Intn(2) == 0 {
			// the same joined port once more, with another modifier chain (basename suits every member)
			toks = append(toks, "-k "+ph("i", port, []string{"join:" + sep, "basename"}))
		}
	}
	// outputs
	nout := 1 + rng.Intn(2)
	for i := 0; i < nout; i++ {
		on := []string{"out", "res"}[i]
		ext := ""
		if rng.Intn(3) == 0 {
			// also extensions that contain dots themselves
			ext = []string{"|.o" + fmt.Sprint(i), "|.txt.gz", "|.tar.gz", "|.f-a_b.q9", "|.o" + fmt.Sprint(i)}[rng.Intn(5)]
		}
		typ := "o"
		if i == 0 && rng.Intn(6) == 0 {
			typ = "os" // a streaming output: the command gets the path of the FIFO
		}
		if rng.Intn(3) > 0 {
			// SetOut pattern, also below absolute, parent-relative and nested directories
			pat := []string{"o_", "o_", "o_", "/abs/out/o_", "../up/o_", "sub/dir/o_"}[rng.Intn(6)]
			for port, path := range c.In {
				pat += ph("i", port, chain(rng, path, 3)) + "."
			}
			for k, v := range c.Params {
				if rng.Intn(2) == 0 {
					pat += ph("p", k, chain(rng, v, 1)) + "."
				}
			}
			for k, v := range c.Tags {
				if rng.Intn(2) == 0 {
					pat += ph("t", k, chain(rng, v, 1)) + "."
				}
			}
			pat += on
			c.Outs[on] = pat
		} else if i == 1 && rng.Intn(2) == 0 {
			// the second output is named after the first one ("{o:out}" in an output-path pattern), plain or modified
			c.Outs[on] = []string{"{o:out}.idx", "{o:out|basename}.idx", "idx/{o:out|basename|%.o0}.bai", "{o:out|dirname}/side.{o:out|basename}"}[rng.Intn(4)]
		}
		omods := ""
		if typ == "o" && rng.Intn(5) == 0 {
			// path modifiers on an out-port placeholder (a tool that takes an output prefix or an output directory)
			omods = []string{"|basename", "|dirname", "|s/o_/O_/", "|%.x"}[rng.Intn(4)]
		}
		toks = append(toks, ">"+"{"+typ+":"+on+ext+omods+"}")
	}
	if rng.Intn(5) == 0 {
		c.Prepend = "srun -n 1"
	}
	c.Cmd = strings.Join(toks, " ")
	return c
}

// FmtExpected computes the reference result of a case; ok=false if the case is outside the judged domain.
func FmtExpected(c *FmtCase) (cmd string, outs map[string]string, ok bool) {
	tv := &ref.TaskView{Proc: c.Proc, In: map[string]string{}, InStream: map[string]bool{}, Joined: c.Joined, Params: c.Params, Tags: c.Tags, Outs: map[string]string{}}
	for k, v := range c.In {
		tv.In[k] = v
		if c.InStream[k] {
			tv.InStream[k] = true
		}
	}
	for k := range c.Joined {
		tv.In[k] = "carrier." + k
	}
	ports := ref.Ports(c.Cmd)
	outs = map[string]string{}
	for name, pi := range ports {
		if pi.Type != "o" && pi.Type != "os" {
			continue
		}
		if pat, has := c.Outs[name]; has {
			// "{o:x}" in a path pattern stands for the path of out-port x
			var pathOf func(port string) (string, error)
			pathOf = func(port string) (string, error) {
				opi, ok := ports[port]
				if !ok || port == name {
					return "", &ref.FormatErr{Msg: "no out-port " + port}
				}
				if opat, has := c.Outs[port]; has {
					return ref.FormatPath(opat, tv, pathOf)
				}
				return ref.DefaultName(tv, port, opi.Ext), nil
			}
			p, err := ref.FormatPath(pat, tv, pathOf)
			if err != nil {
				return "", nil, false
			}
			outs[name] = p
		} else {
			outs[name] = ref.DefaultName(tv, name, pi.Ext)
		}
		if !validPath.MatchString(outs[name]) {
			return "", nil, false
		}
	}
	tv.Outs = outs
	cmd, err := ref.FormatCommand(c.Cmd, c.Prepend, tv)
	if err != nil {
		return "", nil, false
	}
	return cmd, outs, true
}
