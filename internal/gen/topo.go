package gen

import (
	"fmt"
	"sort"
	"strings"

	"verif/internal/ref"
	"verif/internal/run"
	"verif/internal/spec"
	"verif/internal/vproto"
)

// PathShape places the outputs of a directed topology.
type PathShape string

const (
	ShapePlain  PathShape = "plain"
	ShapeNested PathShape = "nested"
	ShapeParent PathShape = "parent"
	ShapeAbs    PathShape = "absolute"
)

// Shapes lists all output-path shapes.
var Shapes = []PathShape{ShapePlain, ShapeNested, ShapeParent, ShapeAbs}

func outPattern(shape PathShape, root, proc, port string, hasIn bool) (string, []string) {
	base := proc + "." + port
	if hasIn {
		base = "{i:in|basename}." + proc + "." + port
	}
	switch shape {
	case ShapeNested:
		return "n1/" + proc + "_n2/" + base, nil
	case ShapeParent:
		return "../up_" + proc + "/" + base, []string{"../up_" + proc}
	case ShapeAbs:
		d := root + "/abs/" + proc
		return d + "/" + base, []string{d}
	}
	return base, nil
}

// Topo builds one of the directed topologies used by the crash / fault checks.
//
//	single : src(1) -> A
//	twoout : src(n) -> A(out,res) ; A.out -> B ; A.res -> C
//	fanin  : src(6) -> A ; src2(2) -> A2 ; A.out + A2.out -> B
//	chain  : src(n) -> A -> B -> C
//	diamond: src(n) -> A ; src -> B ; A.out + B.out -> J(a,b)
//	params : P(k in 6 values, no inputs) -> Q
//	extra  : src(n) -> A (creates additional files) -> B
//	concat : src(n) -> A -> Concatenator -> B
func Topo(kind string, shape PathShape, goFunc bool, root string, n int) *spec.Spec {
	s := &spec.Spec{Name: kind + "_" + string(shape), MaxTasks: 4, Sources: map[string]string{}}
	pk := spec.KCmd
	if goFunc {
		pk = spec.KGoFunc
	}
	addSrc := func(name string, n int) {
		src := &spec.Proc{Name: name, Kind: spec.KFileSource}
		for i := 0; i < n; i++ {
			f := fmt.Sprintf("%s_%02d.txt", name, i)
			src.Files = append(src.Files, f)
			s.Sources[f] = fmt.Sprintf("%s item %d\n", name, i)
		}
		s.Procs = append(s.Procs, src)
	}
	in := []spec.PortDecl{{Name: "in"}}
	addProc := func(name string, ins []spec.PortDecl, outs []string, params []string, opts map[string]string, kind string) *spec.Proc {
		var od []spec.PortDecl
		p := &spec.Proc{Name: name, Kind: kind}
		for _, o := range outs {
			if strings.HasSuffix(o, "/") { // a directory output
				o = strings.TrimSuffix(o, "/")
				od = append(od, spec.PortDecl{Name: o, Dir: true})
			} else if strings.HasSuffix(o, "~") { // a streaming output
				o = strings.TrimSuffix(o, "~")
				od = append(od, spec.PortDecl{Name: o, Stream: true})
			} else {
				od = append(od, spec.PortDecl{Name: o})
			}
			hasIn := false
			for _, i := range ins {
				if i.Name == "in" {
					hasIn = true
				}
			}
			pat, dirs := outPattern(shape, root, name, o, hasIn)
			if !hasIn {
				if len(ins) > 0 {
					pat = strings.Replace(pat, name+"."+o, "{i:"+ins[0].Name+"|basename}."+name+"."+o, 1)
				}
				for _, pr := range params {
					pat += ".{p:" + pr + "}"
				}
			}
			p.Outs = append(p.Outs, &spec.Out{Port: o, Pattern: pat})
			s.Dirs = append(s.Dirs, dirs...)
		}
		p.Cmd = spec.BuildCmd(name, ins, od, params, nil, opts)
		s.Procs = append(s.Procs, p)
		return p
	}
	conn := func(from, to string) { s.Conns = append(s.Conns, &spec.Conn{From: from, To: to}) }
	switch kind {
	case "single":
		addSrc("src", 1)
		addProc("A", in, []string{"out"}, nil, nil, pk)
		conn("src.out", "A.in")
	case "twoout":
		addSrc("src", n)
		addProc("A", in, []string{"out", "res"}, nil, nil, pk)
		addProc("B", in, []string{"out"}, nil, nil, spec.KCmd)
		addProc("C", in, []string{"out"}, nil, nil, spec.KCmd)
		conn("src.out", "A.in")
		conn("A.out", "B.in")
		conn("A.res", "C.in")
	case "longname":
		// a process name beyond the length up to which the temp directory name contains it (the name is hashed only)
		long := "Step_" + strings.Repeat("very_long_process_name_", 9) // 212 bytes
		long = long[:205]
		addSrc("src", n)
		addProc(long, in, []string{"out"}, nil, map[string]string{"sleep": "15"}, pk)
		addProc("B", in, []string{"out"}, nil, nil, spec.KCmd)
		conn("src.out", long+".in")
		conn(long+".out", "B.in")
	case "implicit":
		// A's only out-port exists through SetOut alone: the command names that file itself (a tool that derives
		// the name of its result from its input)
		addSrc("src", n)
		pat, _ := outPattern(shape, root, "A", "idx", true)
		s.Procs = append(s.Procs, &spec.Proc{Name: "A", Kind: pk, Cmd: spec.VcmdPath + " run id=A i=in:{i:in} o=idx:" + pat, Outs: []*spec.Out{{Port: "idx", Pattern: pat}}})
		addProc("B", in, []string{"out"}, nil, nil, spec.KCmd)
		addProc("C", in, []string{"out"}, nil, nil, spec.KCmd)
		conn("src.out", "A.in")
		conn("A.idx", "B.in")
		conn("B.out", "C.in")
	case "streamtwo":
		// a process with a streaming output and two file outputs, each with a consumer of its own
		addSrc("src", n)
		addProc("A", in, []string{"astream~", "bfile", "zfile"}, nil, nil, spec.KCmd)
		addProc("B", in, []string{"out"}, nil, nil, spec.KCmd)
		addProc("C", in, []string{"out"}, nil, nil, spec.KCmd)
		addProc("D", in, []string{"out"}, nil, nil, spec.KCmd)
		conn("src.out", "A.in")
		conn("A.astream", "B.in")
		conn("A.bfile", "C.in")
		conn("A.zfile", "D.in")
	case "fanin":
		addSrc("src", 6)
		addSrc("srb", 2)
		addProc("A", in, []string{"out"}, nil, map[string]string{"sleep": "15"}, pk)
		addProc("A2", in, []string{"out"}, nil, nil, spec.KCmd)
		addProc("B", in, []string{"out"}, nil, nil, spec.KCmd)
		conn("src.out", "A.in")
		conn("srb.out", "A2.in")
		conn("A.out", "B.in")
		conn("A2.out", "B.in")
	case "chain", "emptyout", "oldmtime":
		// "emptyout": the same chain, but the outputs of A and B are legitimately empty files (see TopoBehav)
		addSrc("src", n)
		addProc("A", in, []string{"out"}, nil, nil, pk)
		addProc("B", in, []string{"out"}, nil, nil, spec.KCmd)
		addProc("C", in, []string{"out"}, nil, nil, pk)
		conn("src.out", "A.in")
		conn("A.out", "B.in")
		conn("B.out", "C.in")
	case "diamond":
		addSrc("src", n)
		addProc("A", in, []string{"out"}, nil, nil, pk)
		addProc("B", in, []string{"out"}, nil, map[string]string{"sleep": "10"}, spec.KCmd)
		addProc("J", []spec.PortDecl{{Name: "a"}, {Name: "b"}}, []string{"out"}, nil, nil, spec.KCmd)
		conn("src.out", "A.in")
		conn("src.out", "B.in")
		conn("A.out", "J.a")
		conn("B.out", "J.b")
	case "params":
		p := addProc("P", nil, []string{"out"}, []string{"k"}, nil, pk)
		p.Feeds = []*spec.Feed{{Port: "k", How: "str", Values: []string{"v1", "v2", "v3", "v4", "v5", "v6"}}}
		addProc("Q", in, []string{"out"}, nil, nil, spec.KCmd)
		conn("P.out", "Q.in")
	case "concat":
		addSrc("src", n)
		addProc("A", in, []string{"out"}, nil, map[string]string{"sleep": "25"}, pk)
		s.Procs = append(s.Procs, &spec.Proc{Name: "CC", Kind: spec.KConcat, OutPath: "merged.txt"})
		addProc("B", in, []string{"out"}, nil, nil, spec.KCmd)
		conn("src.out", "A.in")
		conn("A.out", "CC.in")
		conn("CC.out", "B.in")
	case "concatgroup":
		// Concatenator with GroupByTag: one gathered file per tag value (two values), each consumed by B
		addSrc("src", 2*n)
		addProc("A", in, []string{"out"}, nil, map[string]string{"sleep": "25"}, pk)
		s.Procs = append(s.Procs, &spec.Proc{Name: "T", Kind: spec.KMapToTags, Tags: []*spec.TagRule{{Key: "grp", Rule: "parity"}}},
			&spec.Proc{Name: "CC", Kind: spec.KConcat, OutPath: "gathered.txt", GroupBy: "grp"})
		addProc("B", in, []string{"out"}, nil, nil, spec.KCmd)
		conn("src.out", "A.in")
		conn("A.out", "T.in")
		conn("T.out", "CC.in")
		conn("CC.out", "B.in")
	case "tagzip":
		// two differently tagged branches zipped by a two-in-port process
		addSrc("src", n)
		addSrc("srr", n)
		addProc("A", in, []string{"out"}, nil, nil, pk)
		addProc("R", in, []string{"out"}, nil, nil, spec.KCmd)
		s.Procs = append(s.Procs, &spec.Proc{Name: "TL", Kind: spec.KMapToTags, Tags: []*spec.TagRule{{Key: "left", Rule: "idx"}}},
			&spec.Proc{Name: "TR", Kind: spec.KMapToTags, Tags: []*spec.TagRule{{Key: "right", Rule: "stem"}, {Key: "kind", Rule: "const:r"}}})
		addProc("J", []spec.PortDecl{{Name: "a"}, {Name: "b"}}, []string{"out"}, nil, nil, spec.KCmd)
		addProc("K", in, []string{"out"}, nil, nil, spec.KCmd)
		conn("src.out", "A.in")
		conn("srr.out", "R.in")
		conn("A.out", "TL.in")
		conn("R.out", "TR.in")
		conn("TL.out", "J.a")
		conn("TR.out", "J.b")
		conn("J.out", "K.in")
	case "tagtwice":
		// a file tagged, processed, and its descendant tagged again
		addSrc("src", n)
		addProc("A", in, []string{"out"}, nil, nil, pk)
		s.Procs = append(s.Procs, &spec.Proc{Name: "T1", Kind: spec.KMapToTags, Tags: []*spec.TagRule{{Key: "first", Rule: "idx"}}})
		addProc("B", in, []string{"out"}, nil, nil, spec.KCmd)
		s.Procs = append(s.Procs, &spec.Proc{Name: "T2", Kind: spec.KMapToTags, Tags: []*spec.TagRule{{Key: "second", Rule: "const:s"}}})
		addProc("C", in, []string{"out"}, nil, nil, spec.KCmd)
		conn("src.out", "A.in")
		conn("A.out", "T1.in")
		conn("T1.out", "B.in")
		conn("B.out", "T2.in")
		conn("T2.out", "C.in")
	case "gather":
		// G has an ordinary in-port (hdr) and a joined one (parts)
		addSrc("src", n)
		addSrc("srh", 1)
		addProc("A", in, []string{"out"}, nil, nil, pk)
		addProc("H", in, []string{"out"}, nil, nil, spec.KCmd)
		s.Procs = append(s.Procs, &spec.Proc{Name: "SS", Kind: spec.KSubStream})
		// Go visits the entries of a small map mostly in insertion order: both declaration orders are used
		gports := []spec.PortDecl{{Name: "hdr"}, {Name: "parts", Join: "space"}}
		if n%2 == 1 {
			gports = []spec.PortDecl{{Name: "parts", Join: "space"}, {Name: "hdr"}}
		}
		g := addProc("G", gports, []string{"out"}, nil, nil, spec.KCmd)
		g.Outs = []*spec.Out{{Port: "out", Pattern: "gathered.G.out"}}
		addProc("K", in, []string{"out"}, nil, nil, spec.KCmd)
		conn("src.out", "A.in")
		conn("srh.out", "H.in")
		conn("A.out", "SS.in")
		conn("SS.substream", "G.parts")
		conn("H.out", "G.hdr")
		conn("G.out", "K.in")
	case "dirout":
		// A's declared output is a directory (mkdir + files inside), consumed by B
		addSrc("src", n)
		addProc("A", in, []string{"out/"}, nil, nil, spec.KCmd)
		addProc("B", in, []string{"out"}, nil, nil, spec.KCmd)
		conn("src.out", "A.in")
		conn("A.out", "B.in")
	case "extra":
		addSrc("src", n)
		addProc("A", in, []string{"out"}, nil, nil, spec.KCmd)
		addProc("B", in, []string{"out"}, nil, nil, pk)
		conn("src.out", "A.in")
		conn("A.out", "B.in")
	}
	sort.Strings(s.Dirs)
	return s
}

// TopoBehav returns the per-task behaviours of a topology ("extra": every task of A creates
// additional files with names of its own, one of them in a not yet existing sub-directory).
func TopoBehav(kind string, exp *ref.Result) vproto.Behaviours {
	bh := vproto.Behaviours{}
	if kind == "emptyout" {
		bh["A"] = map[string]string{"size": "-1"}
		bh["B"] = map[string]string{"size": "-1"}
	}
	if kind == "oldmtime" {
		for _, pn := range []string{"A", "B", "C"} {
			bh[pn] = map[string]string{"mtime": "old"}
		}
	}
	if kind == "extra" {
		for i, t := range exp.ByProc["A"] {
			bh[t.Key] = map[string]string{"extra": fmt.Sprintf("side%d.A.log,sub%d/deep/side2.A.log,zz%d.A.log", i, i, i)}
		}
	}
	return bh
}

// CrashPoint names one instant at which the process group can be killed.
type CrashPoint struct {
	Point string `json:"point"`
	Who   string `json:"who"`
	N     int    `json:"n"`
}

// Env renders the VERIF_CRASH value.
func (cp CrashPoint) Env() string { return fmt.Sprintf("%s|%s|%d", cp.Point, cp.Who, cp.N) }

// CrashPoints lists every (point, who, n) triple hit in a crash-free dry run.
func CrashPoints(evs []run.HookEvent) []CrashPoint {
	cnt := map[string]int{}
	var out []CrashPoint
	for _, e := range evs {
		who := e.Tmp
		if who == "" {
			who = e.Who
		}
		k := e.Pt + "|" + who
		cnt[k]++
		out = append(out, CrashPoint{e.Pt, who, cnt[k]})
	}
	return out
}
