// Package mon contains the monitors: pure functions over recorded evidence
// (command trace, hook event log, file-system snapshots, exit status).
package mon

import (
	"crypto/sha256"
	"encoding/hex"
	"fmt"
	"path/filepath"
	"sort"
	"strings"

	"verif/internal/ref"
	"verif/internal/run"
	"verif/internal/vproto"
)

// Problem is one deviation found by a monitor.
type Problem struct {
	Sig string // canonical signature (used for de-duplication and known findings)
	Msg string
}

func (p Problem) String() string { return p.Sig + ": " + p.Msg }

func sha(b []byte) string {
	s := sha256.Sum256(b)
	return hex.EncodeToString(s[:])
}

// TraceIndex groups the command trace by task key.
type TraceIndex struct {
	Starts map[string][]vproto.Event
	Ends   map[string][]vproto.Event
	Recs   map[string][]vproto.Event
	Probes []vproto.Event
	RVs    []vproto.Event
	Ret    *vproto.Event
}

// Index builds a TraceIndex.
func Index(tr []vproto.Event) *TraceIndex {
	ti := &TraceIndex{Starts: map[string][]vproto.Event{}, Ends: map[string][]vproto.Event{}, Recs: map[string][]vproto.Event{}}
	for i := range tr {
		e := tr[i]
		switch e.Ev {
		case "start":
			ti.Starts[e.Key] = append(ti.Starts[e.Key], e)
		case "end":
			ti.Ends[e.Key] = append(ti.Ends[e.Key], e)
		case "rec":
			ti.Recs[e.Rec] = append(ti.Recs[e.Rec], e)
		case "probe":
			ti.Probes = append(ti.Probes, e)
		case "rv":
			ti.RVs = append(ti.RVs, e)
		case "ret":
			ee := e
			ti.Ret = &ee
		}
	}
	return ti
}

// EndOK tells whether the task with this key has a successful end event.
func (ti *TraceIndex) EndOK(key string) bool {
	for _, e := range ti.Ends[key] {
		if e.Status == 0 && e.Note == "" {
			return true
		}
	}
	return false
}

// ExactlyOnce compares the executed tasks with the expected ones.
func ExactlyOnce(ti *TraceIndex, exp *ref.Result) []Problem {
	var ps []Problem
	want := map[string]int{}
	skipped := map[string]bool{}
	for _, t := range exp.Tasks {
		if t.Skipped {
			skipped[t.Key] = true
			continue
		}
		want[t.Key]++
	}
	for k, n := range want {
		got := len(ti.Starts[k])
		if got < n {
			ps = append(ps, Problem{"task-missing", fmt.Sprintf("task %q expected %d execution(s), trace has %d", k, n, got)})
		} else if got > n {
			ps = append(ps, Problem{"task-duplicated", fmt.Sprintf("task %q expected %d execution(s), trace has %d", k, n, got)})
		}
		ok := 0
		for _, e := range ti.Ends[k] {
			if e.Status == 0 {
				ok++
			}
		}
		if got >= n && ok < n {
			ps = append(ps, Problem{"task-unfinished", fmt.Sprintf("task %q started %d time(s) but has %d successful end event(s)", k, got, ok)})
		}
	}
	for k, evs := range ti.Starts {
		if want[k] == 0 {
			if skipped[k] {
				ps = append(ps, Problem{"skipped-task-executed", fmt.Sprintf("task %q has pre-existing outputs but was executed %d time(s)", k, len(evs))})
			} else {
				ps = append(ps, Problem{"task-unexpected", fmt.Sprintf("task %q executed %d time(s) but the reference has no such task", k, len(evs))})
			}
		}
	}
	sort.Slice(ps, func(i, j int) bool { return ps[i].String() < ps[j].String() })
	return ps
}

// IsHarnessFile tells whether a path in the working directory is not subject to judgement.
func IsHarnessFile(p string) bool {
	return IsAuditFile(p) || p == "log" || strings.HasPrefix(p, "log/")
}

// FilesMatch compares the regular files of a snapshot with the expectation.
// pre is the set of files that existed before the run.
func FilesMatch(snap run.Snapshot, exp *ref.Result, pre map[string]bool) []Problem {
	var ps []Problem
	for p, c := range exp.Files {
		if filepath.IsAbs(p) {
			continue // checked by the caller with its own snapshot root
		}
		e, ok := snap[filepath.Clean(p)]
		if !ok || e.Mode != "f" {
			ps = append(ps, Problem{"file-missing", fmt.Sprintf("expected output %q does not exist", p)})
			continue
		}
		if e.Sha != sha(c) {
			ps = append(ps, Problem{"file-content", fmt.Sprintf("output %q has sha %s, reference %s", p, e.Sha[:12], sha(c)[:12])})
		}
	}
	expSet := map[string]bool{}
	for p := range exp.Files {
		expSet[filepath.Clean(p)] = true
	}
	for _, p := range snap.Files() {
		if pre[p] || expSet[p] || IsHarnessFile(p) {
			continue
		}
		ps = append(ps, Problem{"file-unexpected", fmt.Sprintf("file %q is not an expected output", p)})
	}
	for _, p := range snap.Leftovers() {
		ps = append(ps, Problem{"leftover", fmt.Sprintf("temp directory or FIFO %q left behind", p)})
	}
	sort.Slice(ps, func(i, j int) bool { return ps[i].String() < ps[j].String() })
	return ps
}

// AuditFilesPresent checks that every expected task output has an audit file.
func AuditFilesPresent(snap run.Snapshot, exp *ref.Result) []Problem {
	var ps []Problem
	for p := range exp.AuditFor {
		if filepath.IsAbs(p) {
			continue
		}
		if _, ok := snap[filepath.Clean(p)+".audit.json"]; !ok {
			ps = append(ps, Problem{"audit-file-missing", fmt.Sprintf("output %q has no .audit.json", p)})
		}
	}
	return ps
}

// InterleavingSig hashes the order of the inter-process decisions of a run.
func InterleavingSig(evs []run.HookEvent) string {
	h := sha256.New()
	for _, e := range evs {
		switch e.Pt {
		case "proc.task_received", "task.cmd_start", "task.cmd_done", "proc.out_send", "inport.chan_closed", "task.slots_acquired":
			fmt.Fprintf(h, "%s|%s|%s\n", e.Pt, e.Who, e.Tmp)
		}
	}
	return hex.EncodeToString(h.Sum(nil))[:16]
}

// Summarize returns up to n problem strings.
func Summarize(ps []Problem, n int) []string {
	var out []string
	for i, p := range ps {
		if i >= n {
			out = append(out, fmt.Sprintf("... and %d more", len(ps)-n))
			break
		}
		out = append(out, p.String())
	}
	return out
}

// IsAuditFile tells whether p is an audit file or one of the hidden temporary files the library writes beside an audit
// file before moving it into place (".<name>.<random>.audit.json" today; any hidden name that contains ".audit.json"
// counts - how the temporary is called is not fixed by any property). Audit files are not "outputs at their final
// path" and are judged by C10 / C11 only.
func IsAuditFile(p string) bool {
	if strings.HasSuffix(p, ".audit.json") {
		return true
	}
	b := filepath.Base(p)
	return strings.HasPrefix(b, ".") && strings.Contains(b, ".audit.json")
}
