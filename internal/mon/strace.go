package mon

import (
	"bufio"
	"fmt"
	"os"
	"path/filepath"
	"regexp"
	"strconv"
	"strings"
)

// Final-path trace specification, evaluated offline on a log written by
//
//	strace -f -y -qq -e trace=%file,%process -o <log> <subject> ...
//
// A declared final output path must never be the target of a creating /
// writing open, link, symlink or mkdir; it may be the target of rename* only
// from inside a _scipipe_tmp.* directory, and (for command tasks) only after
// the shell that ran the task's command was reported to have exited with 0.
// A pre-existing output must not be opened for writing, truncated, renamed
// onto, unlinked or have its times / mode changed.

var (
	stLine    = regexp.MustCompile(`^(\d+)\s+(.*)$`)
	stCall    = regexp.MustCompile(`^([a-z_0-9]+)\((.*)$`)
	stResumed = regexp.MustCompile(`^<\.\.\. ([a-z_0-9]+) resumed>(.*)$`)
	stStr     = regexp.MustCompile(`"((?:[^"\\]|\\.)*)"`)
	stCwd     = regexp.MustCompile(`AT_FDCWD<([^>]*)>`)
	stRet     = regexp.MustCompile(`\)\s+= (-?\d+)`)
	stExited  = regexp.MustCompile(`si_code=CLD_EXITED, si_pid=(\d+), si_uid=\d+, si_status=0[,}]`)
)

// StraceStats says what the checker saw.
type StraceStats struct {
	Lines        int
	FileCalls    int
	Renames      int
	RenamesFinal int
	Processes    int
}

// StraceSpec checks a log. finals and preexisting are absolute, cleaned paths.
func StraceSpec(logPath string, startCwd string, finals map[string]bool, preexisting map[string]bool) ([]Problem, StraceStats) {
	var ps []Problem
	var st StraceStats
	f, err := os.Open(logPath)
	if err != nil {
		return []Problem{{"strace-log-missing", err.Error()}}, st
	}
	defer f.Close()
	cwd := map[int]string{}
	pending := map[int]string{} // pid -> unfinished call text
	shellOf := map[string]int{} // temp dir name -> pid of the bash that runs the task command
	exited0 := map[int]bool{}
	seenPid := map[int]bool{}
	resolve := func(pid int, args string, p string, dirfdIdx int) string {
		if filepath.IsAbs(p) {
			return filepath.Clean(p)
		}
		if m := stCwd.FindAllStringSubmatch(args, -1); len(m) > dirfdIdx && dirfdIdx >= 0 {
			return filepath.Clean(filepath.Join(m[dirfdIdx][1], p))
		}
		c, ok := cwd[pid]
		if !ok {
			c = startCwd
		}
		return filepath.Clean(filepath.Join(c, p))
	}
	handle := func(pid int, name, rest string) {
		ret := 0
		if m := stRet.FindStringSubmatch(rest); m != nil {
			ret, _ = strconv.Atoi(m[1])
		} else if strings.Contains(rest, "= ?") {
			ret = -1
		}
		strs := stStr.FindAllStringSubmatch(rest, -1)
		arg := func(i int) string {
			if i < len(strs) {
				return strs[i][1]
			}
			return ""
		}
		switch name {
		case "clone", "clone3", "fork", "vfork":
			if ret > 0 {
				if c, ok := cwd[pid]; ok {
					cwd[ret] = c
				} else {
					cwd[ret] = startCwd
				}
			}
			return
		case "chdir":
			if ret == 0 {
				cwd[pid] = resolve(pid, rest, arg(0), -1)
			}
			return
		case "execve":
			if ret == 0 && strings.Contains(rest, `"-c", "cd _scipipe_tmp`) {
				i := strings.Index(rest, "cd _scipipe_tmp")
				t := rest[i+3:]
				if j := strings.IndexAny(t, " \""); j > 0 {
					shellOf[t[:j]] = pid
				}
			}
			return
		}
		st.FileCalls++
		if ret < 0 {
			return
		}
		bad := func(sig, what, path string) {
			ps = append(ps, Problem{sig, fmt.Sprintf("pid %d: %s %s: %s", pid, name, path, clipStr(rest, 160))})
			_ = what
		}
		switch name {
		case "open", "openat", "creat":
			p := arg(0)
			ap := resolve(pid, rest, p, 0)
			writing := strings.Contains(rest, "O_WRONLY") || strings.Contains(rest, "O_RDWR") || strings.Contains(rest, "O_CREAT") || strings.Contains(rest, "O_TRUNC") || name == "creat"
			if writing && finals[ap] && !preexisting[ap] {
				bad("final-path-opened-for-writing", "", ap)
			}
			if writing && preexisting[ap] {
				bad("existing-output-opened-for-writing", "", ap)
			}
		case "rename", "renameat", "renameat2":
			st.Renames++
			src := resolve(pid, rest, arg(0), 0)
			dst := resolve(pid, rest, arg(1), 1)
			if preexisting[dst] {
				bad("existing-output-renamed-onto", "", dst)
			}
			if finals[dst] {
				st.RenamesFinal++
				tmp := ""
				for _, seg := range strings.Split(src, "/") {
					if strings.HasPrefix(seg, "_scipipe_tmp") {
						tmp = seg
					}
				}
				if tmp == "" {
					bad("final-path-renamed-from-outside-tempdir", "", dst+" <- "+src)
				} else if sh, ok := shellOf[tmp]; ok && !exited0[sh] {
					bad("final-path-renamed-before-command-exit-0", "", dst+" <- "+src)
				}
			}
		case "link", "linkat", "symlink", "symlinkat", "mkdir", "mkdirat":
			idx := 0
			di := 0
			if name == "link" || name == "symlink" {
				idx = 1
			}
			if name == "linkat" || name == "symlinkat" {
				idx = 1
				di = 1
				if name == "symlinkat" {
					di = 0
				}
			}
			ap := resolve(pid, rest, arg(idx), di)
			if finals[ap] && !preexisting[ap] {
				bad("final-path-created-by-"+name, "", ap)
			}
		case "unlink", "unlinkat", "truncate", "utimensat", "chmod", "fchmodat", "rmdir":
			ap := resolve(pid, rest, arg(0), 0)
			if preexisting[ap] {
				bad("existing-output-modified-by-"+name, "", ap)
			}
		}
	}
	sc := bufio.NewScanner(f)
	sc.Buffer(make([]byte, 1<<20), 1<<26)
	for sc.Scan() {
		st.Lines++
		m := stLine.FindStringSubmatch(sc.Text())
		if m == nil {
			continue
		}
		pid, _ := strconv.Atoi(m[1])
		if !seenPid[pid] {
			seenPid[pid] = true
			st.Processes++
		}
		body := m[2]
		if e := stExited.FindStringSubmatch(body); e != nil {
			// a SIGCHLD delivery or a wait result reporting a child that exited with status 0
			if cp, err := strconv.Atoi(e[1]); err == nil {
				exited0[cp] = true
			}
		}
		if strings.HasPrefix(body, "+++ exited with 0") {
			exited0[pid] = true
			continue
		}
		if strings.HasPrefix(body, "+++") || strings.HasPrefix(body, "---") {
			continue
		}
		if strings.HasSuffix(body, "<unfinished ...>") {
			pending[pid] = strings.TrimSuffix(body, "<unfinished ...>")
			continue
		}
		if r := stResumed.FindStringSubmatch(body); r != nil {
			full := pending[pid] + r[2]
			delete(pending, pid)
			if c := stCall.FindStringSubmatch(full); c != nil {
				handle(pid, c[1], c[2])
			}
			continue
		}
		if c := stCall.FindStringSubmatch(body); c != nil {
			handle(pid, c[1], c[2])
		}
	}
	return ps, st
}

func clipStr(s string, n int) string {
	if len(s) > n {
		return s[:n] + "..."
	}
	return s
}
