package mon

import (
	"fmt"
	"sort"
	"time"

	"github.com/anishathalye/porcupine"

	"verif/internal/run"
	"verif/internal/vproto"
)

// Overlap computes the maximum weighted overlap of the command intervals.
// coresOf maps a process id to its CoresPerTask.
func Overlap(tr []vproto.Event, coresOf func(id string) int) (max int, witness []string, intervals int) {
	type pt struct {
		t     int64
		delta int
		key   string
	}
	var pts []pt
	open := map[string][]vproto.Event{}
	for _, e := range tr {
		switch e.Ev {
		case "start":
			k := e.Key + "#" + fmt.Sprint(e.Pid)
			open[k] = append(open[k], e)
		case "end":
			k := e.Key + "#" + fmt.Sprint(e.Pid)
			if st := open[k]; len(st) > 0 {
				s0 := st[0]
				open[k] = st[1:]
				c := coresOf(e.ID)
				pts = append(pts, pt{s0.T, c, e.Key}, pt{e.T, -c, e.Key})
				intervals++
			}
		}
	}
	// ends before starts at equal stamps (closed-open intervals; conservative)
	sort.Slice(pts, func(i, j int) bool {
		if pts[i].t != pts[j].t {
			return pts[i].t < pts[j].t
		}
		return pts[i].delta < pts[j].delta
	})
	cur := 0
	active := map[string]int{}
	for _, p := range pts {
		cur += p.delta
		if p.delta > 0 {
			active[p.key] += p.delta
		} else {
			active[p.key] += p.delta
			if active[p.key] <= 0 {
				delete(active, p.key)
			}
		}
		if cur > max {
			max = cur
			witness = witness[:0]
			for k, c := range active {
				witness = append(witness, fmt.Sprintf("%s(cores=%d)", k, c))
			}
			sort.Strings(witness)
		}
	}
	return
}

// ShadowMax returns the maximum of the shadow slot counter maintained by the
// hook under the monitor mutex (+cores after acquisition, -cores before release).
func ShadowMax(evs []run.HookEvent) (max int, at *run.HookEvent, acquisitions int) {
	for i := range evs {
		e := evs[i]
		if e.Pt == "task.slots_acquired" {
			acquisitions++
			if e.Held > max {
				max = e.Held
				at = &evs[i]
			}
		}
	}
	return
}

type semOp struct {
	Acquire bool
	K       int
}

// SemaphoreLinearizable checks the slot pool as a linearizable counting
// semaphore against a sequential model, from the hook call/return events.
func SemaphoreLinearizable(evs []run.HookEvent, capacity int, timeout time.Duration) (porcupine.CheckResult, int) {
	var ops []porcupine.Operation
	pendingAcq := map[int64]run.HookEvent{}
	pendingRel := map[int64]run.HookEvent{}
	for _, e := range evs {
		switch e.Pt {
		case "slots.before_lock":
			pendingAcq[e.G] = e
		case "slots.acquired":
			if c, ok := pendingAcq[e.G]; ok {
				ops = append(ops, porcupine.Operation{ClientId: int(e.G % 1000000), Input: semOp{true, e.N}, Call: c.T, Output: true, Return: e.T})
				delete(pendingAcq, e.G)
			}
		case "slots.releasing":
			pendingRel[e.G] = e
		case "slots.released":
			if c, ok := pendingRel[e.G]; ok {
				ops = append(ops, porcupine.Operation{ClientId: int(e.G % 1000000), Input: semOp{false, e.N}, Call: c.T, Output: true, Return: e.T})
				delete(pendingRel, e.G)
			}
		}
	}
	// porcupine needs distinct small client ids per concurrent client; remap
	ids := map[int]int{}
	for i := range ops {
		if _, ok := ids[ops[i].ClientId]; !ok {
			ids[ops[i].ClientId] = len(ids)
		}
		ops[i].ClientId = ids[ops[i].ClientId]
	}
	model := porcupine.Model{
		Init: func() interface{} { return 0 },
		Step: func(state, input, output interface{}) (bool, interface{}) {
			h := state.(int)
			op := input.(semOp)
			if op.Acquire {
				if h+op.K > capacity {
					return false, h
				}
				return true, h + op.K
			}
			if h-op.K < 0 {
				return false, h
			}
			return true, h - op.K
		},
		Equal: func(a, b interface{}) bool { return a.(int) == b.(int) },
	}
	if len(ops) == 0 {
		return porcupine.Ok, 0
	}
	res := porcupine.CheckOperationsTimeout(model, ops, timeout)
	return res, len(ops)
}
