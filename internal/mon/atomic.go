package mon

import (
	"fmt"
	"path/filepath"
	"sort"
	"strings"

	"verif/internal/ref"
	"verif/internal/run"
)

// RootRel maps a path as used in a spec (relative to wd, or absolute below
// root) to a path relative to the case root.
func RootRel(root, p string) string {
	if filepath.IsAbs(p) {
		r, err := filepath.Rel(root, p)
		if err != nil {
			return p
		}
		return r
	}
	return filepath.Clean(filepath.Join("wd", p))
}

// SnapRoot snapshots the case root without the harness' meta directory.
func SnapRoot(root string) run.Snapshot {
	s := run.Snap(root)
	for p := range s {
		if p == "meta" || strings.HasPrefix(p, "meta/") || p == "wd/log" || strings.HasPrefix(p, "wd/log/") {
			delete(s, p)
		}
	}
	return s
}

// Atomicity is the C01 oracle over a terminated run (normal, failed or killed).
// pre: files (root-relative) that existed before the run.
func Atomicity(root string, snap run.Snapshot, exp *ref.Result, ti *TraceIndex, pre map[string]bool) []Problem {
	var ps []Problem
	legit := map[string]bool{}
	for _, t := range exp.Tasks {
		ok := ti.EndOK(t.Key)
		for port, p := range t.Outs {
			if t.Streams[port] {
				continue
			}
			fp := RootRel(root, p)
			want := t.Content[port]
			if t.DirOut[port] {
				fp += "/data"
			}
			e, exists := snap[fp]
			if pre[fp] {
				continue
			}
			if !exists && t.DirOut[port] {
				if _, dirExists := snap[RootRel(root, p)]; dirExists {
					ps = append(ps, Problem{"final-dir-incomplete", fmt.Sprintf("directory output %s of task %s exists at its final path without its content", p, t.Key)})
				}
				continue
			}
			if !exists {
				continue
			}
			if !ok {
				ps = append(ps, Problem{"final-path-without-successful-command", fmt.Sprintf("output %s of task %s exists at its final path although no command / Go function of that task finished successfully", p, t.Key)})
				continue
			}
			if e.Mode != "f" {
				ps = append(ps, Problem{"final-path-not-regular", fmt.Sprintf("final path %s of task %s is of type %s", p, t.Key, e.Mode)})
				continue
			}
			if want != nil && e.Sha != sha(want) {
				ps = append(ps, Problem{"final-path-partial-or-wrong", fmt.Sprintf("output %s of task %s at its final path has %d bytes (sha %s), the complete content has %d bytes (sha %s)", p, t.Key, e.Size, e.Sha[:12], len(want), sha(want)[:12])})
				continue
			}
			legit[fp] = true
		}
		if ok {
			for _, ex := range t.Extras {
				legit[RootRel(root, ex)] = true
			}
		}
	}
	for p, c := range exp.Files {
		// outputs of components (not judged by this property) are legitimate files
		_ = c
		if _, isTask := exp.AuditFor[p]; !isTask {
			legit[RootRel(root, p)] = true
		}
	}
	// probes: while the command runs nothing is visible at the final path
	for _, e := range ti.Probes {
		if e.Exists {
			ps = append(ps, Problem{"final-path-visible-while-running", fmt.Sprintf("task %s saw its own final path %s existing (phase %s) while its command was running", e.Key, e.Path, e.Phase)})
		}
	}
	// confinement of unfinished work
	for _, p := range snap.Files() {
		if pre[p] || legit[p] || IsAuditFile(p) {
			continue
		}
		inTemp := false
		for _, seg := range strings.Split(p, "/") {
			if strings.HasPrefix(seg, "_scipipe_tmp") {
				inTemp = true
			}
		}
		if !inTemp {
			ps = append(ps, Problem{"unfinished-work-outside-tempdir", fmt.Sprintf("new file %s is neither a finalized output of a successful task nor inside a temp directory", p)})
		}
	}
	sort.Slice(ps, func(i, j int) bool { return ps[i].String() < ps[j].String() })
	return ps
}
