package mon

import (
	"encoding/json"
	"fmt"
	"os"
	"sort"
	"strings"
	"time"

	"verif/internal/ref"
)

// AuditJSON mirrors the on-disk audit record.
type AuditJSON struct {
	ID          string
	ProcessName string
	Command     string
	Params      map[string]string
	Tags        map[string]string
	StartTime   time.Time
	FinishTime  time.Time
	ExecTimeNS  int64
	OutFiles    map[string]string
	Upstream    map[string]*AuditJSON
}

// LoadAudit parses an audit file.
func LoadAudit(path string) (*AuditJSON, error) {
	b, err := os.ReadFile(path)
	if err != nil {
		return nil, err
	}
	a := &AuditJSON{}
	if err := json.Unmarshal(b, a); err != nil {
		return nil, fmt.Errorf("invalid JSON in %s: %v", path, err)
	}
	return a, nil
}

func mapEq(a, b map[string]string) bool {
	if len(a) != len(b) {
		return false
	}
	for k, v := range a {
		if w, ok := b[k]; !ok || w != v {
			return false
		}
	}
	return true
}

func keysOf(m map[string]*AuditJSON) []string {
	var ks []string
	for k := range m {
		ks = append(ks, k)
	}
	sort.Strings(ks)
	return ks
}

func refKeys(m map[string]*ref.Audit) []string {
	var ks []string
	for k := range m {
		ks = append(ks, k)
	}
	sort.Strings(ks)
	return ks
}

// CompareAudit compares an on-disk record with the expected lineage tree.
// where is a human-readable position ("out.txt > Upstream[in.txt]").
func CompareAudit(got *AuditJSON, want *ref.Audit, where string, tagsSuperset bool) []Problem {
	var ps []Problem
	if got == nil {
		return []Problem{{"audit-record-missing", where + ": record missing"}}
	}
	if want == nil {
		return nil
	}
	if want.FromDisk {
		return nil // judged against the file on disk by the caller (C11)
	}
	if got.ProcessName != want.ProcessName {
		ps = append(ps, Problem{"audit-process-name", fmt.Sprintf("%s: ProcessName %q, expected %q", where, got.ProcessName, want.ProcessName)})
	}
	if got.Command != want.Command {
		ps = append(ps, Problem{"audit-command", fmt.Sprintf("%s: Command %q, expected %q", where, got.Command, want.Command)})
	}
	if !mapEq(got.Params, want.Params) {
		ps = append(ps, Problem{"audit-params", fmt.Sprintf("%s: Params %v, expected %v", where, got.Params, want.Params)})
	}
	if tagsSuperset {
		for k, v := range want.Tags {
			if got.Tags[k] != v {
				ps = append(ps, Problem{"audit-tags", fmt.Sprintf("%s: Tags %v lack %s=%s", where, got.Tags, k, v)})
			}
		}
	} else if !mapEq(got.Tags, want.Tags) {
		ps = append(ps, Problem{"audit-tags", fmt.Sprintf("%s: Tags %v, expected %v", where, got.Tags, want.Tags)})
	}
	if !mapEq(got.OutFiles, want.OutFiles) {
		ps = append(ps, Problem{"audit-outfiles", fmt.Sprintf("%s: OutFiles %v, expected %v", where, got.OutFiles, want.OutFiles)})
	}
	if want.ProcessName != "" {
		if got.FinishTime.Before(got.StartTime) {
			ps = append(ps, Problem{"audit-timing", fmt.Sprintf("%s: FinishTime %v before StartTime %v", where, got.FinishTime, got.StartTime)})
		}
		if got.ExecTimeNS < 0 {
			ps = append(ps, Problem{"audit-timing", fmt.Sprintf("%s: ExecTimeNS %d", where, got.ExecTimeNS)})
		}
		if got.StartTime.IsZero() {
			ps = append(ps, Problem{"audit-timing", where + ": StartTime is zero"})
		}
	}
	gk, wk := keysOf(got.Upstream), refKeys(want.Upstream)
	if strings.Join(gk, "\x00") != strings.Join(wk, "\x00") {
		ps = append(ps, Problem{"audit-upstream-keys", fmt.Sprintf("%s: Upstream keys %v, expected %v", where, gk, wk)})
	}
	for _, k := range wk {
		if g, ok := got.Upstream[k]; ok {
			ps = append(ps, CompareAudit(g, want.Upstream[k], where+" > Upstream["+k+"]", tagsSuperset)...)
		}
	}
	return ps
}

// Normalize renders a record without ids and times (for history comparison).
func (a *AuditJSON) Normalize() interface{} {
	if a == nil {
		return nil
	}
	up := map[string]interface{}{}
	for k, v := range a.Upstream {
		up[k] = v.Normalize()
	}
	return map[string]interface{}{"ProcessName": a.ProcessName, "Command": a.Command, "Params": a.Params, "Tags": a.Tags, "OutFiles": a.OutFiles, "Upstream": up}
}

// NormalizedJSON is Normalize() as canonical JSON.
func (a *AuditJSON) NormalizedJSON() string {
	b, _ := json.Marshal(a.Normalize())
	return string(b)
}

// Count returns the number of records in the tree.
func (a *AuditJSON) Count() int {
	if a == nil {
		return 0
	}
	n := 1
	for _, u := range a.Upstream {
		n += u.Count()
	}
	return n
}

// Depth returns the depth of the tree.
func (a *AuditJSON) Depth() int {
	if a == nil {
		return 0
	}
	d := 0
	for _, u := range a.Upstream {
		if x := u.Depth(); x > d {
			d = x
		}
	}
	return d + 1
}
