package mon

import (
	"os"
	"path/filepath"
	"regexp"
	"sort"
	"strings"
)

// RaceReport is one "WARNING: DATA RACE" block.
type RaceReport struct {
	Text    string
	Frames  [2]string // innermost scipipe frame of each of the two stacks ("" = none)
	Sig     string
	Harness bool // both stacks lie entirely in harness code
}

var frameRe = regexp.MustCompile(`(?m)^  (\S+)\(\)$`)

// ParseRaceLogs reads every race log written with GORACE=log_path=<prefix>.
func ParseRaceLogs(prefix string) []RaceReport {
	files, _ := filepath.Glob(prefix + "*")
	var out []RaceReport
	for _, f := range files {
		b, err := os.ReadFile(f)
		if err != nil {
			continue
		}
		for _, blk := range strings.Split(string(b), "==================") {
			if !strings.Contains(blk, "WARNING: DATA RACE") {
				continue
			}
			out = append(out, parseRaceBlock(blk))
		}
	}
	return out
}

func parseRaceBlock(blk string) RaceReport {
	r := RaceReport{Text: strings.TrimSpace(blk)}
	// split into the access stacks: the block has sections separated by blank lines;
	// the first two are the conflicting accesses
	secs := strings.Split(strings.TrimSpace(blk), "\n\n")
	n := 0
	scip := 0
	for _, sec := range secs {
		if !(strings.Contains(sec, " by goroutine ") || strings.Contains(sec, " by main goroutine")) {
			continue
		}
		if n >= 2 {
			break
		}
		inner := ""
		for _, m := range frameRe.FindAllStringSubmatch(sec, -1) {
			fn := m[1]
			if strings.Contains(fn, "github.com/scipipe/scipipe") && !strings.Contains(fn, "verif") {
				inner = fn
				break
			}
		}
		if inner != "" {
			scip++
		}
		r.Frames[n] = strings.TrimPrefix(inner, "github.com/scipipe/scipipe")
		n++
	}
	fr := []string{r.Frames[0], r.Frames[1]}
	sort.Strings(fr)
	r.Sig = "race:" + fr[0] + "×" + fr[1]
	r.Harness = scip == 0
	return r
}
